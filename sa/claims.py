"""What each check claims (copied into MANIFEST.json by tools/manifest.py)."""

TRUST = ("Trusted base: CPython ast; the partitioned abstract interpreter sa/core/absint.py (own code, "
         "self-validated against breaking/benign source variants in the thorough tier); the library model derived "
         "from the installed mypy's nodes.py/types.py; Python's documented dataclass rules. ")

CLAIMS = {
    "C19": {
        "text": "Decides, for every one of the 14 type classes, the structural necessary conditions of the round-trip, "
                "equality and hash laws on all inputs: the kind dispatch of AbstractType.from_dict is total and "
                "delegates to the right class; each to_dict/from_dict pair agrees key by key with the compared "
                "dataclass fields in constructor order; nested type fields are rebuilt through AbstractType.from_dict "
                "(element-wise, None-aware) and frozenset fields as frozensets; the fields a hash reads are compared "
                "on every equality path that returns True (path-correlated), multiset equality pairs with "
                "order-insensitive hashing, and __eq__ guards the operand type. It decides these clauses for all "
                "terms at once; it does not evaluate equality of concrete values (NaN, 1 == True are not decided).",
        "note": TRUST + "Assumes hash()/== of str/int/frozenset/Counter behave as documented.",
        "technique": "abstract interpretation of to_dict/from_dict/__eq__/__hash__ per class + dataclass method resolution",
        "ref": "DESIGN.md section 5 C19",
    },
}

NOT_APPLICABLE = {}
