"""What each check claims (copied into MANIFEST.json by tools/manifest.py)."""

TRUST = ("Trusted base: CPython ast; the partitioned abstract interpreter sa/core/absint.py (own code, "
         "self-validated against breaking/benign source variants in the thorough tier); the library model derived "
         "from the installed mypy's nodes.py/types.py; Python's documented dataclass rules. ")

CLAIMS = {
    "C19": {
        "text": "Decides, for every one of the 14 type classes, the structural necessary conditions of the round-trip, "
                "equality and hash laws on all inputs: the kind dispatch of AbstractType.from_dict is total and "
                "delegates to the right class; each to_dict/from_dict pair agrees key by key with the compared "
                "dataclass fields in constructor order; nested type fields are rebuilt through AbstractType.from_dict "
                "(element-wise, None-aware) and frozenset fields as frozensets; the fields a hash reads are compared "
                "on every equality path that returns True (path-correlated), multiset equality pairs with "
                "order-insensitive hashing, and __eq__ guards the operand type. It decides these clauses for all "
                "terms at once; it does not evaluate equality of concrete values (NaN, 1 == True are not decided).",
        "note": TRUST + "Assumes hash()/== of str/int/frozenset/Counter behave as documented.",
        "technique": "abstract interpretation of to_dict/from_dict/__eq__/__hash__ per class + dataclass method resolution",
        "ref": "DESIGN.md section 5 C19",
    },
}

CLAIMS["C05"] = {
    "text": "Decides the structural part of the type mapping on all inputs: the leaf table (int/str/bool/float/None and "
            "'any other name'), the constructor table of mypy_type_to_abstract_type over every mypy ProperType class and "
            "every builtin container name, the rendering shape of each API type kind, compositionality (every nested "
            "type key written by a to_dict is read by the kind's branch and handed to the translator; every nested mypy "
            "component is translated recursively), union normalisation (the joined member list carries a dedup and a "
            "sort provenance tag; the values of merged Literal members are concatenated as they are; T? only under len == 2 and a "
            "none member), that all nine positions call the same translator pair, and that the analyser never writes into "
            "mypy's node / type objects (typed inventory of attribute and item stores), so every position translates the type "
            "mypy analysed (type aliases are expanded and unions flattened through them with every flattened member kept, Final[T] translates the analysed T, an instance of a NamedTuple class is named after the class; "
            "known findings: Callable[..., X] takes the image of a two-parameter callable, tuple[X, ...] the image of the 1-tuple) - the store inventory found that list-typed class attributes were translated from unanalysed arguments "
            "(repaired). These are necessary conditions extracted as tables from the code by partitioned abstract "
            "interpretation; agreement with an independent reference translation of arbitrary annotation text is not decided.",
    "note": TRUST + "Reference tables are the ones the property statement lists.",
    "technique": "table extraction by specialisation per type class/kind/name + provenance tags on joined sequences + typed store inventory (mypy as a library)",
    "ref": "DESIGN.md section 5 C05",
}
CLAIMS["C06"] = {
    "text": "Decides on all signatures: the ArgKind x pos_only x receiver table of get_argument_kind equals the reference "
            "mapping and cannot raise; the argument loop appends exactly one Parameter per argument on every path, named "
            "by the argument, in source order, with is_optional = (default present or default is None); the generator "
            "appends exactly one entry per non-receiver parameter in order; the receiver flag passed by every caller "
            "equals 'method and not static' / constructor and only the first parameter is skipped; the default rendering "
            "table over {str, True, False, None, UnknownValue, int, float, negative} x 5 passing kinds x optionality; the "
            "literal-value table over all 49 mypy expression classes; Parameter.to_dict writes same-named fields. Numeric "
            "text equality (str(float)) and docstring-provided defaults are not decided.",
    "note": TRUST,
    "technique": "specialisation of dispatch functions and per-iteration path analysis of the parameter loops",
    "ref": "DESIGN.md section 5 C06",
}
CLAIMS["C20"] = {
    "text": "Decides for every declaration order and feature combination: every marker that can become pending is a key "
            "of the message table; a clean/dirty typestate over the effect traces of all generator methods shows that "
            "each declaration emitter ends with an empty pending set, embeds every flush result in its returned text, "
            "and only calls nested declaration emitters with an empty pending set - within a path and across the iterations of a "
            "loop - (so a marker can only be printed directly above the declaration that raised it); the flush prints and empties; the set is reset at module "
            "start; and the guard of each marker, extracted as a truth table over the model features, equals the "
            "reference table from the property statement (classes with abc.ABC among their bases included); the analyser hands every default it does not "
            "reproduce to the generator as UnknownValue (known finding: only unary expressions and infinite floats are).",
    "note": TRUST + "Loop bodies are analysed once peeled and once generically; cross-iteration interference is decided per loop by combining 'some iteration ends pending' with 'some iteration enters a nested emitter first'.",
    "technique": "typestate over effect traces with callee summaries + guard truth tables by specialisation",
    "ref": "DESIGN.md section 5 C20",
}
CLAIMS["C07"] = {
    "text": "Decides for all functions: the return-statement search descends every Block-bearing field (taken from the "
            "installed mypy's own class definitions) of every compound statement class on every path, so inference sees "
            "every return at any nesting; the literal-to-type table of the inference helper; every accepted inferred "
            "type is added to the collection; '-> None' is represented by a single none-typed result and rendered as no "
            "result (six result-list shapes), constructors have none; annotated tuples give one Result per element in "
            "order; every Result construction takes its name from the docstring entry or the 1-based numbering and its "
            "id ends in that name; no annotation and nothing inferred gives []. Grouping of mixed tuple/non-tuple "
            "inferred returns and docstring matching by hash(type) are value-level and not decided.",
    "note": TRUST,
    "technique": "dispatch totality against the library model + specialisation of result construction and rendering",
    "ref": "DESIGN.md section 5 C07",
}
CLAIMS["C14"] = {
    "text": "Decides the full configuration product statically: the two reconciliation loops of enter_funcdef are specialised "
            "over {hint absent/present} x {docstring type absent/equal/different} x 2 preferences x 2 warning settings "
            "(48 cells) and the extracted decision (log a warning / take the docstring type / append a missing result) is "
            "compared with the reference table of the property; the forward slice of the warning option reaches only "
            "blocks that build a message and log; the preference is read only as an enum comparison inside the two "
            "reconciliation conditions; option parsing and argparse wiring are consistent. For every signature, not a sample.",
    "note": TRUST + "Equality of types in `code_type != doc_type` is C19's equality.",
    "technique": "truth-table extraction by specialisation + forward slices of the two options",
    "ref": "DESIGN.md section 5 C14",
}
CLAIMS["C15"] = {
    "text": "Decides for all package trees: the discovery loop of get_api, specialised over path-segment lists (test/tests/docs "
            "at any depth, __init__ files, ten look-alike names) and the flag, skips exactly the files below a segment equal "
            "to test, tests or docs and only without the flag; discovery is the recursive **/*.py enumeration; the flag is "
            "read nowhere else (forward slice across all modules); only trees whose path is in the filtered lists are walked.",
    "note": TRUST + "What griffe loads for docstrings is not decided (it contributes no declarations).",
    "technique": "specialisation of the file filter over segment lists + forward slice of the flag",
    "ref": "DESIGN.md section 5 C15",
}
CLAIMS["C02"] = {
    "text": "Decides, for every name, value and docstring text a package can contain, the structural conditions of syntactic "
            "validity: the escaper back-quotes each of the 33 Safe-DS keywords; every hole of every output template of "
            "every emitter (obtained by abstract interpretation: all paths, loops summarised as repetitions) is "
            "classified by provenance, and every identifier hole ends in the keyword escaper (package paths segment by "
            "segment), comes from the generated param_/result_ alphabet, or sits inside a documentation comment; text "
            "holes in comments and values between double quotes need a sanitiser (today five such holes have none: "
            "listed known findings with runtime witnesses); the delimiter effect of every template is neutral on its "
            "path with repeated parts neutral (so brackets, braces, comments, strings close for any number of members); "
            "module headers have the shape [doc][annotation] package, imports, body; TODO lines end in a line break. "
            "It does not parse concrete stubs; semantic validity and layout are not decided.",
    "note": TRUST + "A hole whose provenance the classifier does not recognise is reported (fail-closed), so an unusual but "
            "correct new emission idiom needs the classifier to be extended.",
    "technique": "taint/provenance of template holes + delimiter-effect abstract interpretation of emitters",
    "ref": "DESIGN.md section 5 C02",
}
CLAIMS["C09"] = {
    "text": "Decides the relational part of the property that is visible in the code: with the PYTHON convention the conversion "
            "returns its argument on every path; the flag reaches nothing but the convention argument of the conversion "
            "(forward slice over generator, helpers and file writer), so nothing else in the stubs can change; at each of "
            "the 10 declaration sites (class, attribute, function, property, parameter, enum member, three module-path "
            "headers, placeholder class) the annotation is present on exactly the paths where 'converted == original' is "
            "false, carries the original and is compared before escaping; all emission sites of one role (class name, type "
            "variable, function, parameter, result) use one conversion pipeline and classes use the class mode (today four "
            "reference sites do not: listed known findings with a runtime witness). Of the string algorithm of the conversion two "
            "structural clauses are decided on its symbolic result: in conversion mode only the name '_' is returned untouched, and "
            "every '_'-separated part is joined with its first character upper-cased (all parts in class mode, all but the first "
            "otherwise). What the algorithm yields for particular identifier strings (digits, non-ASCII letters, runs of "
            "underscores) and whether two Python names collide after conversion are NOT decided.",
    "note": TRUST,
    "technique": "forward slice of the flag + per-path annotation/fact correspondence + pipeline comparison across sites",
    "ref": "DESIGN.md section 5 C09",
}
CLAIMS["C17"] = {
    "text": "Decides for all hierarchies the structural conditions of 'once, nearest wins': the superclass loop, specialised over "
            "closed superclass lists, names exactly the public bases in declaration order (an append-only list), imports them "
            "and inlines exactly the private ones; the names passed to the inlining are the class's own attribute and method "
            "names computed beforehand; the method filter's truth table over (is_public, private name, already defined, inlined) "
            "equals the reference; recursion continues through private ancestors only and receives the caller's names united "
            "with the names emitted at the nearer level; every emitted method, property and attribute is recorded as defined under its Python name; nested "
            "classes of an inlined private base pass the same filter (not copied when already defined, recorded when copied) and the class's own nested classes are among the names it passes on; abstract "
            "classes are treated like any other class; an exact qualified-name match wins over the fuzzy class search; no "
            "memo cache keys ancestor text on less than its inputs. The threading of emitted names between sibling private "
            "bases is violated today (known finding: duplicates for C(_A, _B) and diamonds). Whether the suffix search finds "
            "the intended class when no exact id exists is string matching and not decided.",
    "note": TRUST,
    "technique": "specialisation of the superclass/method loops + loop-carried dependence + memo-key completeness",
    "ref": "DESIGN.md section 5 C17",
}
CLAIMS["C03"] = {
    "text": "Decides, for every package shape, the structural conditions of 'exactly once': the walker's child selection (evaluated "
            "over all 28 statement classes of the installed mypy) contains every declaration-bearing class at module, class and "
            "constructor level; wrapped definitions (Decorator, OverloadedFuncDef) unwrap to classes that have a handler for every "
            "class mypy declares possible; every leave handler adds the element to the API store and to exactly one owner for every "
            "parent kind the walker can produce (stack-shape analysis); each model collection is emitted by exactly one loop and "
            "each public element by exactly one emitter call whose text is appended; a re-exported declaration is appended to the "
            "re-export list exactly when its own module drops it and is rendered once there, takes the alias of its own import only, and members of classes "
            "bypass the move; in a constructor exactly the members of the instance itself become attributes (also inside tuple targets); an attribute typed "
            "with a type variable is emitted; own members are recorded under their Python names before inherited ones are filtered. Known findings: definitions inside "
            "compound statements and enums nested in classes are dropped. Not decided: that the two shortest-re-export "
            "computations pick the same target (string matching), name collisions after conversion.",
    "note": TRUST,
    "technique": "dispatch totality against the library model + stack-shape analysis + per-iteration effect analysis of emission loops",
    "ref": "DESIGN.md section 5 C03",
}
CLAIMS["C04"] = {
    "text": "Decides the structural conditions of 'private never leaks': every emission loop (module functions, classes, inner "
            "classes, attributes, methods, inner classes of inlined bases) produces no text and no emitter call for an element "
            "with is_public=False; is_public of every Class/Function/Attribute is the publicity decision for that element's own "
            "name; the decision table of _is_public over name form x parent kind x parent publicity x path publicity x "
            "re-export verdict (60 cells) equals the reference of the property; every path on which a re-export makes a "
            "declaration public established a public name or public alias, the right package or key, and (by-name) that the "
            "import names the declaration; conversely the truth table of each of the three import loops (wildcard import, "
            "whole-module import, by-name import) over package relation x name equalities x alias form x name form x parent "
            "(120 cells) equals the reference condition, so a public re-export is also recognised; no memo cache in the visitor "
            "is under-keyed; probes on constants and on a concrete re-export map decide the exactness of that matching for the "
            "shapes the oracles found (private twin module, name coincidence with a module import, relative paths of several "
            "segments by name and by star). Known findings: enums have no publicity at all, __all__ and TYPE_CHECKING are not "
            "read, the level of a relative import is not recorded. Apart from those probes the string matching inside re-export "
            "recognition (suffix / membership tests on arbitrary names) is taken as the atom of these tables and is not decided itself.",
    "note": TRUST,
    "technique": "per-iteration effect analysis of emission loops + decision-table extraction + path-fact conditions",
    "ref": "DESIGN.md section 5 C04",
}
CLAIMS["C11"] = {
    "text": "Decides the bookkeeping side of closure for all packages: every path that emits a class name as a type (plain or "
            "generic) or as a superclass first registers an import for the same class's qualified name; the names exempt "
            "from bookkeeping are compared with the names translated to Safe-DS built-ins (known finding: all builtins.* are "
            "exempt, five are translated); the same-module suppression, specialised over six module-path relations, is "
            "segment exact; a class not found in the package is added to the imports and to the placeholder set together and "
            "every member of that set gets exactly one placeholder call; module paths are converted the same way at the "
            "package line of module stubs, re-export stubs, placeholder stubs and at the import source; every registered "
            "import becomes one sorted line. The two procedures that choose the package of a re-exported declaration (where its stub is "
            "written, what its imports name) are cross-checked: same tie-breaking order, same comparison, same candidates, kinds and depth "
            "condition (three known findings: chained re-exports, enums, re-exports from a package that is not shorter). Not decided: the "
            "matching of arbitrary names inside those procedures.",
    "note": TRUST,
    "technique": "must-call analysis per emitting branch + specialisation of the import bookkeeping + pipeline comparison",
    "ref": "DESIGN.md section 5 C11",
}
CLAIMS["C10"] = {
    "text": "Decides the layout preconditions that are visible in the code: the inventory of file-system write calls of the whole "
            "package is exactly {API file writer, module stub writer, placeholder writer}; every written path is the output "
            "directory joined with a module id (or that path minus exactly its last segment for re-export modules); the API "
            "file is out/'<src stem>__api.json' with both paths resolved at the CLI boundary; the directory and the announced "
            "package of a stub derive from one value (the same shortest-re-export query / the same module id); the base name "
            "strips leading underscores; module stubs are opened 'w', and the placeholder writer's mode table over (first "
            "class of the module in this run, file exists) is {w, w, a, w} with the created-paths set threaded from call to "
            "call. It decides these clauses, not the behaviour: that two different module ids never map to one path and the "
            "segment spelling for re-exported declarations are string arithmetic over arbitrary ids and are not decided.",
    "note": TRUST,
    "technique": "write-sink inventory + path provenance + typestate of the placeholder writer by specialisation",
    "ref": "DESIGN.md section 5 C10",
}
CLAIMS["C16"] = {
    "text": "Decides the preconditions of 'generation is a pure function of the model': an inventory of every attribute store, "
            "subscript store, delete and mutating method call in the three generator modules, each classified by an "
            "inter-procedural provenance analysis as fresh / generator state / serialised copy / model (any write to a model "
            "object is reported; one is a known finding); every to_dict the generator consumes returns only immutable values, "
            "fresh containers and nested to_dict results, so in-place edits of type dictionaries cannot reach the model; every "
            "instance field of the generator is assigned a scope and checked for re-initialisation before use (module scope in "
            "__call__ and per re-exported element, declaration scope before the methods are rendered, generation scope never - "
            "three known findings); no memo cache is under-keyed. Equality of the texts of two generations is relational and "
            "is not decided; the second CLI run into one directory is covered by C10.WRITE-MODE.",
    "note": TRUST,
    "technique": "effect inventory with provenance classes + escape analysis of to_dict + reset-before-use analysis of generator fields",
    "ref": "DESIGN.md section 5 C16",
}
CLAIMS["C12"] = {
    "text": "Decides the structural invariants of the inventory for all packages: to_dict has schemaVersion 1 and eight lists, each "
            "the to_dict of one store sorted by id; each add_* stores the element under its own id (so lists are duplicate free); "
            "the file is json.dump(to_dict()); every leave handler adds an element to its store and to exactly one owner for every "
            "parent kind the walker can produce, functions bring their results and parameters (referential integrity; known "
            "finding: enums nested in classes); every id= at the 13 element constructors is _create_id_from_stack(name) or "
            "'<owner id>/<name>' with the element's own name; owners reference children by id; static/class-method/property "
            "flags come from the node being built and superclasses are appended per base in order; 'attribute already defined' "
            "depends on the owning class only; constructor targets other than members of the instance itself add nothing; float defaults are finite; a base "
            "mypy resolved keeps its qualified name and ids are not shared by several declarations (known findings); root detection keeps all packages of minimal depth. Completeness beyond the "
            "walker's coverage (C03) and alias resolution of superclass names are not decided.",
    "note": TRUST,
    "technique": "abstract values of the serialisers + stack-shape pairing analysis + provenance of id=/flags",
    "ref": "DESIGN.md section 5 C12",
}
CLAIMS["C13"] = {
    "text": "Decides the attachment clauses (which element a text belongs to, independence of analysis order), not the text itself: "
            "the one-entry docstring cache returns the cached value only under 'cached key == qualified name', writes key and value "
            "together and computes the value from the key alone, is touched only by its accessor, and the parsers keep no other "
            "mutable state (so attachment cannot depend on query order); a qualified name resolves segment by segment (only the "
            "root segment may be skipped); every lookup in the visitor uses the node / name / owner of the element being built and "
            "the result is stored on that element; every emitter renders the docstring of the element it emits (with that element "
            "as node), and @param / @result / description parts come from that element's own data; the module docstring is the "
            "module's first statement (no search past other statements, no filtered statement list); what the class / function getters collect over the sections of a docstring (description, example "
            "lines) is accumulated and never overwritten by a later section (this rule found 'text after the parameter section "
            "replaces the summary', repaired); in example lines only the line's own prompt marker is rewritten. Line-for-line fidelity "
            "of the text through griffe, the equivalence of the NumPy/Google/reST parsers and which example lines survive are "
            "properties of griffe's parsers and string processing and are NOT decided.",
    "note": TRUST,
    "technique": "typestate of the docstring cache + argument provenance (same-subject) at lookups and emitters + loop-carried accumulation lint",
    "ref": "DESIGN.md section 5 C13",
}
CLAIMS["C18"] = {
    "text": "C18 is relational over pairs of packages and static analysis cannot decide it as a whole; this check decides only five "
            "preconditions of non-interference and says so: names are resolved against the current module's own imports and own "
            "classes before the package-wide alias table (path analysis); the package-wide tables are written only by their "
            "pre-pass owners, never mutated through aliases of their entries, and every subscript read is dominated by a membership "
            "test or an iteration over the table (they are defaultdicts: a read would insert); the visitor's scratch state is "
            "emptied at function entry before it is used and no further cross-declaration state exists; the lookup of a name among "
            "the module's imports finds it under its alias and under its own last segment (5-row table); no memo cache in the "
            "package is under-keyed. NOT decided: everything else - the name-keyed alias table, suffix matching in the re-export "
            "map and first-match scans over api.classes are interference channels by design, and whether they change bytes is "
            "input dependent; the permutation clause is not decided either.",
    "note": TRUST + "Narrowest claim of the suite: necessary conditions only.",
    "technique": "dominance / path analysis of name resolution + write and unguarded-read inventory on the shared tables",
    "ref": "DESIGN.md section 5 C18",
}
CLAIMS["C08"] = {
    "text": "Decides the structural sources of non-determinism, for all inputs: every iteration, comprehension and conversion "
            "(list/tuple/join/pop/next/min/max) whose operand mypy types as set or frozenset is found by type, not by name, and "
            "each is shown order-insensitive by construction (adds to sets, constant returns) or followed by a sort before any "
            "use; every sort key identifies the elements it orders (no hash-order ties); the eight JSON lists are sorted by id; "
            "no ambient read (time, random, cwd, environment, id/hash used for more than equality) occurs in pipeline code; "
            "source and output paths are only used resolved; library entry points that read ambient state unless an argument pins it (facts read from the "
            "installed mypy / griffe sources) are called with that argument (known findings: mypy's config discovery and module search path); file-system "
            "enumerations are sorted or are only walked completely by an order-independent selection; plus the shared state-reset and write-mode "
            "clauses for repeated runs. Three hash-seed dependences found this way were reproduced and repaired. It does not "
            "compare two runs: equality of outputs and determinism of mypy/griffe are not decided.",
    "note": TRUST + "Loop iterables are typed by mypy run as a library on the repository (its own dependency); 100% of loop iterables resolved.",
    "technique": "typed determinism lint: set-typed iteration sites (mypy types) + sort-barrier / order-insensitivity classification",
    "ref": "DESIGN.md section 5 C08",
}

CLAIMS["C01"] = {
    "text": "Decides that the tool's own failure sites are unreachable - not termination or totality of arbitrary code, which are undecidable. For every "
            "package and option set: (a) the dispatchers over mypy expression / type / node classes (expression->type helper, literal helper, default-value "
            "walk, argument kinds, assignment targets, generic base classes, alias table) are run on every concrete class of the installed mypy's class model "
            "and the class sets arriving at each call site are compared with the classes they raise on; (b) every enter_ handler accepts every parent the "
            "walker's child selection can put below it and pushes exactly once, every leave_ handler pops exactly once; (c) every type kind the pipeline "
            "constructs has a rendering branch, literal lookup tables are total on their key domain; (d) every raise / assert of the package is the documented "
            "rejection, option parsing, decided unreachable by (a)-(c), or covered by a named invariant or library fact (inventory with counts per function: a "
            "new raise is reported); (e) every constant-index subscript has a proven length bound (shape of the defining expression, dominating guards, tuple "
            "types from mypy) or a named invariant; (f) every while loop has a variant and every self-recursive call descends structurally; (g) mypy, run as a "
            "library on the repository, reports no attribute / call / index error against the installed library versions, no silenced diagnostic of that kind "
            "is left without a reason, attributes the library model declares Optional are not dereferenced unguarded on receivers mypy types as Any, and the "
            "documented failures of griffe's load() are handled (known finding); (h) every named type the analyser builds has a constant, guarded or "
            "library-guaranteed qualified name; (i) text writes of source-derived text use a tolerant error handler, relative_to() never meets a path "
            "re-assembled from its parts, and the walker's two enum decisions agree. Reasons of the kind 'the library guarantees it' are assumptions: five of "
            "them were refuted by runtime probes of sub-agents and turned into reported findings, all repaired. Nine crash classes found this way "
            "were reproduced with the real CLI and repaired ('return a + b', 'self.d[k] = 1', 'class Ints(Sequence[int])', 'helpers.helper()', enum methods, "
            "'X: Final = 1', internal superclass of another library, unresolved numpydoc type names, CallableType.bound_args); two remain as listed findings "
            "(PEP 695 class with a Sequence base; self-inlining through the fuzzy class lookup). Exceptions raised inside mypy / griffe / the standard library, "
            "KeyError of dictionary subscripts with non-constant keys, attribute errors on values whose class the library model does not resolve, and resource "
            "exhaustion are not decided.",
    "note": TRUST + "Library facts (each one line in LENGTH_INVARIANTS / RAISE_CLASSES / TERM_EXCEPTIONS of sa/rules/c01.py) are assumptions about mypy and griffe, listed in the evidence. "
            "The raise inventory is fail-closed: an additional raise statement in a triaged function is reported until it is triaged.",
    "technique": "partitioned abstract interpretation over the library's class model (dispatch totality, stack shapes) + length-bound dataflow for subscripts + "
                 "raise inventory + structural termination lint + mypy-as-library diagnostics",
    "ref": "DESIGN.md section 5 C01",
}

NOT_APPLICABLE = {}
