"""Partitioned abstract interpreter over function ASTs (DESIGN 3.3-3.5).

One engine serves: table extraction by specialisation, class-set reachability of failure sites, provenance of
values (every unknown value is a *symbol* that remembers its access path or the opaque call that produced it) and
string templates with holes.  It interprets ``ast`` trees of /repo with an abstract domain; it never imports or
runs repository code and never calls a solver.  Conditions are three-valued; an undetermined condition forks the
path and the decision is memoised as a *fact* so that correlated tests agree along one path.

Analysed subset: if/elif/else, match on values, return, raise, assert, assignments (incl. tuple unpacking and
augmented), for loops (peeled once + one generic iteration, accumulators summarised), while (generic once),
with/try (body only; handlers entered only for raise statements of the body), boolean operators, comparisons,
isinstance/hasattr/getattr/len, attribute/subscript reads, f-strings, calls (opaque symbolic application unless
the caller asks for inlining).  Everything else evaluates to Top.
"""
from __future__ import annotations

import ast
from dataclasses import dataclass, field
from typing import Callable, Iterable

from .source import AnalysisError, FuncInfo, norm

MAX_PATHS = 60000


# ---------------------------------------------------------------------------------------------- values
class AV:
    __slots__ = ()


@dataclass(frozen=True)
class Const(AV):
    v: object

    def __repr__(self) -> str:
        return f"{self.v!r}"


@dataclass(frozen=True)
class Top(AV):
    why: str = ""

    def __repr__(self) -> str:
        return f"⊤({self.why})" if self.why else "⊤"


@dataclass(frozen=True)
class Sym(AV):
    """Unknown value named by its access path from a parameter / field; ``cls`` = exact class if partitioned."""

    path: str
    cls: str | None = None

    def __repr__(self) -> str:
        return f"<{self.path}{':' + self.cls if self.cls else ''}>"


@dataclass(frozen=True)
class App(AV):
    """Opaque application: result of calling ``func`` with abstract arguments."""

    func: str
    args: tuple = ()
    kwargs: tuple = ()  # tuple of (name, AV)
    line: int = 0

    def __repr__(self) -> str:
        a = [repr(x) for x in self.args] + [f"{k}={v!r}" for k, v in self.kwargs]
        return f"{self.func}({', '.join(a)})"

    def arg(self, pos: int, name: str | None = None) -> AV | None:
        if name is not None:
            for k, v in self.kwargs:
                if k == name:
                    return v
        if pos < len(self.args):
            return self.args[pos]
        return None


@dataclass(frozen=True)
class Obj(AV):
    """Object built by a constructor call of a known class: fields by keyword / position."""

    cls: str
    fields: tuple = ()  # tuple of (name, AV)
    line: int = field(default=0, compare=False)

    def get(self, name: str) -> AV | None:
        for k, v in self.fields:
            if k == name:
                return v
        return None

    def __repr__(self) -> str:
        return f"{self.cls}({', '.join(f'{k}={v!r}' for k, v in self.fields)})"


@dataclass(frozen=True)
class EnumM(AV):
    enum: str
    member: str

    def __repr__(self) -> str:
        return f"{self.enum}.{self.member}"


@dataclass(frozen=True)
class StrT(AV):
    """String template: literal fragments and holes."""

    parts: tuple  # of str | AV

    def __repr__(self) -> str:
        return "f'" + "".join(p if isinstance(p, str) else "{" + repr(p) + "}" for p in self.parts) + "'"


@dataclass(frozen=True)
class Rep(AV):
    """Zero or more (``nonempty`` -> one or more) repetitions of any alternative, separated by ``sep``."""

    sep: AV
    alts: tuple
    nonempty: bool = False
    tags: frozenset = frozenset()  # provenance of the joined sequence: dedup (came from a set), sorted, sorted+edit

    def __repr__(self) -> str:
        t = "".join(f"#{x}" for x in sorted(self.tags))
        return f"Rep[{self.sep!r}]({' | '.join(map(repr, self.alts))}){'+' if self.nonempty else '*'}{t}"


@dataclass(frozen=True)
class ListV(AV):
    items: tuple = ()
    open: bool = False  # True: an unknown number of further elements, each one of ``items`` (alternatives)
    kind: str = "list"  # list | set | tuple
    nonempty: bool = False
    tags: frozenset = frozenset()  # dedup / sorted / sorted+edit (see Rep)

    def __repr__(self) -> str:
        b = {"list": "[]", "set": "{}", "tuple": "()"}[self.kind]
        return f"{b[0]}{', '.join(map(repr, self.items))}{'…' if self.open else ''}{b[1]}"


@dataclass(frozen=True)
class DictV(AV):
    items: tuple = ()  # of (AV key, AV value)

    def __repr__(self) -> str:
        return "{" + ", ".join(f"{k!r}: {v!r}" for k, v in self.items) + "}"


@dataclass(frozen=True)
class Alt(AV):
    """One of several values (join)."""

    alts: frozenset

    def __repr__(self) -> str:
        return "(" + " | ".join(sorted(map(repr, self.alts))) + ")"


@dataclass(frozen=True)
class FuncRef(AV):
    name: str


def join(vals: Iterable[AV]) -> AV:
    s: set[AV] = set()
    for v in vals:
        if isinstance(v, Alt):
            s |= v.alts
        else:
            s.add(v)
    if len(s) == 1:
        return next(iter(s))
    if any(isinstance(v, Top) for v in s):
        return Top("join")
    return Alt(frozenset(s))


# ---------------------------------------------------------------------------------------------- effects/outcomes
@dataclass
class Effect:
    kind: str  # call | store | add | raise-caught
    target: str  # e.g. "self._current_todo_msgs.add" or "self._add_to_imports"
    args: tuple
    kwargs: tuple
    node: ast.AST
    conds: tuple = ()  # path condition (facts) at the time of the effect
    seq: int = 0

    def __repr__(self) -> str:
        return f"{self.target}({', '.join(map(repr, self.args))})@{getattr(self.node, 'lineno', 0)}"


@dataclass
class Outcome:
    kind: str  # return | raise | fall
    value: AV
    facts: tuple  # ((key, bool), ...) in decision order
    effects: list
    node: ast.AST | None
    env: dict
    exc: str = ""

    def fact(self, key: str) -> bool | None:
        for k, v in self.facts:
            if k == key:
                return v
        return None


class _Return(Exception):
    pass


@dataclass
class State:
    env: dict
    facts: dict = field(default_factory=dict)  # key -> bool (insertion ordered)
    effects: list = field(default_factory=list)
    eq: dict = field(default_factory=dict)  # repr(sym) -> Const, learned from == / match
    neq: dict = field(default_factory=dict)  # repr(sym) -> set of consts
    status: str = "run"  # run | return | raise | break | continue
    value: AV = Const(None)
    node: ast.AST | None = None
    exc: str = ""
    alias: dict = field(default_factory=dict)  # local name -> attribute path it was bound to (`pending = self._todo`): effects on the local are effects on the path

    def clone(self) -> "State":
        return State(dict(self.env), dict(self.facts), list(self.effects), dict(self.eq),
                     {k: set(v) for k, v in self.neq.items()}, self.status, self.value, self.node, self.exc, dict(self.alias))


# ---------------------------------------------------------------------------------------------- hierarchy oracle
class Hierarchy:
    """Answers isinstance/hasattr questions for partitioned symbols.  Filled by libmodel / source model."""

    def __init__(self) -> None:
        self.supers: dict[str, set[str]] = {}  # class -> all (transitive) superclasses incl. itself
        self.attrs: dict[str, set[str]] = {}  # class -> attribute names (incl. inherited)
        self.attr_types: dict[tuple[str, str], str] = {}

    def add_class(self, name: str, bases: Iterable[str], attrs: Iterable[str] = ()) -> None:
        self.supers.setdefault(name, {name})
        self.attrs.setdefault(name, set()).update(attrs)
        for b in bases:
            self.supers[name].add(b)

    def close(self) -> None:
        changed = True
        while changed:
            changed = False
            for c, sup in self.supers.items():
                for s in list(sup):
                    for t in self.supers.get(s, ()):
                        if t not in sup:
                            sup.add(t)
                            changed = True
        for c, sup in self.supers.items():
            for s in sup:
                self.attrs.setdefault(c, set()).update(self.attrs.get(s, ()))

    def issub(self, cls: str, target: str) -> bool | None:
        if cls not in self.supers:
            return None
        return target in self.supers[cls]

    def hasattr(self, cls: str, attr: str) -> bool | None:
        if cls not in self.attrs:
            return None
        return attr in self.attrs[cls]

    def subclasses(self, target: str) -> set[str]:
        return {c for c, sup in self.supers.items() if target in sup}


PY_BUILTIN_SUPERS = {"bool": {"bool", "int", "object"}, "int": {"int", "object"}, "float": {"float", "object"},
                     "str": {"str", "object"}, "NoneType": {"NoneType", "object"}, "list": {"list", "object"},
                     "dict": {"dict", "object"}, "set": {"set", "object"}, "tuple": {"tuple", "object"},
                     "type": {"type", "object"}}


def pyclass_of(v: object) -> str:
    return type(v).__name__


# ---------------------------------------------------------------------------------------------- interpreter
class Interp:
    def __init__(
        self,
        hierarchy: Hierarchy | None = None,
        resolve_call: Callable[[str], FuncInfo | None] | None = None,
        inline: Iterable[str] = (),
        known_classes: Iterable[str] = (),
        enums: dict[str, set[str]] | None = None,
        self_cls: str | None = None,
        on_unknown_cond: Callable[[str, State], bool | None] | None = None,
        max_depth: int = 3,
        fork_limit: int = MAX_PATHS,
    ) -> None:
        self.h = hierarchy or Hierarchy()
        self.resolve_call = resolve_call
        self.inline = set(inline)
        self.known_classes = set(known_classes)
        self.enums = enums or {}
        self.self_cls = self_cls
        self.on_unknown_cond = on_unknown_cond
        self.max_depth = max_depth
        self.fork_limit = fork_limit
        self.paths = 0
        self.seq = 0
        self.depth = 0
        self.summaries: dict = {}  # (target, args tuple) -> AV : callee results established by the caller of the analysis
        self.loops: dict[int, list] = {}  # id(For node) -> [(iterable AV, element AV, entry State clone)]

    # ------------------------------------------------------------------ public API
    def run_function(self, fi: FuncInfo, args: dict[str, AV] | None = None, state: State | None = None) -> list[Outcome]:
        env = dict(state.env) if state else {}
        args = args or {}
        a = fi.node.args
        allargs = a.posonlyargs + a.args + a.kwonlyargs
        defaults = dict(zip([x.arg for x in (a.posonlyargs + a.args)][::-1], a.defaults[::-1]))
        defaults.update({k.arg: d for k, d in zip(a.kwonlyargs, a.kw_defaults) if d is not None})
        st0 = State(env) if state is None else state.clone()
        for x in allargs:
            if x.arg in args:
                st0.env[x.arg] = args[x.arg]
            elif x.arg in defaults:
                vs = self.eval(defaults[x.arg], st0)
                st0.env[x.arg] = vs[0][0] if vs else Top()
            else:
                st0.env[x.arg] = Sym(x.arg)
        if a.vararg:
            st0.env[a.vararg.arg] = args.get(a.vararg.arg, Sym(a.vararg.arg))
        if a.kwarg:
            st0.env[a.kwarg.arg] = args.get(a.kwarg.arg, Sym(a.kwarg.arg))
        finals = self.block(fi.node.body, [st0])
        return [self._outcome(s) for s in finals]

    def run_block(self, stmts: list[ast.stmt], env: dict[str, AV]) -> list[Outcome]:
        finals = self.block(stmts, [State(dict(env))])
        return [self._outcome(s) for s in finals]

    def _outcome(self, s: State) -> Outcome:
        kind = {"return": "return", "raise": "raise"}.get(s.status, "fall")
        return Outcome(kind, s.value if kind != "fall" else Const(None), tuple(s.facts.items()), s.effects, s.node,
                       s.env, s.exc)

    # ------------------------------------------------------------------ statements
    def block(self, stmts: list[ast.stmt], states: list[State]) -> list[State]:
        for st in stmts:
            nxt: list[State] = []
            for s in states:
                if s.status != "run":
                    nxt.append(s)
                else:
                    nxt.extend(self.stmt(st, s))
            states = nxt
            self.paths = max(self.paths, len(states))
            if len(states) > self.fork_limit:
                raise AnalysisError(f"path explosion at line {getattr(st, 'lineno', 0)} ({len(states)} paths)")
        return states

    def stmt(self, n: ast.stmt, s: State) -> list[State]:
        m = getattr(self, "s_" + type(n).__name__, None)
        if m is None:
            return [s]  # unsupported statement kinds have no effect on the tracked domain
        return m(n, s)

    def s_Pass(self, n, s):
        return [s]

    def s_Import(self, n, s):
        return [s]

    s_ImportFrom = s_Import
    s_Global = s_Import
    s_Nonlocal = s_Import

    def s_FunctionDef(self, n, s):
        s.env[n.name] = FuncRef(n.name)
        return [s]

    def s_Expr(self, n, s):
        return [s2 for _, s2 in self.eval(n.value, s)]

    def s_Return(self, n, s):
        if n.value is None:
            s.status, s.value, s.node = "return", Const(None), n
            return [s]
        out = []
        for v, s2 in self.eval(n.value, s):
            if s2.status == "run":
                s2.status, s2.value, s2.node = "return", v, n
            out.append(s2)
        return out

    def s_Raise(self, n, s):
        exc = "Exception"
        if n.exc is not None:
            t = n.exc.func if isinstance(n.exc, ast.Call) else n.exc
            exc = t.id if isinstance(t, ast.Name) else norm(t)
        s.status, s.node, s.exc, s.value = "raise", n, exc, Const(exc)
        return [s]

    def s_Assert(self, n, s):
        out = []
        for truth, s2 in self.cond(n.test, s):
            if s2.status != "run":
                out.append(s2)
            elif truth:
                out.append(s2)
            else:
                s2.status, s2.node, s2.exc, s2.value = "raise", n, "AssertionError", Const("AssertionError")
                out.append(s2)
        return out

    def s_Break(self, n, s):
        s.status = "break"
        return [s]

    def s_Continue(self, n, s):
        s.status = "continue"
        return [s]

    def s_Assign(self, n, s):
        out = []
        for v, s2 in self.eval(n.value, s):
            if s2.status == "run":
                for t in n.targets:
                    self.assign(t, v, s2)
                    if isinstance(t, ast.Name):
                        # `local = self.attr` binds the local to the same (mutable) object
                        p = self.path_of(n.value, s2) if isinstance(n.value, ast.Attribute) else None
                        if p and p.startswith("self.") and len(n.targets) == 1:
                            s2.alias[t.id] = p
                        else:
                            s2.alias.pop(t.id, None)
            out.append(s2)
        return out

    def s_AnnAssign(self, n, s):
        if n.value is None:
            return [s]
        out = []
        for v, s2 in self.eval(n.value, s):
            if s2.status == "run":
                self.assign(n.target, v, s2)
            out.append(s2)
        return out

    def s_AugAssign(self, n, s):
        out = []
        load = ast.copy_location(ast.BinOp(left=self._as_load(n.target), op=n.op, right=n.value), n)
        for v, s2 in self.eval(load, s):
            if s2.status == "run":
                self.assign(n.target, v, s2)
            out.append(s2)
        return out

    @staticmethod
    def _as_load(t: ast.expr) -> ast.expr:
        if isinstance(t, ast.Name):
            return ast.copy_location(ast.Name(id=t.id, ctx=ast.Load()), t)
        if isinstance(t, ast.Attribute):
            return ast.copy_location(ast.Attribute(value=t.value, attr=t.attr, ctx=ast.Load()), t)
        if isinstance(t, ast.Subscript):
            return ast.copy_location(ast.Subscript(value=t.value, slice=t.slice, ctx=ast.Load()), t)
        return t

    def assign(self, t: ast.expr, v: AV, s: State) -> None:
        if isinstance(t, ast.Name):
            s.env[t.id] = v
        elif isinstance(t, (ast.Tuple, ast.List)):
            items = None
            if isinstance(v, ListV) and not v.open and len(v.items) == len(t.elts):
                items = v.items
            for i, e in enumerate(t.elts):
                if items is not None:
                    self.assign(e, items[i], s)
                else:
                    self.assign(e, self.subscript(v, Const(i), s, t)[0], s)
        elif isinstance(t, ast.Attribute):
            key = self.path_of(t, s)
            self.effect(s, "store", key or norm(t), (v,), (), t)
            if key:
                s.env[key] = v
        elif isinstance(t, ast.Subscript):
            base = self.path_of(t.value, s) or norm(t.value)
            idx = [x for x, _ in self.eval(t.slice, s)]
            self.effect(s, "store", f"{base}[]", (idx[0] if idx else Top(), v), (), t)
            # in-place update of a tracked dict
            bv = self.lookup_path(t.value, s)
            if isinstance(bv, DictV) and idx and isinstance(idx[0], Const):
                items = tuple((k, val) for k, val in bv.items if k != idx[0]) + ((idx[0], v),)
                self.store_path(t.value, DictV(items), s)
        elif isinstance(t, ast.Starred):
            self.assign(t.value, Top("starred"), s)

    def path_of(self, e: ast.expr, s: State) -> str | None:
        if isinstance(e, ast.Name):
            return s.alias.get(e.id, e.id) if s is not None else e.id
        if isinstance(e, ast.Attribute):
            b = self.path_of(e.value, s)
            return f"{b}.{e.attr}" if b else None
        return None

    def lookup_path(self, e: ast.expr, s: State) -> AV | None:
        p = self.path_of(e, s)
        if p and p in s.env:
            return s.env[p]
        return None

    def store_path(self, e: ast.expr, v: AV, s: State) -> None:
        p = self.path_of(e, s)
        if p:
            s.env[p] = v

    def s_If(self, n, s):
        out = []
        for truth, s2 in self.cond(n.test, s):
            if s2.status != "run":
                out.append(s2)
                continue
            out.extend(self.block(n.body if truth else n.orelse, [s2]))
        return out

    def s_With(self, n, s):
        states = [s]
        for item in n.items:
            nxt = []
            for st in states:
                for v, s2 in self.eval(item.context_expr, st):
                    if item.optional_vars is not None and s2.status == "run":
                        self.assign(item.optional_vars, App("with", (v,), (), n.lineno), s2)
                    nxt.append(s2)
            states = nxt
        return self.block(n.body, states)

    def s_Try(self, n, s):
        body = self.block(n.body, [s])
        out = []
        caught_names = set()
        for h in n.handlers:
            if h.type is None:
                caught_names.add("*")
            else:
                for t in ([h.type] if not isinstance(h.type, ast.Tuple) else h.type.elts):
                    caught_names.add(norm(t))
        for st in body:
            if st.status == "raise" and (st.exc in caught_names or "*" in caught_names or "Exception" in caught_names):
                for h in n.handlers:
                    names = {"*"} if h.type is None else {norm(t) for t in
                                                         ([h.type] if not isinstance(h.type, ast.Tuple) else h.type.elts)}
                    if st.exc in names or "*" in names or "Exception" in names:
                        st.status = "run"
                        out.extend(self.block(h.body, [st]))
                        break
            elif st.status == "run":
                out.extend(self.block(n.orelse, [st]))
                # a call inside the body may raise what the handler catches: also explore the handler once,
                # from the state before the body, when the handler has effects on the tracked domain
            else:
                out.append(st)
        # handlers for exceptions raised by opaque calls: explored from the entry state
        for h in n.handlers:
            if any(isinstance(x, (ast.Return, ast.Raise, ast.Assign, ast.AugAssign)) for x in ast.walk(h)):
                s3 = s.clone()
                key = f"exc:{norm(h.type) if h.type else '*'}@{n.lineno}"
                s3.facts[key] = True
                out.extend(self.block(h.body, [s3]))
        if n.finalbody:
            out = self.block_keep_status(n.finalbody, out)
        return out

    def block_keep_status(self, stmts, states):
        res = []
        for st in states:
            saved = (st.status, st.value, st.node, st.exc)
            st.status = "run"
            for f in self.block(stmts, [st]):
                if f.status == "run":
                    f.status, f.value, f.node, f.exc = saved
                res.append(f)
        return res

    def s_Match(self, n, s):
        out = []
        for subj, s1 in self.eval(n.subject, s):
            pending = [s1]
            for case in n.cases:
                nxt_pending = []
                for st in pending:
                    for truth, s2 in self.match_pattern(case.pattern, subj, st, n):
                        if s2.status != "run":
                            out.append(s2)
                        elif truth:
                            if case.guard is not None:
                                for g, s3 in self.cond(case.guard, s2):
                                    if g:
                                        out.extend(self.block(case.body, [s3]))
                                    else:
                                        nxt_pending.append(s3)
                            else:
                                out.extend(self.block(case.body, [s2]))
                        else:
                            nxt_pending.append(s2)
                pending = nxt_pending
            out.extend(pending)
        return out

    def match_pattern(self, p: ast.pattern, subj: AV, s: State, n) -> list[tuple[bool, State]]:
        if isinstance(p, ast.MatchAs) and p.pattern is None:
            if p.name:
                s.env[p.name] = subj
            return [(True, s)]
        if isinstance(p, ast.MatchValue):
            res = []
            for v, s2 in self.eval(p.value, s):
                res.extend(self.decide_eq(subj, v, s2, f"{self.vkey(subj)}=={self.vkey(v)}"))
            return res
        if isinstance(p, ast.MatchSingleton):
            return self.decide_eq(subj, Const(p.value), s, f"{self.vkey(subj)}=={p.value!r}")
        if isinstance(p, ast.MatchOr):
            res = []
            pending = [s]
            for sub in p.patterns:
                nxt = []
                for st in pending:
                    for truth, s2 in self.match_pattern(sub, subj, st, n):
                        if truth:
                            res.append((True, s2))
                        else:
                            nxt.append(s2)
                pending = nxt
            res.extend((False, st) for st in pending)
            return res
        if isinstance(p, ast.MatchClass):
            cname = norm(p.cls).split(".")[-1]
            return self.decide_isinstance(subj, [cname], s)
        return self.fork(f"match:{norm(p)}:{self.vkey(subj)}", s)

    def s_For(self, n, s):
        out: list[State] = []
        for it, s1 in self.eval(n.iter, s):
            if s1.status != "run":
                out.append(s1)
                continue
            out.extend(self.loop(n, it, s1))
        return out

    def loop(self, n: ast.For, it: AV, s: State) -> list[State]:
        self.loops.setdefault(id(n), []).append((it, self.elem_of(it, n), s.clone()))
        # enumerate() over a closed collection is a closed collection of (index, item) pairs
        if isinstance(it, App) and it.func == "enumerate" and it.args and isinstance(it.args[0], ListV) and not it.args[0].open and len(it.args[0].items) <= 12:
            start = it.args[1].v if len(it.args) > 1 and isinstance(it.args[1], Const) and isinstance(it.args[1].v, int) else 0
            it = ListV(tuple(ListV((Const(start + i), x), kind="tuple") for i, x in enumerate(it.args[0].items)))
        # range() over decided bounds is a closed collection of integers
        if isinstance(it, App) and it.func == "range" and 1 <= len(it.args) <= 3 and not it.kwargs and all(isinstance(a, Const) and isinstance(a.v, int) and not isinstance(a.v, bool) for a in it.args):
            try:
                rng = range(*[a.v for a in it.args])
            except ValueError:
                rng = None
            if rng is not None and len(rng) <= 12:
                it = ListV(tuple(Const(i) for i in rng))
        # closed literal collections are unrolled
        if isinstance(it, ListV) and not it.open and len(it.items) <= 12:
            states = [s]
            for item in it.items:
                nxt = []
                for st in states:
                    if st.status != "run":
                        nxt.append(st)
                        continue
                    self.assign(n.target, item, st)
                    for f in self.block(n.body, [st]):
                        if f.status == "continue":
                            f.status = "run"
                        nxt.append(f)
                states = nxt
            res = []
            for st in states:
                if st.status == "break":
                    st.status = "run"
                    res.append(st)
                elif st.status == "run":
                    res.extend(self.block(n.orelse, [st]))
                else:
                    res.append(st)
            return res
        return self.generic_loop(n, n.target, self.elem_of(it, n), n.body, n.orelse, s)

    def elem_of(self, it: AV, n: ast.AST) -> AV:
        if isinstance(it, ListV):
            return join(it.items) if it.items else Top("elem")
        if isinstance(it, Sym):
            return Sym(f"{it.path}[*]")
        if isinstance(it, App):
            if it.func == "enumerate" and it.args:
                return ListV((Sym(f"idx@{it.line}"), self.elem_of(it.args[0], n)), kind="tuple")
            if it.func in ("list", "reversed", "tuple", "set") and it.args:
                return self.elem_of(it.args[0], n)
            if it.func.endswith(".values") and not it.args:
                return App("elem", (it,), (), it.line)
            if it.func in ("zip", "zip_longest"):
                return ListV(tuple(self.elem_of(a, n) for a in it.args), kind="tuple")
            return App("elem", (it,), (), it.line)
        if isinstance(it, Alt):
            return join(self.elem_of(a, n) for a in it.alts)
        return Top("elem")

    def assigned_names(self, stmts: list[ast.stmt]) -> set[str]:
        names: set[str] = set()
        for st in stmts:
            for x in ast.walk(st):
                if isinstance(x, (ast.Assign, ast.AugAssign, ast.AnnAssign)):
                    ts = x.targets if isinstance(x, ast.Assign) else [x.target]
                    for t in ts:
                        for y in ast.walk(t):
                            if isinstance(y, ast.Name):
                                names.add(y.id)
                            elif isinstance(y, ast.Attribute):
                                p = self.path_of(y, None)  # type: ignore[arg-type]
                                if p:
                                    names.add(p)
                elif isinstance(x, ast.For):
                    for y in ast.walk(x.target):
                        if isinstance(y, ast.Name):
                            names.add(y.id)
                elif isinstance(x, ast.Call) and isinstance(x.func, ast.Attribute) and x.func.attr in MUTATORS:
                    p = self.path_of(x.func.value, None)  # type: ignore[arg-type]
                    if p:
                        names.add(p)
        return names

    def generic_loop(self, n, target, elem, body, orelse, s: State) -> list[State]:
        """Peel the first iteration, then run one generic iteration on the joined state; summarise accumulators."""
        exits: list[State] = []  # return / raise inside the loop
        mod = self.assigned_names(body)
        tag = f"loop@{n.lineno}"

        def run_iter(st: State, which: str) -> list[State]:
            st.facts[f"{tag}:{which}"] = True
            if target is not None:
                self.assign(target, elem, st)
            return self.block(body, [st])

        # zero iterations
        s_zero = s.clone()
        s_zero.facts[f"{tag}:iter"] = False
        res_zero = self.block(orelse, [s_zero]) if orelse else [s_zero]
        # first iteration
        first = run_iter(s.clone(), "first")
        cont: list[State] = []
        after: list[State] = []  # states after the loop (break or exhausted)
        for f in first:
            if f.status in ("return", "raise"):
                exits.append(f)
            elif f.status == "break":
                f.status = "run"
                after.append(f)
            else:
                f.status = "run"
                cont.append(f)
        if cont:
            # generic later iteration from the join of all continuing states
            j = self.join_states(s, cont, mod, widen=True)
            later = run_iter(j.clone(), "later")
            cont2 = []
            for f in later:
                if f.status in ("return", "raise"):
                    exits.append(f)
                elif f.status == "break":
                    f.status = "run"
                    after.append(f)
                else:
                    f.status = "run"
                    cont2.append(f)
            # the loop may end after the first iteration (each continuing state) or after later iterations
            fin = self.join_states(s, cont + cont2, mod, widen=True, summarise=True)
            fin.facts[f"{tag}:iter"] = True
            after.extend(self.block(orelse, [fin]) if orelse else [fin])
        return res_zero + after + exits

    def join_states(self, base: State, states: list[State], mod: set[str], widen: bool, summarise: bool = False) -> State:
        j = base.clone()
        # facts: keep those common to all
        common = None
        for st in states:
            items = set(st.facts.items())
            common = items if common is None else (common & items)
        j.facts = {k: v for k, v in (states[0].facts.items() if states else []) if (k, v) in (common or set())}
        j.effects = list(base.effects)
        seen = {id(e) for e in j.effects}
        for st in states:
            for e in st.effects:
                if id(e) not in seen:
                    seen.add(id(e))
                    j.effects.append(e)
        j.effects.sort(key=lambda e: e.seq)
        for name in mod:
            vals = [st.env.get(name, Top("unbound")) for st in states]
            b = base.env.get(name)
            j.env[name] = self.summarise(b, vals)
        j.eq = {k: v for k, v in base.eq.items() if all(st.eq.get(k) == v for st in states)}
        j.neq = {}
        return j

    def summarise(self, before: AV | None, vals: list[AV]) -> AV:
        """Loop summary of one variable: accumulators become open collections / repetitions."""
        uniq = []
        for v in vals:
            if v not in uniq:
                uniq.append(v)
        if before is not None and all(v == before for v in uniq):
            return before
        if isinstance(before, ListV) or (before is None and all(isinstance(v, ListV) for v in uniq)):
            b_items = before.items if isinstance(before, ListV) else ()
            kind = before.kind if isinstance(before, ListV) else "list"
            new_items: list[AV] = []
            ok = True
            for v in uniq:
                if isinstance(v, ListV) and v.kind == kind:
                    for it in v.items:
                        if it not in b_items and it not in new_items:
                            new_items.append(it)
                else:
                    ok = False
            if ok:
                if isinstance(before, ListV) and before.open:
                    return ListV(tuple(list(b_items) + new_items), True, kind)
                if not b_items:
                    return ListV(tuple(new_items), True, kind)
                return ListV(tuple(list(b_items) + new_items), True, kind)
        if before is not None and isinstance(before, (StrT, Const)) and (not isinstance(before, Const) or isinstance(before.v, str)):
            # string accumulation: before + Rep(...)
            bparts = before.parts if isinstance(before, StrT) else ((before.v,) if before.v else ())
            tails = []
            ok = True
            for v in uniq:
                if v == before:
                    continue
                parts = v.parts if isinstance(v, StrT) else ((v.v,) if isinstance(v, Const) and isinstance(v.v, str) else None)
                if parts is None or tuple(parts[: len(bparts)]) != tuple(bparts):
                    ok = False
                    break
                tail = tuple(parts[len(bparts):])
                # strip an inner Rep produced by the previous summarisation
                tail = tuple(p for p in tail if not (isinstance(p, Rep) and p.sep == Const("")))
                if tail:
                    tails.append(StrT(tail))
            if ok:
                old = [p for p in bparts if isinstance(p, Rep) and p.sep == Const("")]
                alts = list(old[0].alts) if old else []
                for t in tails:
                    if t not in alts:
                        alts.append(t)
                base_parts = tuple(p for p in bparts if not (isinstance(p, Rep) and p.sep == Const("")))
                if not alts:
                    return before
                return StrT(base_parts + (Rep(Const(""), tuple(alts)),))
        allv = ([before] if before is not None else []) + uniq
        if all(isinstance(v, Const) for v in allv) and len(set(allv)) <= 4:
            return join(allv)
        return join(allv) if len(set(allv)) <= 6 else Top("loop")

    def s_While(self, n, s):
        out = []
        for truth, s1 in self.cond(n.test, s):
            if s1.status != "run":
                out.append(s1)
            elif not truth:
                out.extend(self.block(n.orelse, [s1]))
            else:
                for f in self.block(n.body, [s1]):
                    if f.status in ("break", "continue"):
                        f.status = "run"
                    if f.status == "run":
                        f.facts[f"while@{n.lineno}:exit"] = True
                        mod = self.assigned_names(n.body)
                        for name in mod:
                            if name in f.env and f.env.get(name) != s1.env.get(name):
                                f.env[name] = join([f.env[name], s1.env.get(name, Top())]) if name in s1.env else Top("while")
                    out.append(f)
        return out

    # ------------------------------------------------------------------ conditions
    def fork(self, key: str, s: State) -> list[tuple[bool, State]]:
        if key in s.facts:
            return [(s.facts[key], s)]
        if self.on_unknown_cond is not None:
            r = self.on_unknown_cond(key, s)
            if r is not None:
                s.facts[key] = r
                return [(r, s)]
        s2 = s.clone()
        s.facts[key] = True
        s2.facts[key] = False
        return [(True, s), (False, s2)]

    def vkey(self, v: AV) -> str:
        return repr(v)

    def truth(self, v: AV) -> bool | None:
        if isinstance(v, Const):
            return bool(v.v)
        if isinstance(v, ListV):
            if not v.open:
                return bool(v.items)
            if v.nonempty:
                return True
            return None
        if isinstance(v, DictV):
            return bool(v.items)
        if isinstance(v, StrT):
            if any(isinstance(p, str) and p for p in v.parts):
                return True
            return None
        if isinstance(v, (Obj, EnumM, FuncRef)):
            return True
        if isinstance(v, Alt):
            ts = {self.truth(a) for a in v.alts}
            if len(ts) == 1:
                return next(iter(ts))
        return None

    def cond(self, e: ast.expr, s: State) -> list[tuple[bool, State]]:
        """Evaluate ``e`` as a condition: list of (truth, state)."""
        if isinstance(e, ast.BoolOp):
            is_and = isinstance(e.op, ast.And)
            pending = [s]
            res: list[tuple[bool, State]] = []
            for i, sub in enumerate(e.values):
                nxt = []
                last = i == len(e.values) - 1
                for st in pending:
                    for truth, s2 in self.cond(sub, st):
                        if s2.status != "run":
                            res.append((False, s2))
                        elif is_and and not truth:
                            res.append((False, s2))
                        elif (not is_and) and truth:
                            res.append((True, s2))
                        elif last:
                            res.append((truth, s2))
                        else:
                            nxt.append(s2)
                pending = nxt
            return res
        if isinstance(e, ast.UnaryOp) and isinstance(e.op, ast.Not):
            return [(not t if s2.status == "run" else t, s2) for t, s2 in self.cond(e.operand, s)]
        if isinstance(e, ast.Compare) and len(e.ops) == 1:
            return self.compare(e, s)
        if isinstance(e, ast.Compare):
            # chained: a op b op c  ==  (a op b) and (b op c)
            parts = []
            left = e.left
            for op, right in zip(e.ops, e.comparators):
                parts.append(ast.copy_location(ast.Compare(left=left, ops=[op], comparators=[right]), e))
                left = right
            return self.cond(ast.copy_location(ast.BoolOp(op=ast.And(), values=parts), e), s)
        if isinstance(e, ast.Call):
            fn = e.func
            if isinstance(fn, ast.Name) and fn.id == "isinstance" and len(e.args) == 2:
                out = []
                for v, s2 in self.eval(e.args[0], s):
                    out.extend(self.decide_isinstance(v, self.class_names(e.args[1]), s2))
                return out
            if isinstance(fn, ast.Name) and fn.id == "hasattr" and len(e.args) == 2 and isinstance(e.args[1], ast.Constant):
                out = []
                for v, s2 in self.eval(e.args[0], s):
                    out.extend(self.decide_hasattr(v, e.args[1].value, s2))
                return out
            if isinstance(fn, ast.Name) and fn.id in ("any", "all") and e.args:
                out = []
                for v, s2 in self.eval(e.args[0], s):
                    ts = [self.truth(x) for x in v.items] if isinstance(v, ListV) and not v.open else [None]
                    if all(t is not None for t in ts):
                        # a closed list of decided values: the result is decided too
                        out.append(((any(ts) if fn.id == "any" else all(ts)), s2))
                    else:
                        out.extend(self.fork(f"{fn.id}({self.vkey(v)})", s2))
                return out
        out = []
        for v, s2 in self.eval(e, s):
            if s2.status != "run":
                out.append((False, s2))
                continue
            t = self.truth(v)
            if t is not None:
                out.append((t, s2))
            else:
                for truth, s3 in self.fork(f"truthy:{self.vkey(v)}", s2):
                    self.refine_truth(v, truth, s3)
                    out.append((truth, s3))
        return out

    def refine_truth(self, v: AV, truth: bool, s: State) -> None:
        # remember (non-)emptiness of tracked collections bound to variables
        for name, val in list(s.env.items()):
            if val is v and isinstance(v, ListV) and v.open:
                s.env[name] = ListV(v.items, True, v.kind, True, v.tags) if truth else ListV((), False, v.kind, False, v.tags)
        if isinstance(v, StrT) and not truth:
            # a falsy string is the empty string
            for name, val in list(s.env.items()):
                if val is v:
                    s.env[name] = Const("")

    def class_names(self, e: ast.expr) -> list[str]:
        if isinstance(e, ast.Tuple):
            return [c for x in e.elts for c in self.class_names(x)]
        if isinstance(e, ast.BinOp) and isinstance(e.op, ast.BitOr):
            return self.class_names(e.left) + self.class_names(e.right)
        if isinstance(e, ast.Attribute):
            return [e.attr]
        if isinstance(e, ast.Name):
            return [e.id]
        if isinstance(e, ast.Constant) and e.value is None:
            return ["NoneType"]
        return [norm(e)]

    def decide_isinstance(self, v: AV, classes: list[str], s: State) -> list[tuple[bool, State]]:
        if isinstance(v, Alt):
            res: list[tuple[bool, State]] = []
            # decide per member; if all agree no fork
            verdicts = []
            for a in v.alts:
                r = self._isinstance_static(a, classes)
                verdicts.append(r)
            if all(r is True for r in verdicts):
                return [(True, s)]
            if all(r is False for r in verdicts):
                return [(False, s)]
            return self.fork(f"isinstance({self.vkey(v)},{'|'.join(sorted(classes))})", s)
        r = self._isinstance_static(v, classes)
        if r is not None:
            return [(r, s)]
        key = f"isinstance({self.vkey(v)},{'|'.join(sorted(classes))})"
        if key in s.facts:
            return [(s.facts[key], s)]
        # consistency with earlier isinstance facts about the same value through the hierarchy
        prefix = f"isinstance({self.vkey(v)},"
        for k, val in s.facts.items():
            if k.startswith(prefix) and val:
                earlier = k[len(prefix):-1].split("|")
                # v is one of `earlier`; if every earlier class is a subclass of some queried class -> True
                subs = [any(self.h.issub(c, q) for q in classes) for c in earlier]
                if all(x is True for x in subs):
                    return [(True, s)]
                # disjoint: no known class is below both
                if all(self.h.supers.get(c) is not None for c in earlier + classes):
                    common = set()
                    for c in earlier:
                        for q in classes:
                            common |= self.h.subclasses(c) & self.h.subclasses(q)
                    if not common:
                        return [(False, s)]
        return self.fork(key, s)

    def _isinstance_static(self, v: AV, classes: list[str]) -> bool | None:
        if isinstance(v, Const):
            sup = PY_BUILTIN_SUPERS.get(pyclass_of(v.v), {pyclass_of(v.v), "object"})
            return any(c in sup for c in classes)
        if isinstance(v, (StrT,)):
            return "str" in classes or "object" in classes
        if isinstance(v, ListV):
            return v.kind in classes or "object" in classes
        if isinstance(v, DictV):
            return "dict" in classes
        if isinstance(v, Obj):
            rs = [self.h.issub(v.cls, c) for c in classes]
            if any(r is True for r in rs):
                return True
            if all(r is False for r in rs):
                return False
            if v.cls in classes:
                return True
            return None
        if isinstance(v, EnumM):
            return v.enum in classes
        if isinstance(v, Sym) and v.cls is not None:
            rs = [self.h.issub(v.cls, c) for c in classes]
            if any(r is True for r in rs):
                return True
            if all(r is False for r in rs):
                return False
            if v.cls in PY_BUILTIN_SUPERS:
                return any(c in PY_BUILTIN_SUPERS[v.cls] for c in classes)
            return None
        return None

    def decide_hasattr(self, v: AV, attr: str, s: State) -> list[tuple[bool, State]]:
        if isinstance(v, Sym) and v.cls is not None:
            r = self.h.hasattr(v.cls, attr)
            if r is not None:
                return [(r, s)]
        if isinstance(v, Obj):
            if v.get(attr) is not None:
                return [(True, s)]
            r = self.h.hasattr(v.cls, attr)
            if r is not None:
                return [(r, s)]
        if isinstance(v, Const) and v.v is None:
            return [(False, s)]
        return self.fork(f"hasattr({self.vkey(v)},{attr})", s)

    def compare(self, e: ast.Compare, s: State) -> list[tuple[bool, State]]:
        op = e.ops[0]
        out: list[tuple[bool, State]] = []
        for lv, s1 in self.eval(e.left, s):
            for rv, s2 in self.eval(e.comparators[0], s1):
                if s2.status != "run":
                    out.append((False, s2))
                    continue
                if isinstance(op, (ast.Eq, ast.Is)):
                    out.extend(self.decide_eq(lv, rv, s2, None, is_=isinstance(op, ast.Is)))
                elif isinstance(op, (ast.NotEq, ast.IsNot)):
                    out.extend((not t, st) for t, st in self.decide_eq(lv, rv, s2, None, is_=isinstance(op, ast.IsNot)))
                elif isinstance(op, ast.In):
                    out.extend(self.decide_in(lv, rv, s2))
                elif isinstance(op, ast.NotIn):
                    out.extend((not t, st) for t, st in self.decide_in(lv, rv, s2))
                else:
                    out.extend(self.decide_order(lv, rv, op, s2))
        return out

    def decide_order(self, lv: AV, rv: AV, op, s: State) -> list[tuple[bool, State]]:
        if isinstance(lv, Const) and isinstance(rv, Const):
            try:
                r = {ast.Lt: lambda a, b: a < b, ast.LtE: lambda a, b: a <= b, ast.Gt: lambda a, b: a > b,
                     ast.GtE: lambda a, b: a >= b}[type(op)](lv.v, rv.v)
                return [(bool(r), s)]
            except Exception:  # noqa: BLE001
                pass
        sym = {ast.Lt: "<", ast.LtE: "<=", ast.Gt: ">", ast.GtE: ">="}.get(type(op), "?")
        return self.fork(f"{self.vkey(lv)}{sym}{self.vkey(rv)}", s)

    def canon(self, v: AV, s: State) -> AV:
        if isinstance(v, (Sym, App)):
            c = s.eq.get(repr(v))
            if c is not None:
                return c
        return v

    def decide_eq(self, lv: AV, rv: AV, s: State, key: str | None, is_: bool = False) -> list[tuple[bool, State]]:
        lv, rv = self.canon(lv, s), self.canon(rv, s)
        if isinstance(lv, Alt) or isinstance(rv, Alt):
            la = lv.alts if isinstance(lv, Alt) else [lv]
            ra = rv.alts if isinstance(rv, Alt) else [rv]
            verdicts = {self._eq_static(a, b, s) for a in la for b in ra}
            if verdicts == {True}:
                return [(True, s)]
            if verdicts == {False}:
                return [(False, s)]
            return self.fork(key or f"{self.vkey(lv)}=={self.vkey(rv)}", s)
        r = self._eq_static(lv, rv, s)
        if r is not None:
            return [(r, s)]
        a, b = sorted([self.vkey(lv), self.vkey(rv)])
        k = key or f"{a}=={b}"
        res = self.fork(k, s)
        for truth, st in res:
            for x, y in ((lv, rv), (rv, lv)):
                if isinstance(x, (Sym, App)) and isinstance(y, (Const, EnumM)):
                    if truth:
                        st.eq[repr(x)] = y
                    else:
                        st.neq.setdefault(repr(x), set()).add(y)
        return res

    def _eq_static(self, lv: AV, rv: AV, s: State) -> bool | None:
        if isinstance(lv, Const) and isinstance(rv, Const):
            return lv.v == rv.v and (type(lv.v) is type(rv.v) or not isinstance(lv.v, bool) and not isinstance(rv.v, bool))
        if isinstance(lv, EnumM) and isinstance(rv, EnumM):
            return lv == rv
        for x, y in ((lv, rv), (rv, lv)):
            if isinstance(x, (Sym, App)) and isinstance(y, (Const, EnumM)) and y in s.neq.get(repr(x), ()):
                return False
            if isinstance(x, Const) and x.v is None and isinstance(y, (Obj, StrT, ListV, DictV, EnumM)):
                return False
            if isinstance(x, Sym) and x.cls is not None and isinstance(y, Const) and y.v is None:
                return x.cls == "NoneType"
            if isinstance(x, (Obj, EnumM)) and isinstance(y, Const):
                return False
            if isinstance(x, StrT) and isinstance(y, Const) and not isinstance(y.v, str):
                return False
        if lv == rv and isinstance(lv, (Sym, App, StrT)):
            return True
        if isinstance(lv, Obj) and isinstance(rv, Obj):
            def ground(o):
                return all(isinstance(x, (Obj, Const, EnumM, ListV)) for x in walk_av(o))
            if lv.cls != rv.cls:
                return False
            if ground(lv) and ground(rv):
                return lv == rv
        if isinstance(lv, ListV) and isinstance(rv, ListV) and not lv.open and not rv.open:
            if len(lv.items) != len(rv.items):
                return False
            rs = [self._eq_static(a, b, s) for a, b in zip(lv.items, rv.items)]
            if all(r is True for r in rs):
                return True
            if any(r is False for r in rs):
                return False
        return None

    def decide_in(self, lv: AV, rv: AV, s: State) -> list[tuple[bool, State]]:
        lv = self.canon(lv, s)
        if isinstance(rv, ListV) and not rv.open:
            if isinstance(lv, Alt):
                vs = {tuple(self._eq_static(a, it, s) for it in rv.items) for a in lv.alts}
            rs = [self._eq_static(lv, it, s) for it in rv.items] if not isinstance(lv, Alt) else None
            if rs is not None:
                if any(r is True for r in rs):
                    return [(True, s)]
                if all(r is False for r in rs):
                    return [(False, s)]
            items = sorted(self.vkey(i) for i in rv.items)
            res = self.fork(f"{self.vkey(lv)} in {{{','.join(items)}}}", s)
            for truth, st in res:
                if not truth and isinstance(lv, (Sym, App)):
                    for it in rv.items:
                        if isinstance(it, (Const, EnumM)):
                            st.neq.setdefault(repr(lv), set()).add(it)
                elif truth and isinstance(lv, (Sym, App)) and rv.items and all(isinstance(i, (Const, EnumM)) for i in rv.items):
                    st.eq[repr(lv)] = rv.items[0] if len(rv.items) == 1 else Alt(frozenset(rv.items))
            return res
        if isinstance(rv, DictV):
            keys = [k for k, _ in rv.items]
            rs = [self._eq_static(lv, k, s) for k in keys]
            if any(r is True for r in rs):
                return [(True, s)]
            if all(r is False for r in rs):
                return [(False, s)]
        if isinstance(lv, Const) and isinstance(rv, Const) and isinstance(rv.v, (str, tuple)):
            try:
                return [(lv.v in rv.v, s)]
            except TypeError:
                pass
        return self.fork(f"{self.vkey(lv)} in {self.vkey(rv)}", s)

    # ------------------------------------------------------------------ expressions
    def eval(self, e: ast.expr, s: State) -> list[tuple[AV, State]]:
        m = getattr(self, "e_" + type(e).__name__, None)
        if m is None:
            return [(Top(type(e).__name__), s)]
        return [(self.canon(v, st), st) for v, st in m(e, s)]

    def e_Constant(self, e, s):
        return [(Const(e.value), s)]

    def e_Name(self, e, s):
        if e.id in s.alias and s.alias[e.id] in s.env:
            return [(s.env[s.alias[e.id]], s)]  # the object the local is bound to, with the mutations made through either name
        if e.id in s.env:
            return [(s.env[e.id], s)]
        if e.id in ("True", "False", "None"):
            return [(Const({"True": True, "False": False, "None": None}[e.id]), s)]
        if e.id in self.enums or e.id in self.known_classes:
            return [(FuncRef(e.id), s)]
        return [(FuncRef(e.id), s)]

    def e_Attribute(self, e, s):
        # enum members / module attribute chains
        p = self.path_of(e, s)
        if p and p in s.env:
            return [(s.env[p], s)]
        if isinstance(e.value, ast.Name) and e.value.id in self.enums and e.attr in self.enums[e.value.id]:
            return [(EnumM(e.value.id, e.attr), s)]
        if isinstance(e.value, ast.Attribute) and e.value.attr in self.enums and e.attr in self.enums[e.value.attr]:
            return [(EnumM(e.value.attr, e.attr), s)]
        out = []
        for v, s2 in self.eval(e.value, s):
            out.append((self.getattr(v, e.attr, s2, e), s2))
        return out

    def getattr(self, v: AV, attr: str, s: State, node=None) -> AV:
        if isinstance(v, Obj):
            f = v.get(attr)
            if f is not None:
                return f
            if attr == "__class__":
                return App("type", (v,), ())
            return Sym(f"{v.cls}().{attr}")
        if isinstance(v, Sym):
            if attr == "__class__":
                return App("type", (v,), ())
            return Sym(f"{v.path}.{attr}")
        if isinstance(v, EnumM):
            if attr == "name":
                return Const(v.member)
            return App(f".{attr}", (v,), ())
        if isinstance(v, App):
            if v.func == "type" and attr == "__name__" and v.args:
                a0 = v.args[0]
                if isinstance(a0, Sym) and a0.cls:
                    return Const(a0.cls.split(".")[-1])
                if isinstance(a0, Obj):
                    return Const(a0.cls.split(".")[-1])
                if isinstance(a0, FuncRef):
                    return Const(a0.name)
            return App(f".{attr}", (v,), (), getattr(node, "lineno", 0))
        if isinstance(v, FuncRef):
            if attr == "__name__":
                return Const(v.name)
            if v.name in self.enums and attr in self.enums[v.name]:
                return EnumM(v.name, attr)
            return FuncRef(f"{v.name}.{attr}")
        if isinstance(v, Alt):
            return join(self.getattr(a, attr, s, node) for a in v.alts)
        if isinstance(v, Const) and v.v is None:
            return Top("None." + attr)
        return Top("attr")

    def e_Subscript(self, e, s):
        out = []
        for v, s1 in self.eval(e.value, s):
            if isinstance(e.slice, ast.Slice):
                out.append((self.slice(v, e.slice, s1), s1))
                continue
            for i, s2 in self.eval(e.slice, s1):
                val, st = self.subscript(v, i, s2, e)
                out.append((val, st))
        return out

    def slice(self, v: AV, sl: ast.Slice, s: State) -> AV:
        def c(x):
            if x is None:
                return None
            r = self.eval(x, s)
            if r and isinstance(r[0][0], Const) and isinstance(r[0][0].v, int):
                return r[0][0].v
            return "?"
        lo, hi = c(sl.lower), c(sl.upper)
        if "?" not in (lo, hi):
            if isinstance(v, Alt) and all(isinstance(a, Const) and isinstance(a.v, str) for a in v.alts):
                return join(Const(a.v[lo:hi]) for a in v.alts)
            if isinstance(v, Const) and isinstance(v.v, str):
                return Const(v.v[lo:hi])
            if isinstance(v, ListV) and not v.open:
                return ListV(v.items[lo:hi], False, v.kind)
        return App("slice", (v, Const(lo), Const(hi)), ())

    def subscript(self, v: AV, i: AV, s: State, node) -> tuple[AV, State]:
        i = self.canon(i, s)
        if isinstance(v, DictV):
            if isinstance(i, (Const, EnumM)):
                for k, val in v.items:
                    if k == i:
                        return val, s
                if all(isinstance(k, (Const, EnumM)) for k, _ in v.items):
                    s.status, s.node, s.exc, s.value = "raise", node, "KeyError", Const("KeyError")
                    return Top(), s
            self.effect(s, "dictlookup", "dict-literal", (v, i), (), node)
            return join(val for _, val in v.items), s
        if isinstance(v, ListV) and isinstance(i, Const) and isinstance(i.v, int) and not v.open:
            try:
                return v.items[i.v], s
            except IndexError:
                s.status, s.node, s.exc, s.value = "raise", node, "IndexError", Const("IndexError")
                return Top(), s
        if isinstance(v, Alt) and all(isinstance(a, Const) and isinstance(a.v, (str, tuple)) for a in v.alts) and isinstance(i, Const) and isinstance(i.v, int):
            try:
                return join(Const(a.v[i.v]) for a in v.alts), s
            except IndexError:
                pass
        if isinstance(v, Sym):
            k = repr(i.v) if isinstance(i, Const) else self.vkey(i)
            return Sym(f"{v.path}[{k}]"), s
        if isinstance(v, Const) and isinstance(v.v, (str, tuple)) and isinstance(i, Const) and isinstance(i.v, int):
            try:
                return Const(v.v[i.v]), s
            except IndexError:
                pass
        return App("[]", (v, i), (), getattr(node, "lineno", 0)), s

    def e_JoinedStr(self, e, s):
        states: list[tuple[list, State]] = [([], s)]
        for part in e.values:
            nxt = []
            for parts, st in states:
                if isinstance(part, ast.Constant):
                    nxt.append((parts + [part.value], st))
                else:
                    for v, s2 in self.eval(part.value, st):
                        nxt.append((parts + [v], s2))
            states = nxt
        return [(mkstr(parts), st) for parts, st in states]

    def e_FormattedValue(self, e, s):
        return self.eval(e.value, s)

    def e_Tuple(self, e, s):
        return self._seq(e.elts, s, "tuple")

    def e_List(self, e, s):
        return self._seq(e.elts, s, "list")

    def e_Set(self, e, s):
        return self._seq(e.elts, s, "set")

    def _seq(self, elts, s, kind):
        states: list[tuple[list, State]] = [([], s)]
        for el in elts:
            nxt = []
            for items, st in states:
                if isinstance(el, ast.Starred):
                    for v, s2 in self.eval(el.value, st):
                        if isinstance(v, ListV) and not v.open:
                            nxt.append((items + list(v.items), s2))
                        else:
                            nxt.append((items + [App("*", (v,), ())], s2))
                else:
                    for v, s2 in self.eval(el, st):
                        nxt.append((items + [v], s2))
            states = nxt
        return [(ListV(tuple(items), False, kind), st) for items, st in states]

    def e_Dict(self, e, s):
        states: list[tuple[list, State]] = [([], s)]
        for k, v in zip(e.keys, e.values):
            nxt = []
            for items, st in states:
                if k is None:
                    nxt.append((items, st))
                    continue
                for kv, s1 in self.eval(k, st):
                    for vv, s2 in self.eval(v, s1):
                        nxt.append((items + [(kv, vv)], s2))
            states = nxt
        return [(DictV(tuple(items)), st) for items, st in states]

    def e_BoolOp(self, e, s):
        # value semantics: `a or b`
        if isinstance(e.op, ast.Or):
            out = []
            pending = [s]
            for i, sub in enumerate(e.values):
                nxt = []
                last = i == len(e.values) - 1
                for st in pending:
                    for v, s2 in self.eval(sub, st):
                        t = self.truth(v)
                        if last:
                            out.append((v, s2))
                        elif t is True:
                            out.append((v, s2))
                        elif t is False:
                            nxt.append(s2)
                        else:
                            for truth, s3 in self.fork(f"truthy:{self.vkey(v)}", s2):
                                if truth:
                                    out.append((v, s3))
                                else:
                                    nxt.append(s3)
                pending = nxt
            return out
        out = []
        for truth, s2 in self.cond(e, s):
            out.append((Const(truth), s2))
        return out

    def e_UnaryOp(self, e, s):
        if isinstance(e.op, ast.Not):
            return [(Const(t), s2) for t, s2 in self.cond(e, s)]
        out = []
        for v, s2 in self.eval(e.operand, s):
            if isinstance(v, Const) and isinstance(v.v, (int, float)) and isinstance(e.op, ast.USub):
                out.append((Const(-v.v), s2))
            else:
                out.append((App(type(e.op).__name__, (v,), ()), s2))
        return out

    def e_Compare(self, e, s):
        return [(Const(t), s2) for t, s2 in self.cond(e, s)]

    def e_IfExp(self, e, s):
        out = []
        for truth, s2 in self.cond(e.test, s):
            out.extend(self.eval(e.body if truth else e.orelse, s2))
        return out

    def e_BinOp(self, e, s):
        out = []
        for lv, s1 in self.eval(e.left, s):
            for rv, s2 in self.eval(e.right, s1):
                out.append((self.binop(lv, rv, e.op, e), s2))
        return out

    def binop(self, lv: AV, rv: AV, op, node) -> AV:
        if isinstance(op, ast.Add):
            if isinstance(lv, Const) and isinstance(rv, Const):
                try:
                    return Const(lv.v + rv.v)
                except TypeError:
                    return Top("add")

            stringish = self.stringish
            sl, sr = stringish(lv), stringish(rv)
            if (sl is True and sr is not False) or (sr is True and sl is not False):
                return mkstr([lv, rv])
            if isinstance(lv, ListV) and isinstance(rv, ListV) and lv.kind == rv.kind:
                if not lv.open and not rv.open:
                    return ListV(lv.items + rv.items, False, lv.kind)
                return ListV(tuple(dict.fromkeys(lv.items + rv.items)), True, lv.kind, lv.nonempty or rv.nonempty)
        if isinstance(op, (ast.BitAnd, ast.BitOr)) and isinstance(lv, ListV) and isinstance(rv, ListV) and not lv.open and not rv.open \
                and all(isinstance(x, (Const, EnumM)) for x in lv.items + rv.items):
            if isinstance(op, ast.BitAnd):
                return ListV(tuple(x for x in lv.items if x in set(rv.items)), False, "set")
            return ListV(tuple(dict.fromkeys(lv.items + rv.items)), False, "set")
        if isinstance(lv, Const) and isinstance(rv, Const) and isinstance(lv.v, (int, float)) and isinstance(rv.v, (int, float)):
            try:
                if isinstance(op, ast.Sub):
                    return Const(lv.v - rv.v)
                if isinstance(op, ast.Mult):
                    return Const(lv.v * rv.v)
            except Exception:  # noqa: BLE001
                pass
        return App(type(op).__name__, (lv, rv), (), getattr(node, "lineno", 0))

    def stringish(self, v: AV) -> bool | None:
        """True: certainly a str; None: could be; False: certainly not."""
        if isinstance(v, Const):
            return isinstance(v.v, str)
        if isinstance(v, (StrT, Rep)):
            return True
        if isinstance(v, Alt):
            rs = [self.stringish(a) for a in v.alts]
            if all(r is True for r in rs):
                return True
            if any(r is False for r in rs):
                return False
            return None
        if isinstance(v, (Sym, App)):
            return None
        return False

    def e_Lambda(self, e, s):
        return [(App("lambda", (Const(norm(e.body)),), ()), s)]

    def e_Starred(self, e, s):
        return [(App("*", (v,), ()), s2) for v, s2 in self.eval(e.value, s)]

    def e_NamedExpr(self, e, s):
        out = []
        for v, s2 in self.eval(e.value, s):
            self.assign(e.target, v, s2)
            out.append((v, s2))
        return out

    def _comp(self, e, s, kind):
        # closed iterable (single generator): unroll with the filters evaluated per element
        if len(e.generators) == 1 and not isinstance(e, ast.DictComp):
            gen = e.generators[0]
            its = self.eval(gen.iter, s)
            if len(its) == 1 and isinstance(its[0][0], ListV) and not its[0][0].open and len(its[0][0].items) <= 64:
                itv, st0 = its[0]
                states: list[tuple[list, State]] = [([], st0)]
                for item in itv.items:
                    nxt = []
                    for acc, st in states:
                        saved = {n.id: st.env.get(n.id) for n in ast.walk(gen.target) if isinstance(n, ast.Name)}
                        self.assign(gen.target, item, st)
                        branches = [(True, st)]
                        for c in gen.ifs:
                            nb = []
                            for keep, bst in branches:
                                if not keep:
                                    nb.append((False, bst))
                                else:
                                    nb.extend(self.cond(c, bst))
                            branches = nb
                        for keep, bst in branches:
                            if keep:
                                for v, vst in self.eval(e.elt, bst):
                                    nxt.append((acc + [v], vst))
                            else:
                                nxt.append((acc, bst))
                    states = nxt
                    if len(states) > 256:
                        break
                else:
                    res = []
                    for acc, st in states:
                        for n in ast.walk(gen.target):
                            if isinstance(n, ast.Name):
                                st.env.pop(n.id, None)
                        items = tuple(dict.fromkeys(acc)) if kind == "set" else tuple(acc)
                        res.append((ListV(items, False, kind), st))
                    return res
        # generic element: evaluate element expression once with comprehension targets bound to element symbols
        st = s.clone()
        conds = []
        for gen in e.generators:
            its = self.eval(gen.iter, st)
            it, st = its[0]
            self.assign(gen.target, self.elem_of(it, e), st)
            conds.extend(gen.ifs)
        # filters: both outcomes possible; effects of the element expression are recorded once
        for c in conds:
            rs = self.cond(c, st)
            # continue with the branch that keeps the element
            kept = [x for x in rs if x[0]]
            st = kept[0][1] if kept else rs[0][1]
        elt = e.elt if not isinstance(e, ast.DictComp) else e.value
        vals = self.eval(elt, st)
        items = tuple(dict.fromkeys(v for v, _ in vals))
        fin = vals[-1][1] if vals else st
        # comprehension variables do not leak
        s.effects[:] = fin.effects
        for k in list(fin.facts):
            s.facts.setdefault(k, fin.facts[k])
        return [(ListV(items, True, kind), s)]

    def e_ListComp(self, e, s):
        return self._comp(e, s, "list")

    def e_SetComp(self, e, s):
        return self._comp(e, s, "set")

    def e_GeneratorExp(self, e, s):
        return self._comp(e, s, "list")

    def e_DictComp(self, e, s):
        return [(Top("dictcomp"), s)]

    # ------------------------------------------------------------------ calls
    def effect(self, s: State, kind: str, target: str, args: tuple, kwargs: tuple, node: ast.AST) -> None:
        self.seq += 1
        s.effects.append(Effect(kind, target, args, kwargs, node, tuple(s.facts.items()), self.seq))

    def e_Call(self, e: ast.Call, s: State):
        # evaluate callee name
        fname = None
        recv: AV | None = None
        recv_states: list[tuple[AV | None, State]] = [(None, s)]
        if isinstance(e.func, ast.Name):
            fname = e.func.id
            if fname in s.env and isinstance(s.env[fname], FuncRef):
                fname = s.env[fname].name
        elif isinstance(e.func, ast.Attribute):
            p = self.path_of(e.func, s)
            fname = p
            recv_states = self.eval(e.func.value, s)
        else:
            recv_states = self.eval(e.func, s)
        out = []
        for recv, s1 in recv_states:
            # arguments left to right
            states: list[tuple[list, list, State]] = [([], [], s1)]
            for a in e.args:
                nxt = []
                for args, kws, st in states:
                    for v, s2 in self.eval(a, st):
                        nxt.append((args + [v], kws, s2))
                states = nxt
            for kw in e.keywords:
                nxt = []
                for args, kws, st in states:
                    for v, s2 in self.eval(kw.value, st):
                        nxt.append((args, kws + [(kw.arg or "**", v)], s2))
                states = nxt
            for args, kws, st in states:
                if st.status != "run":
                    out.append((Top(), st))
                    continue
                out.extend(self.call(e, fname, recv, tuple(args), tuple(kws), st))
        return out

    def call(self, e: ast.Call, fname: str | None, recv: AV | None, args: tuple, kws: tuple, s: State):
        line = e.lineno
        if fname and not kws and (fname, args) in self.summaries:
            self.effect(s, "call", fname, args, kws, e)
            return [(self.summaries[(fname, args)], s)]
        if fname and (fname, "*") in self.summaries:  # result fixed by the caller of the analysis for any arguments
            self.effect(s, "call", fname, args, kws, e)
            return [(self.summaries[(fname, "*")], s)]
        # ---- builtins with abstract semantics
        if isinstance(e.func, ast.Name):
            n = e.func.id
            if n in s.env and not isinstance(s.env[n], FuncRef):
                callee = s.env[n]
                if isinstance(callee, App) or isinstance(callee, Sym):
                    self.effect(s, "call", f"<{callee!r}>", args, kws, e)
                    return [(App(f"call:{callee!r}", args, kws, line), s)]
            if n == "len" and len(args) == 1:
                a = args[0]
                if isinstance(a, ListV) and not a.open:
                    return [(Const(len(a.items)), s)]
                if isinstance(a, Const) and isinstance(a.v, (str, tuple)):
                    return [(Const(len(a.v)), s)]
                if isinstance(a, DictV):
                    return [(Const(len(a.items)), s)]
                return [(App("len", args, (), 0), s)]
            if n == "str" and len(args) == 1:
                if isinstance(args[0], Const):
                    return [(Const(str(args[0].v)), s)]
                if isinstance(args[0], StrT):
                    return [(args[0], s)]
                return [(App("str", args, (), 0), s)]
            if n == "bool" and len(args) == 1:
                t = self.truth(args[0])
                if t is not None:
                    return [(Const(t), s)]
                return [(Const(tr), st) for tr, st in self.fork(f"truthy:{self.vkey(args[0])}", s)]
            if n in ("list", "tuple", "set", "frozenset", "sorted") and len(args) <= 1 and (not kws or n == "sorted"):
                if not args:
                    return [(ListV((), False, {"tuple": "tuple", "set": "set", "frozenset": "set"}.get(n, "list")), s)]
                a = args[0]
                if isinstance(a, ListV):
                    tags = set(a.tags)
                    if a.kind == "set" or n in ("set", "frozenset"):
                        tags.add("dedup")
                    if n == "sorted":
                        tags.discard("sorted+edit")
                        tags.add("sorted")
                    elif n in ("set", "frozenset"):
                        tags -= {"sorted", "sorted+edit"}
                    return [(ListV(a.items, a.open, {"tuple": "tuple", "set": "set", "frozenset": "set"}.get(n, "list"), a.nonempty,
                                   frozenset(tags)), s)]
                return [(App(n, args, kws, line), s)]
            if n == "getattr" and len(args) >= 2 and isinstance(args[1], Const):
                attr = args[1].v
                res = []
                for has, st in self.decide_hasattr(args[0], attr, s):
                    if has:
                        res.append((self.getattr(args[0], attr, st, e), st))
                    elif len(args) == 3:
                        res.append((args[2], st))
                    else:
                        st.status, st.node, st.exc, st.value = "raise", e, "AttributeError", Const("AttributeError")
                        res.append((Top(), st))
                return res
            if n in ("isinstance", "hasattr"):
                return [(Const(t), st) for t, st in self.cond(e, s)]
            if n == "dict" and not args and not kws:
                return [(DictV(()), s)]
            if n == "type" and len(args) == 1:
                return [(App("type", args, (), 0), s)]
            if n in ("any", "all") and len(args) == 1 and isinstance(args[0], ListV) and not args[0].open:
                ts = [self.truth(x) for x in args[0].items]
                if all(t is not None for t in ts):
                    return [(Const(any(ts) if n == "any" else all(ts)), s)]
            if n in ("enumerate", "zip", "zip_longest", "reversed", "range", "iter", "next", "min", "max", "sum",
                     "any", "all", "hash", "id", "int", "float", "repr", "print", "deepcopy"):
                if n in ("next", "int", "float", "min", "max"):
                    self.effect(s, "call", n, args, kws, e)
                return [(App(n, args, kws, line), s)]
            if n in self.known_classes:
                fields = list(kws)
                return [(Obj(n, tuple([(f"#{i}", a) for i, a in enumerate(args)] + fields), line), s)]
        # ---- methods on tracked values
        if isinstance(e.func, ast.Attribute):
            meth = e.func.attr
            # qualified constructor e.g. sds_types.NamedType(...)
            if meth in self.known_classes and not isinstance(recv, (ListV, StrT)):
                return [(Obj(meth, tuple([(f"#{i}", a) for i, a in enumerate(args)] + list(kws)), line), s)]
            path = self.path_of(e.func.value, s)
            if isinstance(recv, ListV):
                if meth in ("append", "add") and len(args) == 1:
                    tg = frozenset("sorted+edit" if t == "sorted" else t for t in recv.tags)
                    new = ListV(recv.items + (args[0],), recv.open, recv.kind, True, tg) if not recv.open or args[0] not in recv.items \
                        else ListV(recv.items, True, recv.kind, True, tg)
                    if path:
                        s.env[path] = new
                    self.effect(s, "mutate", f"{path or '?'}.{meth}", args, kws, e)
                    return [(Const(None), s)]
                if meth in ("sort",):
                    self.effect(s, "mutate", f"{path or '?'}.{meth}", args, kws, e)
                    if path:
                        s.env[path] = ListV(recv.items, recv.open, recv.kind, recv.nonempty,
                                            frozenset((set(recv.tags) - {"sorted+edit"}) | {"sorted"}))
                    return [(Const(None), s)]
                if meth in ("isdisjoint", "issubset", "issuperset", "intersection") and len(args) == 1 and isinstance(args[0], ListV) \
                        and not recv.open and not args[0].open and all(isinstance(x, (Const, EnumM)) for x in recv.items + args[0].items):
                    a_, b_ = set(recv.items), set(args[0].items)
                    if meth == "intersection":
                        return [(ListV(tuple(x for x in recv.items if x in b_), False, "set"), s)]
                    return [(Const({"isdisjoint": a_.isdisjoint(b_), "issubset": a_ <= b_, "issuperset": a_ >= b_}[meth]), s)]
                if meth == "union" and len(args) == 1 and isinstance(args[0], ListV):
                    o = args[0]
                    return [(ListV(tuple(dict.fromkeys(recv.items + o.items)), recv.open or o.open or True, recv.kind), s)]
                if meth in ("extend", "update") and len(args) == 1:
                    o = args[0]
                    items = recv.items + (o.items if isinstance(o, ListV) else (App("*", (o,), ()),))
                    if path:
                        s.env[path] = ListV(tuple(dict.fromkeys(items)), True, recv.kind)
                    self.effect(s, "mutate", f"{path or '?'}.{meth}", args, kws, e)
                    return [(Const(None), s)]
                if meth == "pop" and not recv.open and recv.items and (not args or (isinstance(args[0], Const) and isinstance(args[0].v, int))):
                    idx = args[0].v if args else -1
                    try:
                        item = recv.items[idx]
                        rest = list(recv.items)
                        rest.pop(idx)
                        if path:
                            s.env[path] = ListV(tuple(rest), False, recv.kind)
                        self.effect(s, "mutate", f"{path or '?'}.pop", args, kws, e)
                        return [(item, s)]
                    except IndexError:
                        s.status, s.node, s.exc, s.value = "raise", e, "IndexError", Const("IndexError")
                        return [(Top(), s)]
                if meth in ("pop", "remove", "clear", "insert", "index"):
                    self.effect(s, "mutate", f"{path or '?'}.{meth}", args, kws, e)
                    if path and meth != "index":
                        s.env[path] = ListV(recv.items, True, recv.kind, False,
                                            frozenset("sorted+edit" if t == "sorted" else t for t in recv.tags))
                    return [(App(f".{meth}", (recv, *args), kws, line), s)]
            if (isinstance(recv, Const) and isinstance(recv.v, str)) or isinstance(recv, StrT):
                if meth == "join" and len(args) == 1:
                    a = args[0]
                    if isinstance(a, ListV):
                        if not a.open:
                            parts: list = []
                            for i, it in enumerate(a.items):
                                if i:
                                    parts.extend(recv.parts if isinstance(recv, StrT) else [recv.v])
                                parts.extend(it.parts if isinstance(it, StrT) else [it.v if isinstance(it, Const) and isinstance(it.v, str) else it])
                            return [(mkstr(parts), s)]
                        tg = set(a.tags)
                        if a.kind == "set":
                            tg.add("dedup")
                            tg.add("unordered")
                        return [(StrT((Rep(recv, a.items, a.nonempty, frozenset(tg)),)), s)]
                    return [(StrT((Rep(recv, (App("elem", (a,), ()),)),)), s)]
                if isinstance(recv, Const):
                    if meth in ("upper", "lower", "strip", "lstrip", "rstrip") and all(isinstance(a, Const) for a in args):
                        try:
                            return [(Const(getattr(recv.v, meth)(*[a.v for a in args])), s)]
                        except Exception:  # noqa: BLE001
                            pass
                    if meth in ("startswith", "endswith") and len(args) == 1 and isinstance(args[0], Const):
                        return [(Const(getattr(recv.v, meth)(args[0].v)), s)]
                    # a tuple of alternatives: s.startswith(("a", "b"))
                    if meth in ("startswith", "endswith") and len(args) == 1 and isinstance(args[0], ListV) and not args[0].open and all(isinstance(x, Const) and isinstance(x.v, str) for x in args[0].items) \
                            and isinstance(recv.v, str):
                        return [(Const(getattr(recv.v, meth)(tuple(x.v for x in args[0].items))), s)]
                    if meth in ("split", "rsplit", "partition", "rpartition") and len(args) <= 2 and all(isinstance(a, Const) for a in args) and isinstance(recv.v, str):
                        try:
                            return [(ListV(tuple(Const(x) for x in getattr(recv.v, meth)(*[a.v for a in args]))), s)]
                        except Exception:  # noqa: BLE001
                            pass
                    if meth == "replace" and len(args) == 2 and all(isinstance(a, Const) for a in args):
                        return [(Const(recv.v.replace(args[0].v, args[1].v)), s)]
            if isinstance(recv, DictV) and meth == "get" and args and isinstance(args[0], (Const, EnumM)):
                for k, v in recv.items:
                    if k == args[0]:
                        return [(v, s)]
                return [(args[1] if len(args) > 1 else Const(None), s)]
            # ---- self.method / module function resolution
            target = fname or f"{self.vkey(recv) if recv is not None else '?'}.{meth}"
            fi = self.resolve_call(target) if self.resolve_call else None
            if fi is not None and (fi.name in self.inline or fi.qualname in self.inline) and self.depth < self.max_depth:
                return self.inline_call(fi, e, args, kws, s, bound=True)
            self.effect(s, "call", target, args, kws, e)
            if recv is not None and not isinstance(recv, FuncRef) and fname is None:
                return [(App(f".{meth}", (recv, *args), kws, line), s)]
            if recv is not None and isinstance(recv, (Sym, App, Obj, EnumM, StrT, ListV, DictV, Alt, Const)) and not (
                fname and fname.startswith("self.") and fname.count(".") == 1
            ):
                return [(App(f".{meth}", (recv, *args), kws, line), s)]
            return [(App(target, args, kws, line), s)]
        # ---- plain function call
        target = fname or norm(e.func)
        fi = self.resolve_call(target) if self.resolve_call else None
        if fi is not None and (fi.name in self.inline or fi.qualname in self.inline) and self.depth < self.max_depth:
            return self.inline_call(fi, e, args, kws, s, bound=False)
        self.effect(s, "call", target, args, kws, e)
        return [(App(target, args, kws, line), s)]

    def inline_call(self, fi: FuncInfo, e: ast.Call, args: tuple, kws: tuple, s: State, bound: bool):
        params = fi.params()
        if fi.cls and not fi.is_static:
            params = params[1:]
        amap: dict[str, AV] = {}
        for p, a in zip(params, args):
            amap[p] = a
        for k, v in kws:
            amap[k] = v
        if fi.cls and not fi.is_static and "self" in s.env:
            amap[fi.params()[0]] = s.env["self"]
        self.depth += 1
        try:
            sub = s.clone()
            saved_env = sub.env
            # callee sees tracked self.* state but not caller locals
            sub.env = {k: v for k, v in saved_env.items() if "." in k or k == "self"}
            res = self.run_function(fi, amap, sub)
        finally:
            self.depth -= 1
        out = []
        for o in res:
            st = State(dict(s.env), dict(o.facts), list(o.effects), dict(s.eq), {k: set(v) for k, v in s.neq.items()})
            for k, v in o.env.items():
                if "." in k:
                    st.env[k] = v
            if o.kind == "raise":
                st.status, st.node, st.exc, st.value = "raise", o.node, o.exc, o.value
                out.append((Top(), st))
            else:
                out.append((o.value, st))
        return out


MUTATORS = {"append", "add", "extend", "update", "insert", "pop", "remove", "clear", "sort", "discard", "setdefault",
            "reverse", "popitem"}


def mkstr(parts: list) -> AV:
    out: list = []
    for p in parts:
        if isinstance(p, Const) and isinstance(p.v, str):
            p = p.v
        elif isinstance(p, Const) and (p.v is None or isinstance(p.v, (bool, int, float))):
            p = str(p.v)  # f"{x}" == str(x) for these builtin types
        if isinstance(p, StrT):
            for q in p.parts:
                if isinstance(q, str) and out and isinstance(out[-1], str):
                    out[-1] += q
                else:
                    out.append(q)
            continue
        if isinstance(p, str):
            if not p:
                continue
            if out and isinstance(out[-1], str):
                out[-1] += p
            else:
                out.append(p)
        else:
            out.append(p)
    if not out:
        return Const("")
    if len(out) == 1 and isinstance(out[0], str):
        return Const(out[0])
    return StrT(tuple(out))


def holes(v: AV) -> list[AV]:
    """All non-literal leaves of a string template (recursively through Rep / Alt)."""
    res: list[AV] = []
    if isinstance(v, StrT):
        for p in v.parts:
            if not isinstance(p, str):
                res.extend(holes(p))
    elif isinstance(v, Rep):
        res.extend(holes(v.sep))
        for a in v.alts:
            res.extend(holes(a))
    elif isinstance(v, Alt):
        for a in v.alts:
            res.extend(holes(a))
    elif isinstance(v, Const):
        pass
    else:
        res.append(v)
    return res


def walk_av(v: AV):
    """Pre-order walk over an abstract value."""
    yield v
    if isinstance(v, App):
        for a in v.args:
            yield from walk_av(a)
        for _, a in v.kwargs:
            yield from walk_av(a)
    elif isinstance(v, Obj):
        for _, a in v.fields:
            yield from walk_av(a)
    elif isinstance(v, StrT):
        for p in v.parts:
            if not isinstance(p, str):
                yield from walk_av(p)
    elif isinstance(v, Rep):
        yield from walk_av(v.sep)
        for a in v.alts:
            yield from walk_av(a)
    elif isinstance(v, (ListV,)):
        for a in v.items:
            yield from walk_av(a)
    elif isinstance(v, DictV):
        for k, a in v.items:
            yield from walk_av(k)
            yield from walk_av(a)
    elif isinstance(v, Alt):
        for a in v.alts:
            yield from walk_av(a)
