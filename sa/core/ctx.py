"""Analysis context: source model + library model + interpreter factory with resolved names."""
from __future__ import annotations

import ast
from functools import cached_property

from .absint import AV, Hierarchy, Interp, Sym
from .libmodel import LibModel, libmodel
from .source import AnalysisError, FuncInfo, ModuleInfo, Repo, norm

TYPES_MOD = "api_analyzer/_types.py"
API_MOD = "api_analyzer/_api.py"
VISITOR = "api_analyzer/_ast_visitor.py"
WALKER = "api_analyzer/_ast_walker.py"
HELPERS = "api_analyzer/_mypy_helpers.py"
GETAPI = "api_analyzer/_get_api.py"
CLI = "api_analyzer/cli/_cli.py"
GEN = "stubs_generator/_stub_string_generator.py"
GENSTUBS = "stubs_generator/_generate_stubs.py"
GHELPER = "stubs_generator/_helper.py"
DOCPARSER = "docstring_parsing/_docstring_parser.py"
PLAINPARSER = "docstring_parsing/_plaintext_docstring_parser.py"
DOCHELPERS = "docstring_parsing/_helpers.py"
DOCSTRING = "docstring_parsing/_docstring.py"
ENUMS = "api_analyzer/_type_source_enums.py"


class Ctx:
    def __init__(self, repo: Repo | None = None) -> None:
        self.repo = repo or Repo()

    @cached_property
    def lib(self) -> LibModel:
        return libmodel()

    # ------------------------------------------------------------------ class naming
    @cached_property
    def sds_type_classes(self) -> list[str]:
        m = self.repo.module(TYPES_MOD)
        return [c for c in m.classes if c != "AbstractType" and "AbstractType" in m.classes[c].bases]

    @cached_property
    def repo_enums(self) -> dict[str, set[str]]:
        out: dict[str, set[str]] = {}
        for m in self.repo.modules.values():
            for c in m.classes.values():
                if any(b.split(".")[-1] in ("Enum", "IntEnum", "PythonEnum") for b in c.bases):
                    members = set()
                    for st in c.node.body:
                        if isinstance(st, ast.Assign):
                            for t in st.targets:
                                if isinstance(t, ast.Name):
                                    members.add(t.id)
                    out[c.name] = members
        for name, members in self.lib.enum_members.items():
            out.setdefault(name, set(members))
        return out

    @cached_property
    def hierarchy(self) -> Hierarchy:
        h = Hierarchy()
        for c in self.lib.classes.values():
            h.add_class(c.name, c.bases, list(c.attrs) + list(c.methods) + list(c.properties))
        for m in self.repo.modules.values():
            for c in m.classes.values():
                name = self.repo_class_name(m, c.name)
                bases = []
                for b in c.bases:
                    bn = b.split(".")[-1]
                    r = self.repo.resolve_symbol(m, bn)
                    bases.append(self.repo_class_name(r[0], r[1]) if r and r[1] in r[0].classes else bn)
                attrs = [f[0] for f in c.fields] + list(c.methods)
                for meth in c.methods.values():
                    if meth.name == "__init__":
                        for x in ast.walk(meth.node):
                            if isinstance(x, ast.Attribute) and isinstance(x.value, ast.Name) and x.value.id == "self" \
                                    and isinstance(x.ctx, ast.Store):
                                attrs.append(x.attr)
                h.add_class(name, bases, attrs)
        h.close()
        return h

    @staticmethod
    def repo_class_name(m: ModuleInfo, cname: str) -> str:
        return f"sds.{cname}" if m.rel == TYPES_MOD else cname

    def classname(self, mi: ModuleInfo, e: ast.expr) -> str:
        """Canonical class name of a class expression used in module ``mi``."""
        if isinstance(e, ast.Constant) and e.value is None:
            return "NoneType"
        if isinstance(e, ast.Attribute) and isinstance(e.value, ast.Name):
            alias = e.value.id
            imp = mi.imports.get(alias)
            if imp:
                mod, sym = imp
                dotted = f"{mod}.{sym}" if sym else mod
                if dotted.endswith("_types") and "safeds_stubgen" in dotted:
                    return f"sds.{e.attr}"
                if dotted in ("mypy.types",):
                    return e.attr if e.attr not in self.lib.classes or self.lib.module_of.get(e.attr) == "types" \
                        else f"types.{e.attr}"
                if dotted in ("mypy.nodes",):
                    return e.attr
            return e.attr
        if isinstance(e, ast.Name):
            r = self.repo.resolve_symbol(mi, e.id)
            if r and r[1] in r[0].classes:
                return self.repo_class_name(r[0], r[1])
            imp = mi.imports.get(e.id)
            if imp and imp[0] == "types" and imp[1] == "NoneType":
                return "NoneType"
            return e.id
        return norm(e)

    # ------------------------------------------------------------------ interpreter factory
    def resolver(self, mi: ModuleInfo, cls: str | None):
        repo = self.repo

        def resolve(target: str) -> FuncInfo | None:
            if target.startswith("self.") and cls and target.count(".") == 1:
                name = target[5:]
                return mi.functions.get(f"{cls}.{name}")
            if "." not in target:
                r = repo.resolve_symbol(mi, target)
                if r and r[1] in r[0].functions:
                    return r[0].functions[r[1]]
            return None

        return resolve

    def interp(self, fi: FuncInfo, inline=(), **kw) -> "RepoInterp":
        mi = self.repo.module(fi.module)
        return RepoInterp(self, mi, fi.cls, inline=inline, **kw)

    def fn(self, rel: str, qual: str) -> FuncInfo:
        return self.repo.function(rel, qual)


class RepoInterp(Interp):
    """Interpreter whose class names are canonicalised through the module's imports."""

    def __init__(self, ctx: Ctx, mi: ModuleInfo, cls: str | None, inline=(), **kw) -> None:
        known = set()
        for m in ctx.repo.modules.values():
            known |= set(m.classes)
        super().__init__(hierarchy=ctx.hierarchy, resolve_call=ctx.resolver(mi, cls), inline=inline,
                         known_classes=known, enums=ctx.repo_enums, self_cls=cls, **kw)
        self.ctx = ctx
        self.mi = mi

    def class_names(self, e: ast.expr) -> list[str]:
        if isinstance(e, ast.Tuple):
            return [c for x in e.elts for c in self.class_names(x)]
        if isinstance(e, ast.BinOp) and isinstance(e.op, ast.BitOr):
            return self.class_names(e.left) + self.class_names(e.right)
        return [self.ctx.classname(self.mi, e)]

    def stringish(self, v):
        from .absint import App
        r = super().stringish(v)
        if r is None and isinstance(v, App):
            # declared return annotation of a repository function
            def ann_of(func: str):
                fi = self.resolve_call(func) if self.resolve_call else None
                return ast.unparse(fi.node.returns) if fi is not None and fi.node.returns is not None else None
            a = ann_of(v.func)
            if a == "str":
                return True
            if v.func == "[]" and len(v.args) == 2 and isinstance(v.args[0], App):
                a = ann_of(v.args[0].func)
                from .absint import Const
                if a and a.startswith("tuple[") and isinstance(v.args[1], Const) and isinstance(v.args[1].v, int):
                    elems = [x.strip() for x in a[6:-1].split(",")]
                    if v.args[1].v < len(elems) and elems[v.args[1].v] == "str":
                        return True
        return r

    def e_Name(self, e, s):
        from .absint import Const
        if e.id not in s.env:
            r = self.ctx.repo.resolve_symbol(self.mi, e.id)
            if r and r[1] in r[0].constants and isinstance(r[0].constants[r[1]], ast.Constant):
                return [(Const(r[0].constants[r[1]].value), s)]
        return super().e_Name(e, s)

    def getattr(self, v, attr, s, node=None):
        from .absint import Const, FuncRef
        if isinstance(v, FuncRef):
            r = self.ctx.repo.resolve_symbol(self.mi, v.name)
            if r and r[1] in r[0].classes:
                for f, _ann, default, _kws in r[0].classes[r[1]].fields:
                    if f == attr and isinstance(default, ast.Constant):
                        return Const(default.value)
        return super().getattr(v, attr, s, node)

    def call(self, e, fname, recv, args, kws, s):
        from .absint import Obj as _Obj
        # to_dict() of an object built from a repository class: interpret the class's own to_dict
        if isinstance(e.func, ast.Attribute) and e.func.attr == "to_dict" and isinstance(recv, _Obj) and not args and self.depth < 4:
            cname = recv.cls.split(".")[-1]
            for m in self.ctx.repo.modules.values():
                ci = m.classes.get(cname)
                if ci and "to_dict" in ci.methods and self.ctx.repo_class_name(m, cname) == recv.cls:
                    # positional constructor arguments -> field names
                    fields = []
                    names = [f[0] for f in ci.fields if "ClassVar" not in f[1]]
                    for k, v in recv.fields:
                        if k.startswith("#") and int(k[1:]) < len(names):
                            k = names[int(k[1:])]
                        fields.append((k, v))
                    sub = RepoInterp(self.ctx, m, cname)
                    sub.depth = self.depth + 1
                    outs = sub.run_function(ci.methods["to_dict"], {"self": _Obj(recv.cls, tuple(fields), recv.line)})
                    if len(outs) == 1 and outs[0].kind == "return":
                        return [(outs[0].value, s)]
        # canonical names for constructed repo classes
        res = super().call(e, fname, recv, args, kws, s)
        out = []
        from .absint import Obj
        for v, st in res:
            is_ctor = (isinstance(e.func, ast.Name) and e.func.id in self.known_classes) or (
                isinstance(e.func, ast.Attribute) and e.func.attr in self.known_classes)
            if is_ctor and isinstance(v, Obj) and not v.cls.startswith("sds.") and v.line == e.lineno:
                cn = self.ctx.classname(self.mi, e.func)
                if cn != v.cls:
                    v = Obj(cn, v.fields, v.line)
            out.append((v, st))
        return out
