"""Library model (DESIGN 3.7): facts about mypy's node and type classes, derived from the installed mypy's own
source files (``mypy/nodes.py``, ``mypy/types.py`` ship as .py next to the compiled modules) with ``ast``.
Plus a small hand-written table of positional facts the source does not state; every such fact carries its reason.
"""
from __future__ import annotations

import ast
import sysconfig
from functools import lru_cache
from pathlib import Path

from .absint import Hierarchy
from .source import AnalysisError


def _site() -> Path:
    return Path(sysconfig.get_paths()["purelib"])


class LibClass:
    def __init__(self, name: str, bases: list[str]) -> None:
        self.name = name
        self.bases = bases
        self.attrs: dict[str, str] = {}  # attribute -> declared annotation source ("" if unknown)
        self.methods: set[str] = set()
        self.properties: dict[str, str] = {}


class LibModel:
    def __init__(self) -> None:
        self.classes: dict[str, LibClass] = {}
        self.module_of: dict[str, str] = {}
        self.enum_members: dict[str, list[str]] = {}
        self.constants: dict[str, object] = {}
        self.files: list[str] = []
        for mod in ("nodes", "types"):
            p = _site() / "mypy" / f"{mod}.py"
            if not p.exists():
                raise AnalysisError(f"library source {p} not found; the library model cannot be derived")
            self.files.append(str(p))
            self._parse(mod, ast.parse(p.read_text()))
        self.h = Hierarchy()
        for c in self.classes.values():
            self.h.add_class(c.name, c.bases, list(c.attrs) + list(c.methods) + list(c.properties))
        self.h.close()

    def _parse(self, mod: str, tree: ast.Module) -> None:
        for node in tree.body:
            if isinstance(node, ast.ClassDef):
                bases = [b.attr if isinstance(b, ast.Attribute) else getattr(b, "id", "") for b in node.bases]
                name = node.name
                if name in self.classes and mod == "types":
                    # mypy.types.TupleType etc. never clash with nodes.* names used here except Type* helpers
                    name = f"types.{name}"
                c = LibClass(name, bases)
                self.module_of[name] = mod
                is_enum = any(b in ("Enum", "IntEnum") for b in bases)
                members = []
                for st in node.body:
                    if isinstance(st, ast.AnnAssign) and isinstance(st.target, ast.Name):
                        c.attrs[st.target.id] = ast.unparse(st.annotation)
                    elif isinstance(st, ast.Assign):
                        for t in st.targets:
                            if isinstance(t, ast.Name):
                                if t.id == "__slots__" and isinstance(st.value, (ast.Tuple, ast.List)):
                                    for e in st.value.elts:
                                        if isinstance(e, ast.Constant) and isinstance(e.value, str):
                                            c.attrs.setdefault(e.value, "")
                                elif t.id == "FLAGS" or t.id.isupper():
                                    if is_enum:
                                        members.append(t.id)
                                    c.attrs.setdefault(t.id, "")
                                else:
                                    if is_enum:
                                        members.append(t.id)
                                    c.attrs.setdefault(t.id, "")
                    elif isinstance(st, ast.FunctionDef):
                        decos = {ast.unparse(d) for d in st.decorator_list}
                        if "property" in decos:
                            c.properties[st.name] = ast.unparse(st.returns) if st.returns else ""
                        else:
                            c.methods.add(st.name)
                        if st.name == "__init__":
                            for x in ast.walk(st):
                                if isinstance(x, (ast.Assign, ast.AnnAssign)):
                                    ts = x.targets if isinstance(x, ast.Assign) else [x.target]
                                    for t in ts:
                                        if isinstance(t, ast.Attribute) and isinstance(t.value, ast.Name) and t.value.id == "self":
                                            ann = ast.unparse(x.annotation) if isinstance(x, ast.AnnAssign) else ""
                                            if not c.attrs.get(t.attr):
                                                c.attrs[t.attr] = ann or c.attrs.get(t.attr, "")
                if is_enum:
                    self.enum_members[name] = members
                self.classes[name] = c
            elif isinstance(node, (ast.Assign, ast.AnnAssign)):
                tgt = node.targets[0] if isinstance(node, ast.Assign) else node.target
                val = node.value
                if isinstance(tgt, ast.Name) and isinstance(val, ast.Constant):
                    self.constants[f"{mod}.{tgt.id}"] = val.value
                elif isinstance(tgt, ast.Name) and isinstance(val, ast.Attribute) and isinstance(val.value, ast.Name) \
                        and val.value.id in self.enum_members:
                    self.constants[f"{mod}.{tgt.id}"] = f"{val.value.id}.{val.attr}"

    # ------------------------------------------------------------------ queries
    def subclasses(self, base: str, leaf_only: bool = False) -> list[str]:
        subs = sorted(self.h.subclasses(base))
        if leaf_only:
            subs = [s for s in subs if not any(s in self.classes[o].bases for o in subs if o != s)]
        return subs

    def attr_type(self, cls: str, attr: str) -> str | None:
        """Declared annotation of ``attr`` on ``cls`` or its bases (MRO order, depth first)."""
        seen = set()
        stack = [cls]
        while stack:
            c = stack.pop(0)
            if c in seen or c not in self.classes:
                continue
            seen.add(c)
            lc = self.classes[c]
            if attr in lc.attrs and lc.attrs[attr]:
                return lc.attrs[attr]
            if attr in lc.properties:
                return lc.properties[attr] or None
            stack = lc.bases + stack
        return None

    def has_attr(self, cls: str, attr: str) -> bool | None:
        return self.h.hasattr(cls, attr)

    def block_fields(self, cls: str) -> dict[str, str]:
        """Fields of a statement class whose declared type mentions Block."""
        out = {}
        seen = set()
        stack = [cls]
        while stack:
            c = stack.pop(0)
            if c in seen or c not in self.classes:
                continue
            seen.add(c)
            for a, ann in self.classes[c].attrs.items():
                if "Block" in ann and a not in out:
                    out[a] = ann
            stack = self.classes[c].bases + stack
        return out


# Positional facts not stated in mypy's class definitions.  One line each with its justification.
ASSIGNMENT_TARGET_CLASSES = {
    # mypy/fastparse.py builds assignment targets from ast.expr with Store context: Name, Attribute, Subscript,
    # Tuple/List, Starred; semanal may replace `super().x` targets by SuperExpr.
    "NameExpr": "x = ...",
    "MemberExpr": "self.x = ...",
    "IndexExpr": "self.d[k] = ...",
    "TupleExpr": "a, b = ...",
    "ListExpr": "[a, b] = ...",
    "StarExpr": "a, *b = ...",
    "SuperExpr": "super().x = ...",
}

# Expression classes a parser-produced default value / return expression can have: every concrete subclass of
# Expression that fastparse or semanal can leave in the tree (TempNode, TypeApplication etc. are produced by
# semanal for specific call shapes and can also appear as a returned expression).
SYNTHETIC_EXPRESSIONS = {"TempNode", "FakeExpression", "PlaceholderNode"}  # never left in a finished tree


@lru_cache(maxsize=1)
def libmodel() -> LibModel:
    return LibModel()


# ---------------------------------------------------------------------- library functions read from source
@lru_cache(maxsize=None)
def lib_function(relpath: str, qualname: str) -> ast.FunctionDef:
    """The definition of ``qualname`` (``f`` or ``Class.f``) in the installed library file ``relpath`` (relative to
    site-packages).  A missing file or function is an analysis error: the facts taken from it would be stale."""
    p = _site() / relpath
    if not p.exists():
        raise AnalysisError(f"library source {p} not found")
    body = ast.parse(p.read_text()).body
    parts = qualname.split(".")
    node = None
    for i, part in enumerate(parts):
        node = next((n for n in body if isinstance(n, (ast.FunctionDef, ast.ClassDef)) and n.name == part), None)
        if node is None:
            raise AnalysisError(f"{qualname} not found in library source {p}")
        body = node.body
    if not isinstance(node, ast.FunctionDef):
        raise AnalysisError(f"{qualname} in {p} is not a function")
    return node


def documented_raises(relpath: str, qualname: str) -> list[str]:
    """Exception classes listed in the ``Raises:`` section of the library function's docstring."""
    doc = ast.get_docstring(lib_function(relpath, qualname)) or ""
    out, inside = [], False
    for line in doc.splitlines():
        if line.strip() == "Raises:":
            inside = True
            continue
        if inside:
            if line.strip() and not line.startswith(" "):
                break
            if line.strip().endswith(":") and ":" not in line.strip()[:-1]:
                break
            head = line.strip().split(":", 1)
            if len(head) == 2 and head[0].isidentifier():
                out.append(head[0])
    return out


def reads_ambient(relpath: str, qualname: str, expr: str) -> bool:
    """Does the library function mention the ambient expression (e.g. ``sys.path``, ``os.getcwd()``)?"""
    return any(ast.unparse(n) == expr for n in ast.walk(lib_function(relpath, qualname)))
