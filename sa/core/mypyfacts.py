"""Typed facts from mypy used as a library (DESIGN 3.8).  mypy is a runtime dependency of the repository and is
present in its own environment (/venv).  The repository's code is type-checked, never executed.

Provides (a) mypy's diagnostics for selected error codes restricted to repository files and (b) the inferred type of
every expression of the repository, keyed by source position so that ``ast`` nodes and mypy nodes meet.
Runs in a child process (mypy's teardown is slow) and caches by the digest of the analysed sources under
/verif/.cache (git-ignored; a fresh restore recomputes).
"""
from __future__ import annotations

import hashlib
import json
import os
import subprocess
import sys
from pathlib import Path

from .source import AnalysisError, Repo

VERIF = Path(__file__).resolve().parents[2]
CODES = {"attr-defined", "union-attr", "comparison-overlap", "call-arg", "index", "operator", "name-defined", "misc", "arg-type", "call-overload", "has-type", "return-value", "assignment"}

_CHILD = r'''
import json, os, sys
root = sys.argv[1]
os.chdir(root)
from mypy import build, nodes
from mypy.options import Options
from mypy.find_sources import create_source_list
opts = Options()
opts.preserve_asts = True; opts.export_types = True; opts.incremental = False; opts.cache_dir = os.devnull
opts.strict_equality = True; opts.mypy_path = ["src"]; opts.namespace_packages = True; opts.explicit_package_bases = True
opts.show_column_numbers = True
srcs = create_source_list(["src/safeds_stubgen"], opts)
res = build.build(srcs, opts)
out = {"errors": list(res.errors), "types": {}}
for mod, st in res.graph.items():
    tree = st.tree
    if tree is None or "safeds_stubgen" not in (tree.path or "") or "site-packages" in tree.path:
        continue
    rel = tree.path.split("src/safeds_stubgen/")[-1]
    seen = set(); stack = [tree]; recs = []
    while stack:
        n = stack.pop()
        if id(n) in seen: continue
        seen.add(id(n))
        if isinstance(n, nodes.Expression):
            t = res.types.get(n)
            if t is not None and getattr(n, "line", -1) >= 0:
                recs.append([n.line, n.column, getattr(n, "end_line", None), getattr(n, "end_column", None), str(t)])
        for name in dir(type(n)):
            if name.startswith("_") or name in ("info", "type", "node", "fullname", "name"): continue
            try: v = getattr(n, name)
            except Exception: continue
            if isinstance(v, nodes.Node): stack.append(v)
            elif isinstance(v, (list, tuple)):
                for x in v:
                    if isinstance(x, nodes.Node): stack.append(x)
                    elif isinstance(x, (list, tuple)):
                        for y in x:
                            if isinstance(y, nodes.Node): stack.append(y)
    out["types"][rel] = recs
sys.stdout.write("MYPYFACTS" + json.dumps(out))
sys.stdout.flush()
os._exit(0)
'''


class MypyFacts:
    def __init__(self, repo: Repo) -> None:
        self.repo = repo
        digest = hashlib.sha256((repo.digest() + _CHILD).encode()).hexdigest()[:24]
        cache = VERIF / ".cache" / f"mypyfacts_{digest}.json"
        data = None
        if cache.exists() and not os.environ.get("SA_VARIANT"):
            try:
                data = json.loads(cache.read_text())
            except Exception:  # noqa: BLE001
                data = None
        if data is None:
            r = subprocess.run([sys.executable, "-c", _CHILD, str(repo.root)], capture_output=True, text=True, timeout=600)
            if "MYPYFACTS" not in r.stdout:
                raise AnalysisError(f"mypy facts could not be computed: {r.stderr[-400:]}")
            data = json.loads(r.stdout.split("MYPYFACTS", 1)[1])
            if not os.environ.get("SA_VARIANT"):
                try:
                    cache.parent.mkdir(exist_ok=True)
                    cache.write_text(json.dumps(data))
                except OSError:
                    pass
        self.errors: list[str] = data["errors"]
        self.types: dict[str, dict[tuple, str]] = {rel: {(r[0], r[1], r[2], r[3]): r[4] for r in recs} for rel, recs in data["types"].items()}

    def repo_errors(self) -> list[tuple[str, int, str, str]]:
        """(rel file, line, code, message) for diagnostics in repository files."""
        out = []
        for e in self.errors:
            # src/safeds_stubgen/x.py:12:5: error: msg  [code]
            parts = e.split(":", 3)
            if len(parts) < 4 or "safeds_stubgen" not in parts[0] or " error: " not in e:
                continue
            rel = parts[0].split("src/safeds_stubgen/")[-1]
            try:
                line = int(parts[1])
            except ValueError:
                continue
            msg = e.split(" error: ", 1)[1]
            code = msg.rsplit("[", 1)[1].rstrip("]") if msg.endswith("]") and "[" in msg else "?"
            out.append((rel, line, code, msg))
        return out

    def type_of(self, rel: str, node) -> str | None:
        t = self.types.get(rel, {})
        k = (node.lineno, node.col_offset, getattr(node, "end_lineno", None), getattr(node, "end_col_offset", None))
        if k in t:
            return t[k]
        # fall back on start position + end line (mypy and ast differ for some f-string positions)
        for (l, c, el, ec), ty in t.items():
            if l == k[0] and c == k[1] and (el == k[2] or el is None):
                return ty
        return None
