"""Findings, known-findings matching, evidence and exit codes (DESIGN 1.2, 3.9)."""
from __future__ import annotations

import hashlib
import json
import os
import time
from dataclasses import dataclass, field
from pathlib import Path

from .source import AnalysisError

VERIF = Path(__file__).resolve().parents[2]
KNOWN = VERIF / "known_findings.json"


@dataclass
class Ob:
    """One obligation = one rule instance."""

    rule: str
    key: str  # structural key: module::function::descriptor (never a line number)
    site: str  # file:line for humans
    fact: str  # what was evaluated
    ok: bool
    what: str = ""  # for findings: what fails
    nontrivial: bool = True  # decision involved at least one non-constant fact
    extra: dict = field(default_factory=dict)

    def as_sample(self) -> dict:
        d = {"rule": self.rule, "key": self.key, "site": self.site, "fact": self.fact,
             "verdict": "discharged" if self.ok else "finding"}
        if self.what:
            d["what"] = self.what
        return d


@dataclass
class RuleSpec:
    rule: str
    clause: str
    engine: str
    floor: int = 1  # minimum number of instances confirmed by hand


class Collector:
    def __init__(self, prop: str) -> None:
        self.prop = prop
        self.obs: list[Ob] = []
        self.specs: dict[str, RuleSpec] = {}
        self.notes: list[str] = []
        self.assumptions: list[str] = []
        self.trusted: list[str] = ["CPython ast"]
        self.units: set[str] = set()
        self.functions: set[str] = set()
        self.extra: dict = {}

    def spec(self, rule: str, clause: str, engine: str, floor: int = 1) -> None:
        self.specs[rule] = RuleSpec(rule, clause, engine, floor)

    def add(self, rule: str, key: str, site: str, fact: str, ok: bool, what: str = "", nontrivial: bool = True,
            **extra) -> Ob:
        if rule not in self.specs:
            raise AnalysisError(f"rule {rule} used without spec")
        ob = Ob(rule, key, site, fact, ok, what, nontrivial, extra)
        self.obs.append(ob)
        return ob

    def ok(self, rule, key, site, fact, nontrivial=True, **extra):
        return self.add(rule, key, site, fact, True, "", nontrivial, **extra)

    def bad(self, rule, key, site, fact, what, **extra):
        return self.add(rule, key, site, fact, False, what, True, **extra)

    def touched(self, fi) -> None:
        self.units.add(fi.module)
        self.functions.add(fi.key)

    def assume(self, text: str) -> None:
        if text not in self.assumptions:
            self.assumptions.append(text)

    def trust(self, text: str) -> None:
        if text not in self.trusted:
            self.trusted.append(text)


def load_known() -> list[dict]:
    if not KNOWN.exists():
        return []
    return json.loads(KNOWN.read_text())["findings"]


def finish(col: Collector, tier: str, t0: float, cmd: str, quiet: bool = False) -> int:
    """Match findings with known findings, print lines, write evidence; return exit code."""
    prop = col.prop
    # floors
    per_rule: dict[str, dict] = {}
    for r, spec in col.specs.items():
        inst = [o for o in col.obs if o.rule == r]
        per_rule[r] = {"clause": spec.clause, "engine": spec.engine, "instances": len(inst), "floor": spec.floor,
                       "discharged": sum(o.ok for o in inst)}
        if len(inst) < spec.floor:
            raise AnalysisError(f"rule {r}: {len(inst)} instances, below the confirmed floor {spec.floor} "
                                f"(an anchor was refactored away; the rule would pass vacuously)")
    allknown = [k for k in load_known() if k.get("status") == "known"]
    known = [k for k in allknown if k.get("property") == prop]
    # a known finding applies wherever its rule instance is evaluated (rules can be shared between properties)
    kmap = {(k["rule"], k["key"]): k for k in allknown}
    findings = [o for o in col.obs if not o.ok]
    new, listed = [], []
    seen_keys = set()
    for o in findings:
        if (o.rule, o.key) in seen_keys:
            continue
        seen_keys.add((o.rule, o.key))
        if (o.rule, o.key) in kmap:
            listed.append(o)
        else:
            new.append(o)
    out = []
    for o in listed:
        out.append(f"KNOWN-FINDING: property={prop} {o.rule} {o.key} — {kmap[(o.rule, o.key)].get('what', o.what)}")
    vio_dir = VERIF / "evidence" / "violations"
    for o in new:
        vio_dir.mkdir(parents=True, exist_ok=True)
        h = hashlib.sha1(f"{o.rule}|{o.key}".encode()).hexdigest()[:12]
        path = vio_dir / f"{prop}_{h}.json"
        path.write_text(json.dumps({"property": prop, "rule": o.rule, "key": o.key, "site": o.site, "fact": o.fact,
                                    "what": o.what, "extra": o.extra,
                                    "replay": f"/venv/bin/python sa/run.py replay {path}"}, indent=1, default=str))
        out.append(f"VIOLATION property={prop} replay={path}")
        out.append(f"  {o.rule} at {o.site}: {o.what}")
        out.append(f"  key: {o.key}")
        out.append(f"  fact: {o.fact}")
    stale = [k for k in known if (k["rule"], k["key"]) not in {(o.rule, o.key) for o in findings}]
    for k in stale:
        out.append(f"NOTE: known finding no longer reported (repaired or anchor moved): {k['rule']} {k['key']}")
    nobs = len(col.obs)
    distinct_nt = len({(o.rule, o.key) for o in col.obs if o.nontrivial})
    samples = []
    seen_rules: dict[str, int] = {}
    for o in col.obs:
        if seen_rules.get(o.rule, 0) < 2 or not o.ok:
            samples.append(o.as_sample())
            seen_rules[o.rule] = seen_rules.get(o.rule, 0) + 1
    samples = samples[:60]
    expl = (f"Static analysis of {len(col.units)} source units / {len(col.functions)} functions of /repo's working "
            f"tree. {len(col.specs)} rules, {nobs} rule instances (obligations); "
            f"{sum(o.ok for o in col.obs)} discharged, {len(listed)} known findings, {len(new)} new findings. "
            + " ".join(col.notes))
    ev = {
        "property_id": prop, "tier": tier, "seed": int(os.environ.get("VERIF_SEED", "0") or 0), "level": "other",
        "wall_s": round(time.time() - t0, 3), "violations": len(new),
        "coverage": {
            "explanation": expl,
            "obligations": nobs, "discharged": sum(o.ok for o in col.obs), "known_findings": len(listed),
            "evaluations": nobs, "distinct_nontrivial": distinct_nt,
            "rule": "one obligation per rule instance (a concrete construct of /repo the rule was evaluated on); "
                    "non-trivial = the verdict depended on at least one fact extracted from the source (not a "
                    "constant of the checker); distinct = distinct (rule, structural key)",
            "per_rule": per_rule,
            "units": sorted(col.units), "functions_analysed": len(col.functions),
            "samples": samples, "checker_cmd": cmd, "trusted_base": col.trusted,
            "known_finding_keys": [f"{o.rule} {o.key}" for o in listed],
            **col.extra,
        },
        "assumptions": col.assumptions,
    }
    evp = VERIF / "evidence" / f"{prop}.json"
    evp.parent.mkdir(exist_ok=True)
    evp.write_text(json.dumps(ev, indent=1, default=str))
    if not quiet:
        for r, pr in per_rule.items():
            print(f"  [{r}] instances={pr['instances']} (floor {pr['floor']}) discharged={pr['discharged']}")
        print("\n".join(out))
        print(f"{prop}: {nobs} obligations, {sum(o.ok for o in col.obs)} discharged, {len(listed)} known, "
              f"{len(new)} new; evidence {evp}")
    return 1 if new else 0
