"""Source model of the repository under analysis (DESIGN 3.1).

Parses every module below ``<repo>/src/safeds_stubgen`` with ``ast``.  Nothing is imported or executed.
"""
from __future__ import annotations

import ast
import hashlib
import os
from dataclasses import dataclass, field
from pathlib import Path


class AnalysisError(Exception):
    """The analysis itself cannot run (vanished anchor, unsupported construct, floor violated).  Exit 2."""


PKG = "safeds_stubgen"


def repo_root() -> Path:
    return Path(os.environ.get("SA_REPO", "/repo"))


@dataclass
class FuncInfo:
    module: str  # relative path, e.g. "api_analyzer/_ast_visitor.py"
    qualname: str  # "MyPyAstVisitor.enter_funcdef" or "get_api"
    node: ast.FunctionDef
    cls: str | None = None
    decorators: tuple[str, ...] = ()

    @property
    def name(self) -> str:
        return self.node.name

    @property
    def key(self) -> str:
        return f"{self.module}::{self.qualname}"

    @property
    def is_static(self) -> bool:
        return "staticmethod" in self.decorators

    @property
    def is_classmethod(self) -> bool:
        return "classmethod" in self.decorators

    def params(self) -> list[str]:
        a = self.node.args
        names = [x.arg for x in a.posonlyargs + a.args]
        if a.vararg:
            names.append(a.vararg.arg)
        names += [x.arg for x in a.kwonlyargs]
        if a.kwarg:
            names.append(a.kwarg.arg)
        return names


@dataclass
class ClassInfo:
    module: str
    name: str
    node: ast.ClassDef
    bases: tuple[str, ...]
    decorators: tuple[ast.expr, ...]
    methods: dict[str, FuncInfo] = field(default_factory=dict)
    # (field name, annotation source, ast default or None, field() keywords)
    fields: list[tuple[str, str, ast.expr | None, dict[str, ast.expr]]] = field(default_factory=list)

    def dataclass_params(self) -> dict[str, object] | None:
        """Return dataclass(...) keyword constants, or None if not a dataclass."""
        for d in self.decorators:
            target = d.func if isinstance(d, ast.Call) else d
            nm = target.attr if isinstance(target, ast.Attribute) else getattr(target, "id", None)
            if nm == "dataclass":
                params: dict[str, object] = {"eq": True, "frozen": False, "unsafe_hash": False, "order": False}
                if isinstance(d, ast.Call):
                    for kw in d.keywords:
                        if isinstance(kw.value, ast.Constant):
                            params[kw.arg] = kw.value.value
                return params
        return None


@dataclass
class ModuleInfo:
    rel: str
    path: Path
    tree: ast.Module
    text: str
    imports: dict[str, tuple[str, str | None]] = field(default_factory=dict)  # local -> (dotted module, symbol|None)
    functions: dict[str, FuncInfo] = field(default_factory=dict)
    classes: dict[str, ClassInfo] = field(default_factory=dict)
    constants: dict[str, ast.expr] = field(default_factory=dict)

    @property
    def dotted(self) -> str:
        parts = self.rel[:-3].split("/")
        if parts[-1] == "__init__":
            parts = parts[:-1]
        return ".".join([PKG, *parts])


def _deco_name(d: ast.expr) -> str:
    t = d.func if isinstance(d, ast.Call) else d
    if isinstance(t, ast.Attribute):
        return t.attr
    return getattr(t, "id", "?")


class Repo:
    def __init__(self, root: Path | None = None) -> None:
        self.root = Path(root) if root else repo_root()
        self.src = self.root / "src" / PKG
        if not self.src.is_dir():
            raise AnalysisError(f"source directory {self.src} not found")
        self.modules: dict[str, ModuleInfo] = {}
        self.parents: dict[int, ast.AST] = {}
        for p in sorted(self.src.rglob("*.py")):
            rel = p.relative_to(self.src).as_posix()
            text = p.read_text(encoding="utf-8")
            try:
                tree = ast.parse(text, filename=str(p))
            except SyntaxError as e:  # the build is broken: not a property violation, not a pass
                raise AnalysisError(f"cannot parse {rel}: {e}") from e
            mi = ModuleInfo(rel=rel, path=p, tree=tree, text=text)
            self._index(mi)
            self.modules[rel] = mi
        self._resolve_reexports()

    # ------------------------------------------------------------------ indexing
    def _index(self, mi: ModuleInfo) -> None:
        for node in ast.walk(mi.tree):
            for ch in ast.iter_child_nodes(node):
                self.parents[id(ch)] = node
        pkg_parts = mi.dotted.split(".")
        is_pkg = mi.rel.endswith("__init__.py")
        for node in ast.walk(mi.tree):
            if isinstance(node, ast.Import):
                for a in node.names:
                    local = a.asname or a.name.split(".")[0]
                    mi.imports[local] = (a.name if a.asname else a.name.split(".")[0], None)
            elif isinstance(node, ast.ImportFrom):
                if node.level:
                    base = pkg_parts if is_pkg else pkg_parts[:-1]
                    base = base[: len(base) - (node.level - 1)]
                    mod = ".".join(base + ([node.module] if node.module else []))
                else:
                    mod = node.module or ""
                for a in node.names:
                    mi.imports[a.asname or a.name] = (mod, a.name)
        for node in mi.tree.body:
            if isinstance(node, ast.FunctionDef):
                fi = FuncInfo(mi.rel, node.name, node, None, tuple(_deco_name(d) for d in node.decorator_list))
                mi.functions[fi.qualname] = fi
            elif isinstance(node, ast.ClassDef):
                self._index_class(mi, node, prefix="")
            elif isinstance(node, ast.Assign) and len(node.targets) == 1 and isinstance(node.targets[0], ast.Name):
                mi.constants[node.targets[0].id] = node.value
            elif isinstance(node, ast.AnnAssign) and isinstance(node.target, ast.Name) and node.value is not None:
                mi.constants[node.target.id] = node.value

    def _index_class(self, mi: ModuleInfo, node: ast.ClassDef, prefix: str) -> None:
        bases = tuple(ast.unparse(b) for b in node.bases)
        ci = ClassInfo(mi.rel, prefix + node.name, node, bases, tuple(node.decorator_list))
        for st in node.body:
            if isinstance(st, ast.FunctionDef):
                fi = FuncInfo(
                    mi.rel,
                    f"{ci.name}.{st.name}",
                    st,
                    ci.name,
                    tuple(_deco_name(d) for d in st.decorator_list),
                )
                ci.methods[st.name] = fi
                mi.functions[fi.qualname] = fi
            elif isinstance(st, ast.AnnAssign) and isinstance(st.target, ast.Name):
                ann = ast.unparse(st.annotation)
                kws: dict[str, ast.expr] = {}
                default = st.value
                if isinstance(default, ast.Call) and _deco_name(default) == "field":
                    kws = {k.arg: k.value for k in default.keywords if k.arg}
                    default = kws.get("default")
                ci.fields.append((st.target.id, ann, default, kws))
            elif isinstance(st, ast.ClassDef):
                self._index_class(mi, st, prefix=ci.name + ".")
        mi.classes[ci.name] = ci

    def _resolve_reexports(self) -> None:
        """Map dotted module names to ModuleInfo for import resolution."""
        self.by_dotted: dict[str, ModuleInfo] = {m.dotted: m for m in self.modules.values()}

    # ------------------------------------------------------------------ lookups
    def module(self, rel: str) -> ModuleInfo:
        if rel not in self.modules:
            raise AnalysisError(f"anchor module vanished: {rel}")
        return self.modules[rel]

    def function(self, rel: str, qualname: str) -> FuncInfo:
        m = self.module(rel)
        if qualname not in m.functions:
            raise AnalysisError(f"anchor function vanished: {rel}::{qualname}")
        return m.functions[qualname]

    def maybe_function(self, rel: str, qualname: str) -> FuncInfo | None:
        m = self.modules.get(rel)
        return m.functions.get(qualname) if m else None

    def cls(self, rel: str, name: str) -> ClassInfo:
        m = self.module(rel)
        if name not in m.classes:
            raise AnalysisError(f"anchor class vanished: {rel}::{name}")
        return m.classes[name]

    def all_functions(self) -> list[FuncInfo]:
        return [f for m in self.modules.values() for f in m.functions.values()]

    def resolve_symbol(self, mi: ModuleInfo, name: str, _depth: int = 0) -> tuple[ModuleInfo, str] | None:
        """Resolve a bare name used in ``mi`` to (defining module, symbol) inside the package, following re-exports."""
        if name in mi.functions or name in mi.classes or name in mi.constants:
            return mi, name
        if name in mi.imports and _depth < 6:
            mod, sym = mi.imports[name]
            if sym is None:
                return None
            target = self.by_dotted.get(mod)
            if target is None:
                # maybe "from pkg import submodule"
                return None
            return self.resolve_symbol(target, sym, _depth + 1)
        return None

    def parent(self, node: ast.AST) -> ast.AST | None:
        return self.parents.get(id(node))

    def enclosing_function(self, mi: ModuleInfo, node: ast.AST) -> FuncInfo | None:
        cur = self.parent(node)
        chain = []
        while cur is not None:
            if isinstance(cur, (ast.FunctionDef, ast.ClassDef)):
                chain.append(cur)
            cur = self.parent(cur)
        # outermost function inside classes
        funcs = [c for c in chain if isinstance(c, ast.FunctionDef)]
        if not funcs:
            return None
        outer = funcs[-1]
        for fi in mi.functions.values():
            if fi.node is outer:
                return fi
        return None

    def loc(self, mi_or_rel: ModuleInfo | str, node: ast.AST | None) -> str:
        rel = mi_or_rel if isinstance(mi_or_rel, str) else mi_or_rel.rel
        ln = getattr(node, "lineno", 0) if node is not None else 0
        return f"src/{PKG}/{rel}:{ln}"

    def digest(self) -> str:
        h = hashlib.sha256()
        for rel in sorted(self.modules):
            h.update(rel.encode())
            h.update(self.modules[rel].text.encode())
        return h.hexdigest()


def norm(node: ast.AST) -> str:
    """Normalised source of a construct (formatting/comment independent)."""
    return ast.unparse(node)


def const_str_set(node: ast.expr) -> set[str] | None:
    """Value of a literal set/tuple/list of string constants."""
    if isinstance(node, (ast.Set, ast.Tuple, ast.List)):
        out = set()
        for e in node.elts:
            if isinstance(e, ast.Constant) and isinstance(e.value, str):
                out.add(e.value)
            else:
                return None
        return out
    return None
