"""C01 — every analysable package is processed to completion under every option set.

Totality over all programs is undecidable; what is decided is that the tool's own failure sites are unreachable
under a finite class-set semantics (library model of the installed mypy) - which is how this code base fails.
"""
from __future__ import annotations

import ast
import re

from ..core.absint import AV, Alt, App, Const, DictV, ListV, Obj, Outcome, State, StrT, Sym, walk_av
from ..core.ctx import API_MOD, CLI, DOCHELPERS, DOCPARSER, ENUMS, GEN, GENSTUBS, GETAPI, GHELPER, HELPERS, TYPES_MOD, VISITOR, WALKER, Ctx
from ..core.libmodel import ASSIGNMENT_TARGET_CLASSES
from ..core.mypyfacts import MypyFacts
from ..core.report import Collector
from ..core.source import AnalysisError, FuncInfo
from .lengths import Lengths
from .common import GENCLS, find_loops, fmt_facts, gen_state, mentions, new_effects, render, run_body, sym_is
from .visitor_model import STACK, VCLS, child_selection, elem_obj, parent_obj, possible_parents, visitor_state

# codes that mean "this statement fails at run time if the library's own types are right" (arg-type etc. do not)
LIB_CODES = {"attr-defined", "union-attr", "comparison-overlap", "call-arg", "index", "operator", "name-defined", "call-overload", "has-type"}


def expr_classes(ctx: Ctx) -> list[str]:
    skip = {"Expression", "RefExpr", "TypeVarLikeExpr", "FakeExpression", "TempNode", "PromoteExpr", "RevealExpr", "AssertTypeExpr", "TypeFormExpr"}
    return [c for c in ctx.lib.subclasses("Expression") if c not in skip]


def check(ctx: Ctx, col: Collector, tier: str) -> None:
    repo = ctx.repo
    col.spec("C01.LIBAPI", "no attribute, call or comparison in the tool's code is rejected by the installed libraries' own type information",
             "mypy (the repository's own dependency) diagnostics restricted to repository files + inventory of silenced diagnostics", floor=2)
    col.spec("C01.DISPATCH", "no dispatcher over mypy node / type classes can receive a class it raises on", "partitioned abstract interpretation: failing input partition vs. class sets at the call sites", floor=17)
    col.spec("C01.STACK", "every handler accepts every declaration the walker can put below it; pushes and pops balance", "stack-shape analysis of the enter_/leave_ handlers", floor=11)
    col.spec("C01.TABLE", "closed tables cannot miss: every type kind the pipeline can produce is rendered; literal dict lookups have covered keys", "producer set vs. branches; key domains", floor=16)
    col.spec("C01.RAISE-INVENTORY", "every raise/assert reachable from the CLI is the documented rejection, provably unreachable, or guarded by the invariant named next to it",
             "inventory of raise and assert statements with their dominating conditions", floor=36)
    col.spec("C01.PARTIAL-OPS", "constant-index subscripts, pops and unpackings cannot fail", "inventory of partial operations with the fact that makes each safe", floor=78)
    col.spec("C01.FS-TOLERANT", "writing the outputs cannot fail on an existing output directory, on non-ASCII text or on a special float: directories are created with "
             "parents=True / exist_ok=True, files are opened for writing in w/a mode with an explicit UTF-8 encoding, JSON serialisation is not put in a strict mode",
             "inventory of mkdir / touch / open / json.dump call sites and their keyword constants", floor=9)
    col.spec("C01.PATH-ARITH", "path values are derived with pathlib operations only, so that relative_to() between a derived path and its base cannot fail",
             "inventory of relative_to() call sites and of paths re-assembled from their parts", floor=1)
    col.spec("C01.IMPORT-SOURCE", "every named type the analyser builds has a non-empty qualified name, so the stub generator's import bookkeeping cannot reject it",
             "inventory of NamedType / NamedSequenceType constructor calls; constant, guarded or library-guaranteed qname argument", floor=25)
    col.spec("C01.TERM", "the run terminates: loops have a variant, recursion descends", "syntactic variant of every while loop; structural descent of self-recursive calls", floor=50)

    # ------------------------------------------------------------------ LIBAPI
    mf = MypyFacts(repo)
    col.trust("mypy (the repository's own dependency) diagnostics and expression types")
    errs = [e for e in mf.repo_errors() if e[2] in LIB_CODES]
    for rel, line, code, msg in errs:
        mi = repo.modules.get(rel)
        fn = "?"
        if mi:
            for fi in mi.functions.values():
                if fi.node.lineno <= line <= (fi.node.end_lineno or 0):
                    fn = fi.qualname
        m = re.search(r'"([^"]+)" has no attribute "([^"]+)"', msg)
        desc = f"{m.group(1)}.{m.group(2)}" if m else re.sub(r"\s+", " ", msg)[:60]
        col.bad("C01.LIBAPI", f"{rel}::{fn}::{code}::{desc}", f"src/safeds_stubgen/{rel}:{line}", msg[:200],
                f"{fn}: {msg[:160]} - the statement fails at run time with the installed library version")
    # diagnostics the authors silenced are statements the library's types reject: each needs a reason why it cannot fail
    for rel, mi in repo.modules.items():
        for ln, line in enumerate(mi.text.splitlines(), 1):
            m = re.search(r"#\s*type:\s*ignore(\[([^\]]*)\])?", line)
            if not m:
                continue
            codes = {c.strip() for c in (m.group(2) or "any").split(",")}
            if m.group(2) and not codes & LIB_CODES:
                continue
            fn = next((fi.qualname for fi in mi.functions.values() if fi.node.lineno <= ln <= (fi.node.end_lineno or 0)), "?")
            stmt = re.sub(r"\s+", " ", line.split("#")[0]).strip()
            key = f"{rel}::{fn}::silenced::{sorted(codes)[0]}::{stmt[:60]}"
            why = SILENCED.get((rel, fn, sorted(codes)[0]))
            if why:
                col.ok("C01.LIBAPI", key, f"src/safeds_stubgen/{rel}:{ln}", f"`{stmt[:70]}` silences {sorted(codes)}: {why}")
            else:
                col.bad("C01.LIBAPI", key, f"src/safeds_stubgen/{rel}:{ln}", f"`{stmt[:70]}` silences {sorted(codes)}",
                        f"{fn}: `{stmt[:60]}` silences a mypy diagnostic {sorted(codes)} that means the statement can fail at run time; no reason is recorded why it cannot")
    # documented failures of the docstring library's entry point
    from ..core.libmodel import documented_raises
    doc_raises = documented_raises("_griffe/loader.py", "GriffeLoader.load")
    if not doc_raises:
        raise AnalysisError("griffe's GriffeLoader.load documents no exceptions any more; re-triage the load call")
    bases_of = {"ModuleNotFoundError": {"ImportError", "Exception", "BaseException"}, "LoadingError": {"GriffeError", "Exception", "BaseException"}}
    dmi = repo.module(DOCPARSER)
    nload = 0
    for fi in dmi.functions.values():
        for n in ast.walk(fi.node):
            if isinstance(n, ast.Call) and isinstance(n.func, ast.Name) and n.func.id == "load" and dmi.imports.get("load", ("", None))[0].startswith("griffe"):
                nload += 1
                col.touched(fi)
                caught: set[str] = set()
                cur, prev = repo.parent(n), n
                while cur is not None and cur is not fi.node:
                    if isinstance(cur, ast.Try) and any(prev is x for x in cur.body):
                        for h in cur.handlers:
                            caught |= {"BaseException"} if h.type is None else {x.id if isinstance(x, ast.Name) else x.attr for x in ast.walk(h.type) if isinstance(x, (ast.Name, ast.Attribute))}
                    prev, cur = cur, repo.parent(cur)
                uncaught = [e for e in doc_raises if e not in caught and not (bases_of.get(e, set()) & caught)]
                key = f"{DOCPARSER}::{fi.qualname}::griffe-load::documented-failures"
                if uncaught:
                    col.bad("C01.LIBAPI", key, repo.loc(DOCPARSER, n), f"griffe documents {doc_raises} for load(); handled here: {sorted(caught) or 'none'}",
                            f"{fi.qualname}: griffe's load() is documented to raise {uncaught} when it cannot find or load the package (e.g. a source directory without __init__.py whose name "
                            f"contains a dot, `mylib-1.0/`), and nothing handles it: the run aborts with that error under --docstyle google|numpydoc|rest")
                else:
                    col.ok("C01.LIBAPI", key, repo.loc(DOCPARSER, n), f"the documented failures {doc_raises} of griffe's load() are handled ({sorted(caught)})")
    if nload != 1:
        raise AnalysisError(f"{nload} calls of griffe's load() found in the docstring parser, 1 expected")
    # attribute chains on receivers mypy cannot type (values narrowed with hasattr/getattr are Any): the library model says which attributes of
    # mypy's node classes are declared Optional; dereferencing such an attribute needs a guard that mypy's own diagnostics cannot ask for
    opt_attrs = {a for c in ctx.lib.classes.values() for a, ann in c.attrs.items() if ann and "None" in ann} & {"type", "node", "info", "impl", "analyzed", "expr", "alias_node", "def_var"}
    for rel, mi in repo.modules.items():
        if not rel.startswith("api_analyzer/"):
            continue
        for fi in mi.functions.values():
            la = None
            for x in ast.walk(fi.node):
                if not (isinstance(x, ast.Attribute) and isinstance(x.value, ast.Attribute) and x.value.attr in opt_attrs):
                    continue
                t = mf.type_of(rel, x.value)
                if t not in (None, "Any"):
                    continue
                la = la or Lengths(repo, mi, fi, mf)
                recv = ast.unparse(x.value)
                owner = ast.unparse(x.value.value)
                guard = None
                for cond, truth, line in la.dominating(x):
                    for c in ast.walk(cond):
                        ct = ast.unparse(c)
                        if truth and ct in (f"{recv} is not None", f"getattr({owner}, '{x.value.attr}', None) is not None", recv):
                            guard = f"`{ct}` (line {line})"
                        if truth and isinstance(c, ast.Call) and getattr(c.func, "id", "") == "isinstance" and c.args and ast.unparse(c.args[0]) == recv:
                            guard = f"`{ct[:50]}` (line {line})"
                        if truth and isinstance(c, ast.Call) and getattr(c.func, "id", "") == "getattr" and len(c.args) == 3 and ast.unparse(c.args[0]) == recv \
                                and isinstance(c.args[2], ast.Constant) and not c.args[2].value:
                            guard = f"`{ct[:50]}` is truthy, so {recv} is an object (line {line})"
                        if not truth and ct in (f"{recv} is None", f"not {recv}"):
                            guard = f"failure of `{ct}` (line {line})"
                key = f"{rel}::{fi.qualname}::optional-attribute::{ast.unparse(x)[:60]}"
                if guard:
                    col.ok("C01.LIBAPI", key, repo.loc(rel, x), f"`{recv}` (declared Optional in mypy's node classes, untyped here) is guarded by {guard}")
                else:
                    col.bad("C01.LIBAPI", key, repo.loc(rel, x), f"`{ast.unparse(x)[:70]}`: `{recv}` is untyped here; mypy declares `{x.value.attr}` Optional ({sorted(c.name for c in ctx.lib.classes.values() if 'None' in (c.attrs.get(x.value.attr) or ''))[:3]})",
                            f"{fi.qualname}: `{ast.unparse(x)[:60]}` reads `.{x.attr}` of `{recv}`, which mypy leaves None in some trees (e.g. Var.type of the receiver in a method mypy does not analyse: "
                            f"`def __enter__(self): return self` after a module-level platform guard or below @no_type_check) - AttributeError: 'NoneType' object has no attribute '{x.attr}'")
    col.ok("C01.LIBAPI", "package::mypy-diagnostics", "src/safeds_stubgen", f"mypy reports {len(mf.errors)} diagnostics in total, {len(errs)} in repository files with codes {sorted(LIB_CODES)}", nontrivial=True)

    # ------------------------------------------------------------------ DISPATCH
    exprs = expr_classes(ctx)
    # (a) expression -> type helper: failing partition
    efi = repo.function(HELPERS, "mypy_expression_to_sds_type")
    col.touched(efi)
    ep = efi.params()[0]
    failing = []
    for k in exprs:
        outs = ctx.interp(efi).run_function(efi, {ep: Sym("expr", k)})
        if any(o.kind == "raise" for o in outs):
            failing.append(k)
    fail_set = set(failing)
    col.extra["mypy_expression_to_sds_type_failing_classes"] = failing

    def report_dispatch(key: str, site, desc: str, reach: set[str], via: str) -> None:
        bad = sorted(reach & fail_set)
        if bad:
            col.bad("C01.DISPATCH", key, site, f"{desc}: classes reaching the raise: {bad[:12]}{'…' if len(bad) > 12 else ''}",
                    f"{via} passes expressions of class {bad[0]} (and {len(bad) - 1} more) to mypy_expression_to_sds_type, which raises TypeError for them: the run aborts")
        else:
            col.ok("C01.DISPATCH", key, site, f"{desc}: every class that can arrive ({len(reach)}) is handled")

    # call site 1: return statements
    ifi = repo.function(VISITOR, f"{VCLS}._infer_type_from_return_stmts")
    col.touched(ifi)
    iit = ctx.interp(ifi)
    iit.run_function(ifi, {"func_node": Sym("func_node")})
    rl = find_loops(iit, ifi, lambda v: isinstance(v, App) and v.func == "find_return_stmts_recursive")
    if len(rl) != 1:
        raise AnalysisError("loop over return statements not found")
    node, itv, el, entry = rl[0]
    reach_ret, reach_cond = set(), set()
    for k in exprs:
        ret = Obj("ReturnStmt", (("expr", Sym("rexpr", k)),))
        for o in run_body(iit, node, entry.clone(), ret):
            for e in new_effects(o, entry):
                if e.kind == "call" and e.target == "mypy_expression_to_sds_type" and e.args:
                    a = e.args[0]
                    if a == Sym("rexpr", k):
                        reach_ret.add(k)
                    elif isinstance(a, Sym) and a.path.startswith("rexpr."):
                        # branch of a conditional expression: class restricted only by the guards on this path
                        excluded = set()
                        for fk, fv in e.conds:
                            if fk.startswith(f"isinstance({a!r},") and fv is False:
                                excluded |= set(fk[fk.rindex(",") + 1:-1].split("|"))
                        reach_cond |= {c for c in exprs if c not in excluded}
    # recursion inside the helper widens the set: TupleExpr items and UnaryExpr operands are arbitrary expressions
    def closure(reach: set[str]) -> set[str]:
        if reach & {"TupleExpr", "UnaryExpr"}:
            return set(exprs)
        return reach
    report_dispatch(f"{VISITOR}::{VCLS}._infer_type_from_return_stmts::return-expr", repo.loc(VISITOR, node), "returned expression", closure(reach_ret), "return-type inference")
    report_dispatch(f"{VISITOR}::{VCLS}._infer_type_from_return_stmts::conditional-branch", repo.loc(VISITOR, node), "branch of a returned conditional expression", closure(reach_cond), "return-type inference")
    # call site 2: default values
    pfi = repo.function(VISITOR, f"{VCLS}._parse_parameter_data")
    col.touched(pfi)
    vfi = repo.function(VISITOR, f"{VCLS}._get_parameter_type_and_default_value")
    reach_def = set()
    for k in exprs:
        init = Obj(k, (("value", Sym("v", {"IntExpr": "int", "FloatExpr": "float", "StrExpr": "str"}.get(k))), ("name", Sym("init.name")), ("expr", Sym("operand")), ("op", Sym("op")))) \
            if k in ("IntExpr", "FloatExpr", "StrExpr") else Obj(k, (("name", Sym("init.name")), ("expr", Sym("operand")), ("op", Sym("op"))))
        vit = ctx.interp(vfi, inline={"mypy_expression_to_python_value"})
        outs = vit.run_function(vfi, {"self": Sym("self"), "initializer": init, "function_id": Sym("fid")})
        for o in outs:
            if o.kind == "return" and isinstance(o.value, ListV) and len(o.value.items) == 2:
                dv, isn = o.value.items
                if dv != Const(None) or isn == Const(True):
                    reach_def.add(k)
    report_dispatch(f"{VISITOR}::{VCLS}._parse_parameter_data::default-value", repo.loc(VISITOR, pfi.node), "initializer of an un-annotated parameter with a parsable default", closure(reach_def), "parameter type inference")
    # (b) literal value helper
    lfi = repo.function(HELPERS, "mypy_expression_to_python_value")
    col.touched(lfi)
    lfail = set()
    for k in exprs:
        obj = Obj(k, (("name", Sym("n")), ("value", Sym("v"))))
        st = State({})
        outs = ctx.interp(lfi).run_function(lfi, {lfi.params()[0]: obj}, st)
        if any(o.kind == "raise" for o in outs) and k != "NameExpr":
            lfail.add(k)
    reach_lit = set()
    for k in exprs:
        init = Obj(k, (("name", Const("None")), ("value", Sym("v", "int")), ("expr", Sym("operand")), ("op", Sym("op"))))
        vit = ctx.interp(vfi)
        outs = vit.run_function(vfi, {"self": Sym("self"), "initializer": init, "function_id": Sym("fid")})
        if any(e.kind == "call" and e.target == "mypy_expression_to_python_value" for o in outs for e in o.effects):
            reach_lit.add(k)
    bad = sorted(reach_lit & lfail)
    (col.ok if not bad else col.bad)("C01.DISPATCH", f"{VISITOR}::{VCLS}._get_parameter_type_and_default_value::literal-helper", repo.loc(VISITOR, vfi.node),
                                     f"mypy_expression_to_python_value is called for {sorted(reach_lit)} only; it fails for {len(lfail)} other classes" if not bad else f"reaching classes it raises on: {bad}",
                                     *([] if not bad else [f"default values of class {bad[0]} reach mypy_expression_to_python_value, which raises TypeError"]))
    # NameExpr names other than None/True/False must not reach the literal helper
    init = Obj("NameExpr", (("name", Const("some_name")),))
    outs = ctx.interp(vfi).run_function(vfi, {"self": Sym("self"), "initializer": init, "function_id": Sym("fid")})
    good = not any(e.kind == "call" and e.target == "mypy_expression_to_python_value" for o in outs for e in o.effects) and not any(o.kind == "raise" for o in outs)
    (col.ok if good else col.bad)("C01.DISPATCH", f"{VISITOR}::{VCLS}._get_parameter_type_and_default_value::other-names", repo.loc(VISITOR, vfi.node),
                                  "a default that is a plain name is not handed to the literal helper" if good else "reaches the helper",
                                  *([] if good else ["a default value that is an arbitrary name reaches mypy_expression_to_python_value, which raises for it"]))
    # (c) the default-value walk itself must not raise for any class
    raising = []
    for k in exprs:
        variants = [Obj(k, (("name", Sym("init.name")), ("value", Sym("v")), ("expr", Sym("operand")), ("op", Sym("op"))))]
        if k in ("IntExpr", "FloatExpr", "StrExpr"):
            vt = ctx.lib.attr_type(k, "value") or ""
            variants = [Obj(k, (("value", Sym("v", vt if vt in ("int", "float", "str") else None)),))]
        if k == "NameExpr":
            variants = [Obj(k, (("name", Const(nm)),)) for nm in ("None", "True", "False", "some_name")]
        for init in variants:
            outs = ctx.interp(vfi, inline={"mypy_expression_to_python_value"}).run_function(vfi, {"self": Sym("self"), "initializer": init, "function_id": Sym("fid")})
            if any(o.kind == "raise" for o in outs):
                raising.append(k)
    (col.ok if not raising else col.bad)("C01.DISPATCH", f"{VISITOR}::{VCLS}._get_parameter_type_and_default_value::total", repo.loc(VISITOR, vfi.node),
                                         f"no raise for any of the {len(exprs)} expression classes (literal classes with the value type the library declares)" if not raising else f"raises for {raising}",
                                         *([] if not raising else [f"_get_parameter_type_and_default_value raises for default values of class {raising[0]}"]))
    # (d) argument kinds, variance
    afi = repo.function(HELPERS, "get_argument_kind")
    col.touched(afi)
    raising = []
    for kind in sorted(ctx.repo_enums.get("ArgKind", ())):
        for po in (True, False):
            arg = Obj("Argument", (("kind", __import__("sa.core.absint", fromlist=["EnumM"]).EnumM("ArgKind", kind)), ("pos_only", Const(po)),
                                   ("variable", Obj("Var", (("is_self", Const(False)), ("is_cls", Const(False)))))))
            if any(o.kind == "raise" for o in ctx.interp(afi).run_function(afi, {afi.params()[0]: arg})):
                raising.append((kind, po))
    (col.ok if not raising else col.bad)("C01.DISPATCH", f"{HELPERS}::get_argument_kind::total", repo.loc(HELPERS, afi.node), "total over ArgKind x pos_only" if not raising else f"{raising}",
                                         *([] if not raising else [f"get_argument_kind raises for {raising[0]}"]))
    # (e) assignment targets
    asfi = repo.function(VISITOR, f"{VCLS}.enter_assignmentstmt")
    col.touched(asfi)
    pafi = repo.function(VISITOR, f"{VCLS}._parse_attributes")
    for p, grand in (("Class", None), ("Constructor", "Class")):
        bad_t = []
        for tcls in ASSIGNMENT_TARGET_CLASSES:
            stack = (parent_obj("Module"),) + ((parent_obj(grand),) if grand else ()) + (parent_obj(p),)
            lv = Sym("lv", tcls)
            node_o = Obj("AssignmentStmt", (("lvalues", ListV((lv,))), ("unanalyzed_type", Sym("node.unanalyzed_type"))))
            it = ctx.interp(asfi, inline={"_parse_attributes"})
            it.summaries[("self._is_attribute_already_defined", (Sym("lv.name"),))] = Const(False)
            outs = it.run_function(asfi, {"self": Sym("self"), "node": node_o}, visitor_state(stack))
            if any(o.kind == "raise" for o in outs):
                bad_t.append((tcls, sorted({o.exc for o in outs if o.kind == "raise"})))
        key = f"{VISITOR}::{VCLS}.enter_assignmentstmt::targets::parent={p}"
        if bad_t:
            col.bad("C01.DISPATCH", key, repo.loc(VISITOR, asfi.node), f"raising target classes: {bad_t}",
                    f"an assignment below a {p} whose target is a {bad_t[0][0]} ({ASSIGNMENT_TARGET_CLASSES[bad_t[0][0]]}) raises {bad_t[0][1][0]} while attributes are collected")
        else:
            col.ok("C01.DISPATCH", key, repo.loc(VISITOR, asfi.node), f"all {len(ASSIGNMENT_TARGET_CLASSES)} assignment-target classes are handled or skipped")
    # tuple targets: items without a name
    pit = ctx.interp(pafi)
    st = visitor_state((parent_obj("Module"), parent_obj("Class")))
    bad_items = []
    for icls in ASSIGNMENT_TARGET_CLASSES:
        lv = Obj("TupleExpr", (("items", ListV((Sym("item", icls),))),))
        it = ctx.interp(pafi)
        it.summaries[("self._is_attribute_already_defined", (Sym("item.name"),))] = Const(False)
        outs = it.run_function(pafi, {"self": Sym("self"), "lvalue": lv, "unanalyzed_type": Sym("ut"), "is_static": Const(True)}, st)
        if any(o.kind == "raise" for o in outs):
            bad_items.append(icls)
    key = f"{VISITOR}::{VCLS}._parse_attributes::tuple-items"
    if bad_items:
        col.bad("C01.DISPATCH", key, repo.loc(VISITOR, pafi.node), f"item classes that raise: {bad_items}",
                f"a tuple assignment target with an item of class {bad_items[0]} ({ASSIGNMENT_TARGET_CLASSES[bad_items[0]]}) raises AttributeError while attributes are collected")
    else:
        col.ok("C01.DISPATCH", key, repo.loc(VISITOR, pafi.node), "items of tuple targets without a name are skipped")
    # (f) generic base classes
    cfi = repo.function(VISITOR, f"{VCLS}.enter_classdef")
    col.touched(cfi)
    variances = variance_constants()
    col.extra["mypy_variance_constants"] = variances
    probs = []
    vprobs = []
    for idx_cls in ("NameExpr", "TupleExpr", "IndexExpr", "MemberExpr", "StrExpr"):
        for node_cls in ("TypeVarExpr", "TypeInfo", "Var", "TypeAlias", "ParamSpecExpr"):
            for vname, vval in (variances.items() if node_cls == "TypeVarExpr" else [("-", None)]):
                gfields = (("variance", Const(vval)),) if vval is not None else ()
                gnode = Obj(node_cls, gfields + (("values", ListV(())), ("upper_bound", Sym("ub")), ("name", Sym("gname")))) if node_cls == "TypeVarExpr" else Sym("gnode", node_cls)
                base = Obj("IndexExpr", (("base", Obj("NameExpr", (("name", Const("Sequence")),))),
                                         ("index", Obj(idx_cls, (("node", gnode), ("items", ListV((Obj("NameExpr", (("node", gnode),)),))))))))
                nd = Obj("ClassDef", (("name", Sym("node.name")), ("fullname", Sym("node.fullname")), ("removed_base_type_exprs", ListV(())), ("base_type_exprs", ListV((base,))),
                                      ("defs", Obj("Block", (("body", ListV(())),)))))
                it = ctx.interp(cfi, inline={"mypy_variance_parser"})
                outs = it.run_function(cfi, {"self": Sym("self"), "node": nd}, visitor_state((parent_obj("Module"),)))
                rs = sorted({(o.exc, getattr(o.node, "lineno", 0)) for o in outs if o.kind == "raise"})
                reads_variance = any(any(isinstance(x, Sym) and x.path == "gnode.variance" for x in walk_av(a)) for o in outs for e in o.effects for a in e.args) or any(
                    "gnode.variance" in k for o in outs for k, v in o.facts)
                if node_cls == "TypeVarExpr":
                    if rs:
                        vprobs.append((idx_cls, vname, rs[0][0]))
                elif rs:
                    probs.append((idx_cls, node_cls, rs[0][0]))
                elif reads_variance and ctx.lib.has_attr(node_cls, "values") is False:
                    probs.append((idx_cls, node_cls, "AttributeError: no attribute 'variance'/'values'"))
    key = f"{VISITOR}::{VCLS}.enter_classdef::generic-base::index-forms"
    if probs:
        col.bad("C01.DISPATCH", key, repo.loc(VISITOR, cfi.node), f"{probs[:4]}",
                f"a base class written Sequence[...]/Collection[...]/Generic[...] whose index is a {probs[0][0]} referring to a {probs[0][1]} leads to {probs[0][2]}: "
                f"e.g. `class Ints(Sequence[int])` aborts the run")
    else:
        col.ok("C01.DISPATCH", key, repo.loc(VISITOR, cfi.node), "only type variables are read as type parameters; other index forms and referents are ignored (20 index x referent combinations)")
    for vname in variances:
        bad = sorted({(i, e) for i, v, e in vprobs if v == vname})
        key = f"{VISITOR}::{VCLS}.enter_classdef::generic-base::variance={vname}"
        if bad:
            col.bad("C01.DISPATCH", key, repo.loc(VISITOR, cfi.node), f"type variable with variance {vname}: {bad[0][1]}",
                    f"a type variable whose variance is {vname} (mypy.nodes.{vname} = {variances[vname]}) in a Sequence/Collection/Generic base raises {bad[0][1]} in mypy_variance_parser: the run aborts")
        else:
            col.ok("C01.DISPATCH", key, repo.loc(VISITOR, cfi.node), f"type variables of variance {vname} are converted")
    # (f2) superclass names: an expression without fullname must not put an empty name into the model
    cit2 = ctx.interp(cfi)
    nd = Obj("ClassDef", (("name", Sym("node.name")), ("fullname", Sym("node.fullname")), ("removed_base_type_exprs", ListV(())), ("base_type_exprs", Sym("node.base_type_exprs")),
                          ("defs", Obj("Block", (("body", ListV(())),)))))
    cit2.run_function(cfi, {"self": Sym("self"), "node": nd}, visitor_state((parent_obj("Module"),)))
    sl = [x for x in find_loops(cit2, cfi, lambda v: sym_is(v, "node.base_type_exprs")) if any(isinstance(n, ast.Call) and ast.unparse(n.func) == "superclasses.append" for n in ast.walk(x[0]))]
    if len(sl) != 1:
        raise AnalysisError("superclass loop of enter_classdef not found")
    node, _, _, entry = sl[0]
    empties = []
    for cls in ("NameExpr", "MemberExpr"):
        el = Obj(cls, (("fullname", Const("")), ("name", Sym("sc.name")), ("expr", Sym("sc.expr")), ("node", Const(None))))
        for o in run_body(cit2, node, entry.clone(), el):
            for e in new_effects(o, entry):
                if e.kind == "mutate" and e.target == "superclasses.append" and e.args and e.args[0] == Const(""):
                    empties.append(cls)
    key = f"{VISITOR}::{VCLS}.enter_classdef::superclass-without-fullname"
    if empties:
        col.bad("C01.DISPATCH", key, repo.loc(VISITOR, node), f"an empty superclass name is recorded for {sorted(set(empties))}",
                f"a base class expression without a resolved fullname ({sorted(set(empties))[0]}, e.g. `class A(otherlib.Thing)` with otherlib not installed) is recorded as the empty name; "
                f"the stub generator raises ValueError('Type has no import source') for it")
    else:
        col.ok("C01.DISPATCH", key, repo.loc(VISITOR, node), "a base class expression whose fullname is empty is named by its dotted expression or skipped; the empty name is never recorded")
    # (g) alias table
    gfi = repo.function(GETAPI, "_get_aliases")
    col.touched(gfi)
    git = ctx.interp(gfi)
    git.run_function(gfi, {"result_types": Sym("result_types"), "package_name": Sym("package_name")})
    gl = [(n, *git.loops[id(n)][0]) for n in ast.walk(gfi.node) if isinstance(n, ast.For) and id(n) in git.loops]
    raising = []
    if gl:
        node, itv, el, entry = gl[0]
        type_classes = [c for c in ctx.lib.subclasses("ProperType") if c not in ("ProperType", "FunctionLike", "TypeVarLikeType")]
        for kcls in ("NameExpr", "MemberExpr", "TypeVarExpr"):
            for tcls in type_classes:
                e = entry.clone()
                e.env["result_types"] = DictV(((Sym("key", kcls), Sym("tv", tcls)),))
                for o in run_body(git, node, e, Sym("key", kcls)):
                    if o.kind == "raise":
                        raising.append((kcls, tcls, o.exc))
    key = f"{GETAPI}::_get_aliases::value-types"
    if raising:
        ks = sorted({(a, b) for a, b, _ in raising})
        col.bad("C01.DISPATCH", key, repo.loc(GETAPI, gfi.node), f"{len(ks)} (expression class, type class) pairs reach the raise, e.g. {ks[:4]}",
                f"an in-package {ks[0][0]} whose inferred type is a {ks[0][1]} (e.g. `config.VALUE` with `VALUE: int | None`) reaches `raise TypeError` in _get_aliases: the run aborts before any module is analysed")
    else:
        col.ok("C01.DISPATCH", key, repo.loc(GETAPI, gfi.node), "expressions whose type yields no alias are skipped")

    # ------------------------------------------------------------------ STACK
    sel = child_selection(ctx)
    parents = possible_parents(sel)
    for kind in ("classdef", "funcdef", "enumdef"):
        efi2 = repo.function(VISITOR, f"{VCLS}.enter_{kind}")
        col.touched(efi2)
        for p in parents[kind]:
            stack = ((parent_obj("Module"),) if p != "Module" else ()) + ((parent_obj("Class"),) if p == "Constructor" else ()) + (parent_obj(p),)
            it = ctx.interp(efi2, inline={"_is_public", "is_internal", "_create_id_from_stack"})
            st = visitor_state(stack)
            # enter_moduledef sets mypy_file before any declaration is entered
            st.env["self.mypy_file"] = Obj("MypyFile", (("fullname", Sym("mypy_file.fullname")), ("name", Sym("mypy_file.name"))))
            outs = it.run_function(efi2, {"self": Sym("self"), "node": Sym("node")}, st)
            rs = sorted({(o.exc, getattr(o.node, "lineno", 0)) for o in outs if o.kind == "raise"})
            key = f"{VISITOR}::{VCLS}.enter_{kind}::parent={p}"
            if rs and all(o.kind == "raise" for o in outs):
                col.bad("C01.STACK", key, repo.loc(VISITOR, efi2.node), f"every path raises {rs}",
                        f"the walker visits a {kind[:-3]} below a {p} (e.g. a method or nested class of an Enum), but enter_{kind} raises {rs[0][0]} for that parent: the run aborts")
            elif rs:
                col.bad("C01.STACK", key, repo.loc(VISITOR, efi2.node), f"some paths raise {rs}", f"enter_{kind} can raise {rs[0][0]} below a {p}")
            else:
                pushes = {sum(1 for e in o.effects if e.kind == "mutate" and e.target == f"{STACK}.append") for o in outs}
                (col.ok if pushes == {1} else col.bad)("C01.STACK", key, repo.loc(VISITOR, efi2.node), f"no raise; pushes per path {sorted(pushes)}",
                                                        *([] if pushes == {1} else [f"enter_{kind} does not push exactly one element on every path (push/pop imbalance raises AssertionError later)"]))
    for kind in ("moduledef", "classdef", "funcdef", "enumdef", "assignmentstmt"):
        lfi2 = repo.function(VISITOR, f"{VCLS}.leave_{kind}")
        col.touched(lfi2)
        pops = set()
        top = {"moduledef": Obj("Module", ()), "classdef": elem_obj("classdef"), "funcdef": elem_obj("funcdef"), "enumdef": elem_obj("enumdef"), "assignmentstmt": ListV(())}[kind]
        stack = (() if kind == "moduledef" else (parent_obj("Module"), parent_obj("Class"))) + (top,)
        outs = ctx.interp(lfi2).run_function(lfi2, {"self": Sym("self"), "_": Sym("node")}, visitor_state(stack))
        rs = [o.exc for o in outs if o.kind == "raise"]
        pops = {sum(1 for e in o.effects if e.kind == "mutate" and e.target == f"{STACK}.pop") for o in outs}
        key = f"{VISITOR}::{VCLS}.leave_{kind}::pop-balance"
        (col.ok if not rs and pops == {1} else col.bad)("C01.STACK", key, repo.loc(VISITOR, lfi2.node), f"pops exactly the element its enter handler pushed (raises {rs}, pops {sorted(pops)})",
                                                        *([] if not rs and pops == {1} else [f"leave_{kind} raises or does not pop exactly once for the element enter_{kind} pushed"]))

    # the walker decides twice whether a class is an enum: which handlers it calls (__get_callbacks) and which children it visits (__walk).
    # A class that is an enum for one and not for the other gets its methods walked below an Enum object, which enter_funcdef rejects.
    wm = repo.module(WALKER)
    gcf = wm.functions.get("ASTWalker.__get_callbacks")
    wkf = wm.functions.get("ASTWalker.__walk")
    if gcf is None or wkf is None:
        raise AnalysisError("walker anchors __get_callbacks / __walk vanished")

    def conjuncts(e: ast.expr) -> list[str]:
        parts = e.values if isinstance(e, ast.BoolOp) and isinstance(e.op, ast.And) else [e]
        return sorted(ast.unparse(x) for x in parts if not (isinstance(x, ast.Call) and getattr(x.func, "id", "") == "isinstance" and "ClassDef" in ast.unparse(x)))
    disp = [n.test for n in ast.walk(gcf.node) if isinstance(n, ast.If) and any(isinstance(x, ast.Assign) and isinstance(x.value, ast.Constant) and x.value.value == "enumdef" for x in n.body)]
    restr = [n.test for n in ast.walk(wkf.node) if isinstance(n, (ast.IfExp, ast.If)) and isinstance(getattr(n, "body", None), (ast.Set, list))
             and "AssignmentStmt" in ast.unparse(n.body if isinstance(n, ast.IfExp) else n.body[0]) and "FuncDef" not in ast.unparse(n.body if isinstance(n, ast.IfExp) else n.body[0])]
    if len(disp) != 1 or len(restr) != 1:
        raise AnalysisError(f"enum decisions of the walker not found (dispatch {len(disp)}, child restriction {len(restr)})")
    same = conjuncts(disp[0]) == conjuncts(restr[0])
    (col.ok if same else col.bad)("C01.STACK", f"{WALKER}::ASTWalker::enum-decision-agreement", repo.loc(WALKER, disp[0]),
                                  f"handlers and child selection use the same test {conjuncts(disp[0])}" if same else f"handlers: {conjuncts(disp[0])}; children: {conjuncts(restr[0])}",
                                  *([] if same else [f"the walker selects the enum handlers under `{ast.unparse(disp[0])[:70]}` but restricts the children of a class to assignments under `{ast.unparse(restr[0])[:50]}`: "
                                                     f"a class that is an enum for the first test only (e.g. `class Color(LabelledEnum)` with a method) has its methods visited below an Enum, for which enter_funcdef raises"]))

    # ------------------------------------------------------------------ TABLE
    produced: dict[str, list[str]] = {}
    for rel in (VISITOR, HELPERS, DOCPARSER, GEN, GETAPI):
        mi = repo.module(rel)
        for fi in mi.functions.values():
            for n in ast.walk(fi.node):
                if isinstance(n, ast.Attribute) and isinstance(n.value, ast.Name) and n.value.id == "sds_types" and n.attr in ctx.sds_type_classes:
                    par = repo.parent(n)
                    if isinstance(par, ast.Call) and par.func is n or isinstance(par, ast.Dict):
                        produced.setdefault(n.attr, []).append(f"{rel}:{n.lineno}")
                if isinstance(n, ast.Call) and isinstance(n.func, ast.Name) and n.func.id in ctx.sds_type_classes:
                    produced.setdefault(n.func.id, []).append(f"{rel}:{n.lineno}")
    tsfi = repo.function(GEN, f"{GENCLS}._create_type_string")
    col.touched(tsfi)
    for kind in sorted(ctx.sds_type_classes):
        st = gen_state()
        st.eq[repr(Sym("type_data['kind']"))] = Const(kind)
        st.neq[repr(Sym("type_data"))] = {Const(None)}
        outs = ctx.interp(tsfi).run_function(tsfi, {"self": Sym("self"), "type_data": Sym("type_data")}, st)
        raises = any(o.kind == "raise" for o in outs)
        key = f"{GEN}::{GENCLS}._create_type_string::kind={kind}"
        if kind in produced and raises:
            col.bad("C01.TABLE", key, repo.loc(GEN, tsfi.node), f"constructed at {produced[kind][:3]}; no branch renders it",
                    f"the pipeline constructs {kind} ({produced[kind][0]}) but _create_type_string raises ValueError('Unexpected type') for that kind")
        elif kind in produced:
            col.ok("C01.TABLE", key, repo.loc(GEN, tsfi.node), f"{kind}: constructed at {len(produced[kind])} site(s), rendered")
        else:
            col.ok("C01.TABLE", key, repo.loc(GEN, tsfi.node), f"{kind}: never constructed in the pipeline" + ("" if raises else ", rendered anyway"), nontrivial=False)
    # literal dict lookups with computed keys
    for rel in (VISITOR, GEN, GENSTUBS, GHELPER, HELPERS, GETAPI):
        mi = repo.module(rel)
        for fi in mi.functions.values():
            for n in ast.walk(fi.node):
                if isinstance(n, ast.Subscript) and isinstance(n.value, ast.Dict) and not isinstance(n.slice, ast.Constant):
                    keys = [k.value if isinstance(k, ast.Constant) else ast.unparse(k) for k in n.value.keys]
                    keysrc = ast.unparse(n.slice)
                    col.touched(fi)
                    key = f"{rel}::{fi.qualname}::dict-literal[{keysrc[:40]}]"
                    ok_reason = None
                    # enum member names
                    norm = [re.sub(r"^\w+\.(\w+)\.name$", r"\1", str(k)) for k in keys]
                    for en, members in ctx.repo_enums.items():
                        if set(norm) == set(members) and keysrc.endswith(".name"):
                            ok_reason = f"keys are exactly the members of {en}"
                    # dominating membership guard with the same literal keys
                    cur = repo.parent(n)
                    while cur is not None and cur is not fi.node and ok_reason is None:
                        if isinstance(cur, ast.If):
                            for c in ast.walk(cur.test):
                                if isinstance(c, ast.Compare) and isinstance(c.ops[0], ast.In) and ast.unparse(c.left) == keysrc and isinstance(c.comparators[0], (ast.Set, ast.Tuple, ast.List)):
                                    lits = {e.value for e in c.comparators[0].elts if isinstance(e, ast.Constant)}
                                    if lits <= set(keys):
                                        ok_reason = f"dominated by `{keysrc} in {sorted(lits)}`"
                        cur = repo.parent(cur)
                    # the marker table: checked by C20.MARKER-TABLE
                    if ok_reason is None and fi.name == "_create_todo_msg":
                        ok_reason = "marker table: every marker that can become pending is a key (C20.MARKER-TABLE)"
                    if ok_reason:
                        col.ok("C01.TABLE", key, repo.loc(rel, n), ok_reason)
                    else:
                        col.bad("C01.TABLE", key, repo.loc(rel, n), f"keys {keys[:6]}; subscript {keysrc}", f"{fi.qualname}: lookup in a literal table with a key that is not restricted to the table's keys (KeyError)")

    # ------------------------------------------------------------------ RAISE-INVENTORY
    nr = 0
    found: dict[tuple, list] = {}
    for rel, mi in repo.modules.items():
        for fi in mi.functions.values():
            for n in ast.walk(fi.node):
                if not isinstance(n, (ast.Raise, ast.Assert)):
                    continue
                nr += 1
                col.touched(fi)
                exc = "AssertionError" if isinstance(n, ast.Assert) else (ast.unparse(n.exc.func) if isinstance(n.exc, ast.Call) else ast.unparse(n.exc) if n.exc else "re-raise")
                conds = []
                cur, prev = repo.parent(n), n
                while cur is not None and cur is not fi.node:
                    if isinstance(cur, ast.If):
                        conds.append(("not " if prev in cur.orelse or any(prev is x for x in cur.orelse) else "") + ast.unparse(cur.test)[:70])
                    if isinstance(cur, ast.ExceptHandler):
                        conds.append(f"except {ast.unparse(cur.type) if cur.type else ''}")
                    prev, cur = cur, repo.parent(cur)
                guard = " and ".join(reversed(conds)) or ("assert " + ast.unparse(n.test)[:70] if isinstance(n, ast.Assert) else "unconditional at this point")
                key = f"{rel}::{fi.qualname}::{exc}::{re.sub(r'\\s+', ' ', guard)[:90]}"
                found.setdefault((rel, fi.qualname, exc), []).append((key, repo.loc(rel, n), guard))
    for (rel, qual, exc), sites in found.items():
        entry = RAISE_CLASSES.get((rel, qual, exc))
        witness = REACHABLE_RAISES.get((rel, qual, exc))
        for i, (key, loc, guard) in enumerate(sites):
            if witness:
                col.bad("C01.RAISE-INVENTORY", key, loc, f"{exc} under `{guard}`: reachable", f"{qual} raises {exc} (under `{guard[:60]}`) for ordinary input: {witness}")
            elif entry and i < entry[0] and entry[1] == "invariant:griffe-none-only-for-init":
                ok_inv, why = griffe_none_only_for_init(repo)
                if ok_inv:
                    col.ok("C01.RAISE-INVENTORY", key, loc, f"{exc} under `{guard}`: invariant: {why}")
                else:
                    col.bad("C01.RAISE-INVENTORY", key, loc, f"{exc} under `{guard}`: {why}", f"{qual} raises {exc} (under `{guard[:60]}`): {why}")
            elif entry and i < entry[0]:
                col.ok("C01.RAISE-INVENTORY", key, loc, f"{exc} under `{guard}`: {entry[1]}")
            elif entry:
                col.bad("C01.RAISE-INVENTORY", key, loc, f"{exc} under `{guard}`: {len(sites)} sites in {qual}, {entry[0]} triaged",
                        f"{qual} has a raise of {exc} (under `{guard[:80]}`) beyond the {entry[0]} triaged one(s); it is not the documented rejection and no rule of this check shows it unreachable")
            else:
                col.bad("C01.RAISE-INVENTORY", key, loc, f"{exc} under `{guard}`",
                        f"{qual} can raise {exc} (under `{guard[:80]}`); it is not the documented rejection and no rule of this check shows it unreachable")
    if nr < 25:
        raise AnalysisError(f"only {nr} raise/assert statements found")

    # ------------------------------------------------------------------ PARTIAL-OPS
    npo = 0
    seen_nodes: set[int] = set()
    for rel in (VISITOR, GEN, GENSTUBS, GHELPER, HELPERS, GETAPI, WALKER, DOCPARSER, CLI, API_MOD):
        mi = repo.module(rel)
        for fi in mi.functions.values():
            la = Lengths(repo, mi, fi, mf)
            for site in la.sites():
                if id(site.node) in seen_nodes:
                    continue
                seen_nodes.add(id(site.node))
                npo += 1
                col.touched(fi)
                key = f"{rel}::{fi.qualname}::{site.base[:50]}[{site.idx}]"
                if site.bound >= site.need:
                    col.ok("C01.PARTIAL-OPS", key, repo.loc(rel, site.node), f"len >= {site.bound} >= {site.need}: {site.reason}")
                    continue
                invs = LENGTH_INVARIANTS.get((rel, fi.qualname, site.base))
                invs = [invs] if isinstance(invs, tuple) else (invs or [])
                inv = next((x for x in invs if x[0] == site.need), None) or next((x for x in invs if x[0] >= site.need), None)
                if inv and inv[0] >= site.need:
                    ok_inv, why = check_invariant(ctx, inv[1], la, site)
                    if ok_inv:
                        col.ok("C01.PARTIAL-OPS", key, repo.loc(rel, site.node), f"len >= {inv[0]}: {why}")
                        continue
                    col.bad("C01.PARTIAL-OPS", key, repo.loc(rel, site.node), f"`{ast.unparse(site.node)[:70]}`: {why}",
                            f"{fi.qualname}: `{ast.unparse(site.node)[:60]}` can raise IndexError: {why}")
                    continue
                col.bad("C01.PARTIAL-OPS", key, repo.loc(rel, site.node), f"`{ast.unparse(site.node)[:70]}` needs {site.need} element(s), proven {site.bound}" + (f" ({site.reason})" if site.reason else ""),
                        f"{fi.qualname}: `{ast.unparse(site.node)[:60]}` can raise IndexError: nothing on the path bounds the length of `{site.base[:40]}` to at least {site.need}")
    if npo < 20:
        raise AnalysisError(f"only {npo} constant-index subscripts found")

    # ------------------------------------------------------------------ FS-TOLERANT
    for rel, mi in repo.modules.items():
        for fi in mi.functions.values():
            for n in ast.walk(fi.node):
                if not isinstance(n, ast.Call):
                    continue
                fname = n.func.attr if isinstance(n.func, ast.Attribute) else (n.func.id if isinstance(n.func, ast.Name) else "")
                kws = {k.arg: k.value for k in n.keywords if k.arg}
                const = lambda name, kws=kws: (kws[name].value if name in kws and isinstance(kws[name], ast.Constant) else ("?" if name in kws else None))  # noqa: E731
                recv = ast.unparse(n.func.value)[:40] if isinstance(n.func, ast.Attribute) else ""
                key = f"{rel}::{fi.qualname}::{recv}.{fname}" if recv else f"{rel}::{fi.qualname}::{fname}"
                if fname == "mkdir":
                    col.touched(fi)
                    good = const("parents") is True and const("exist_ok") is True
                    (col.ok if good else col.bad)("C01.FS-TOLERANT", key, repo.loc(rel, n), f"mkdir(parents={const('parents')}, exist_ok={const('exist_ok')})",
                                                  *([] if good else [f"{fi.qualname}: `{ast.unparse(n)[:60]}` raises FileExistsError / FileNotFoundError when the directory exists already (second run into the same "
                                                                     f"output directory) or its parent is missing"]))
                elif fname == "touch":
                    col.touched(fi)
                    good = const("exist_ok") in (None, True)
                    (col.ok if good else col.bad)("C01.FS-TOLERANT", key, repo.loc(rel, n), f"touch(exist_ok={const('exist_ok')})",
                                                  *([] if good else [f"{fi.qualname}: `{ast.unparse(n)[:60]}` raises FileExistsError on a second run into the same output directory"]))
                elif fname == "open" and (isinstance(n.func, ast.Attribute) or (isinstance(n.func, ast.Name))):
                    mode = n.args[0] if isinstance(n.func, ast.Attribute) and n.args else (n.args[1] if isinstance(n.func, ast.Name) and len(n.args) > 1 else kws.get("mode"))
                    m = mode.value if isinstance(mode, ast.Constant) else ("r" if mode is None else "?")
                    if not isinstance(m, str) or not set(m) & set("wax+?"):
                        continue
                    col.touched(fi)
                    enc = const("encoding")
                    good = "x" not in m and m != "?" and ("b" in m or (isinstance(enc, str) and enc.lower().replace("-", "") == "utf8"))
                    (col.ok if good else col.bad)("C01.FS-TOLERANT", key + f"({m})", repo.loc(rel, n), f"open(mode={m!r}, encoding={enc!r})",
                                                  *([] if good else [f"{fi.qualname}: `{ast.unparse(n)[:60]}` can fail while writing: exclusive mode fails on an existing file, and without an explicit UTF-8 "
                                                                     f"encoding non-ASCII names / docstrings raise UnicodeEncodeError under a non-UTF-8 locale"]))
                    if "b" not in m:
                        # text written through the handle: a Python str is not always encodable (lone surrogates from "\\ud800" literals in defaults / docstrings)
                        w = repo.parent(n)
                        while w is not None and not isinstance(w, ast.With):
                            w = repo.parent(w)
                        handle = next((ast.unparse(it.optional_vars) for it in (w.items if w else []) if it.context_expr is n and it.optional_vars is not None), None)
                        written = []
                        for x in ast.walk(w) if w is not None and handle else []:
                            if isinstance(x, ast.Call) and isinstance(x.func, ast.Attribute) and x.func.attr == "write" and ast.unparse(x.func.value) == handle and x.args:
                                written.append(("write", x))
                            if isinstance(x, ast.Call) and ast.unparse(x.func) in ("json.dump",) and len(x.args) > 1 and ast.unparse(x.args[1]) == handle:
                                written.append(("json", x))
                        err = const("errors")
                        tolerant = err in ("backslashreplace", "replace", "ignore", "xmlcharrefreplace", "namereplace", "surrogatepass")
                        ascii_only = bool(written) and all(k == "json" and not any(kw.arg == "ensure_ascii" and not (isinstance(kw.value, ast.Constant) and kw.value.value is True) for kw in x.keywords) for k, x in written)
                        ident = IDENTIFIER_ONLY_WRITES.get((rel, fi.qualname))
                        ekey = key + f"({m})::encodable"
                        if tolerant:
                            col.ok("C01.FS-TOLERANT", ekey, repo.loc(rel, n), f"errors={err!r}: unencodable characters are escaped, the write cannot raise UnicodeEncodeError")
                        elif ascii_only:
                            col.ok("C01.FS-TOLERANT", ekey, repo.loc(rel, n), "only json.dump output with ensure_ascii (the default) goes through the handle: ASCII only")
                        elif ident:
                            col.ok("C01.FS-TOLERANT", ekey, repo.loc(rel, n), f"identifier text only: {ident}")
                        else:
                            col.bad("C01.FS-TOLERANT", ekey, repo.loc(rel, n), f"open(mode={m!r}, encoding={enc!r}, errors={err!r}); written: {[ast.unparse(x)[:40] for _, x in written]}",
                                    f"{fi.qualname}: text derived from the analysed sources is written through `{ast.unparse(n)[:60]}` with the strict error handler: a string default or docstring "
                                    f"that holds a lone surrogate (`def f(a=\"\\ud800\"): ...`) raises UnicodeEncodeError after the file was created")
                elif fname in ("dump", "dumps") and recv == "json":
                    col.touched(fi)
                    strict = [k for k in ("allow_nan", "check_circular") if const(k) is False] + [k for k in ("default", "cls") if k in kws]
                    good = not strict
                    (col.ok if good else col.bad)("C01.FS-TOLERANT", key, repo.loc(rel, n), f"json.{fname} keywords {sorted(kws)}",
                                                  *([] if good else [f"{fi.qualname}: `{ast.unparse(n)[:70]}` puts the serialiser in a strict / custom mode ({strict}): a model value such as a default of "
                                                                     f"1e999 (inf) makes it raise after the file was opened"]))

    # ------------------------------------------------------------------ PATH-ARITH
    npa = 0
    for rel, mi in repo.modules.items():
        for fi in mi.functions.values():
            for n, src in relative_to_sites(fi.node, repo.parent):
                npa += 1
                col.touched(fi)
                key = f"{rel}::{fi.qualname}::relative_to::{ast.unparse(n)[:50]}"
                if src is not None:
                    col.bad("C01.PATH-ARITH", key, repo.loc(rel, n), f"the receiver comes from `{ast.unparse(src)[:60]}` (line {src.lineno})",
                            f"{fi.qualname}: `{ast.unparse(n)[:60]}` raises ValueError for a path re-assembled with `{ast.unparse(src)[:50]}`: the parts of an absolute path start with '/', "
                            f"the join starts with '//', and pathlib treats '//x' as a different root than '/x' (a class or function re-exported by an __init__.py and named like that package, "
                            f"`textlib/__init__.py: from .core import textlib`, aborts the run after the API file was written)")
                else:
                    col.ok("C01.PATH-ARITH", key, repo.loc(rel, n), "the receiver is derived with pathlib operations only")
    # the recogniser is exercised on a positive example on every run (the rule's expected count on the tree may be zero)
    ex = ast.parse("def f(out, d):\n    c = Path('/'.join(d.parts[:-1]))\n    p = c / 'x'\n    return p.parent.relative_to(out)\n").body[0]
    pm = {id(ch): par for par in ast.walk(ex) for ch in ast.iter_child_nodes(par)}
    hit = [src for _n, src in relative_to_sites(ex, lambda x: pm.get(id(x)))]
    if len(hit) != 1 or hit[0] is None:
        raise AnalysisError("C01.PATH-ARITH: the recogniser no longer flags its positive example")
    col.ok("C01.PATH-ARITH", "selftest::positive-example", "-", f"the recogniser flags the re-joined path of its embedded example; {npa} relative_to() site(s) on the tree", nontrivial=npa == 0)

    # ------------------------------------------------------------------ IMPORT-SOURCE
    nq = 0
    qseen: dict[str, int] = {}
    for rel in (VISITOR, HELPERS, DOCPARSER, GETAPI):
        mi = repo.module(rel)
        for fi in mi.functions.values():
            la = None
            for n in ast.walk(fi.node):
                if not (isinstance(n, ast.Call) and (getattr(n.func, "attr", None) or getattr(n.func, "id", None)) in ("NamedType", "NamedSequenceType")):
                    continue
                q = next((k.value for k in n.keywords if k.arg == "qname"), n.args[1] if len(n.args) > 1 else None)
                if q is None:
                    continue
                nq += 1
                col.touched(fi)
                la = la or Lengths(repo, mi, fi, mf)
                good, why = qname_nonempty(repo, rel, fi, la, mf, n, q)
                key = f"{rel}::{fi.qualname}::qname={ast.unparse(q)[:50]}"
                qseen[key] = qseen.get(key, 0) + 1
                if qseen[key] > 1:
                    key += f"#{qseen[key]}"
                if good:
                    col.ok("C01.IMPORT-SOURCE", key, repo.loc(rel, n), why)
                else:
                    col.bad("C01.IMPORT-SOURCE", key, repo.loc(rel, n), f"`{ast.unparse(n)[:80]}`: {why}",
                            f"{fi.qualname} builds a named type whose qualified name can be empty ({why}); _add_to_imports raises ValueError('Type has no import source.') for it and the run aborts")
    if nq < 20:
        raise AnalysisError(f"only {nq} named-type constructor calls found")

    # ------------------------------------------------------------------ TERM
    nt = 0
    term_seen: dict[str, int] = {}
    for rel, mi in repo.modules.items():
        for fi in mi.functions.values():
            for n in ast.walk(fi.node):
                if isinstance(n, ast.While):
                    nt += 1
                    col.touched(fi)
                    key = f"{rel}::{fi.qualname}::while {ast.unparse(n.test)[:30]}"
                    why = while_variant(repo, fi, n)
                    if why:
                        col.ok("C01.TERM", key, repo.loc(rel, n), why)
                    else:
                        col.bad("C01.TERM", key, repo.loc(rel, n), f"`while {ast.unparse(n.test)[:50]}`", f"{fi.qualname}: the loop `while {ast.unparse(n.test)[:40]}` has a path back to its head that changes none of the variables its exit depends on (non-termination)")
            # self recursion: some argument must be a strict sub-term of a parameter
            for n in ast.walk(fi.node):
                if isinstance(n, ast.Call) and ((isinstance(n.func, ast.Attribute) and n.func.attr == fi.name and isinstance(n.func.value, ast.Name) and n.func.value.id in ("self", "cls"))
                                                or (isinstance(n.func, ast.Name) and n.func.id == fi.name and not fi.cls)):
                    nt += 1
                    col.touched(fi)
                    params = [p for p in fi.params() if p not in ("self", "cls")]
                    args = [ast.unparse(a) for a in n.args] + [ast.unparse(k.value) for k in n.keywords]
                    desc = descends(repo, fi, n, params)
                    key = f"{rel}::{fi.qualname}::recursion({', '.join(args)[:50]})"
                    term_seen[key] = term_seen.get(key, 0) + 1
                    if term_seen[key] > 1:
                        key += f"#{term_seen[key]}"
                    if desc:
                        col.ok("C01.TERM", key, repo.loc(rel, n), desc)
                    else:
                        col.bad("C01.TERM", key, repo.loc(rel, n), f"`{ast.unparse(n)[:70]}`", f"{fi.qualname} calls itself with arguments that are not sub-terms of its parameters (unbounded recursion)")
    if nt < 5:
        raise AnalysisError("loops / recursion sites not found")
    from .shared import share
    share(ctx, col, "C03", {"C03.MOVE"}, "the re-export test has side effects on the dictionary the re-export phase iterates: members of classes must bypass it (RuntimeError otherwise)",
          key_filter=lambda o: "member-emission-bypasses-move" in o.key)
    col.assume("termination and exception freedom inside mypy and griffe are assumed; resource exhaustion is out of scope")
    col.assume("the model object graph built by the visitor is acyclic (class lookup for inlined bases follows superclass names of a finite class table)")


# Every raise / assert of the package, keyed by (module, function, exception) -> (number of sites triaged, reason).
# "decided by" = a rule of this check computes the reachability on every run; "invariant" = unreachable by the named
# invariant, which another rule checks; "library" = relies on documented behaviour of mypy / griffe (assumed, listed).
RAISE_CLASSES = {
    (GETAPI, "get_api", "ValueError"): (1, "the documented rejection 'No files found to analyse.'"),
    (ENUMS, "TypeSourcePreference.from_string", "ValueError"): (1, "option parsing: argparse reports it as a usage error before the tool proper starts"),
    (ENUMS, "TypeSourceWarning.from_string", "ValueError"): (1, "option parsing: argparse reports it as a usage error before the tool proper starts"),
    ("docstring_parsing/_docstring_style.py", "DocstringStyle.from_string", "ValueError"): (1, "option parsing: argparse reports it as a usage error before the tool proper starts"),
    (TYPES_MOD, "AbstractType.from_dict", "ValueError"): (1, "API of the type module; the pipeline never calls from_dict"),
    (TYPES_MOD, "BoundaryType._is_inclusive", "ValueError"): (1, "invariant: only called with a bracket matched by the regular expression in BoundaryType.from_string"),
    (HELPERS, "mypy_expression_to_python_value", "TypeError"): (1, "decided by C01.DISPATCH (literal-helper / other-names)"),
    (HELPERS, "get_argument_kind", "ValueError"): (1, "decided by C01.DISPATCH (get_argument_kind::total) and C06.ARGKIND-TABLE"),
    (HELPERS, "mypy_variance_parser", "ValueError"): (1, "decided by C01.DISPATCH (generic-base::variance=...)"),
    (VISITOR, f"{VCLS}.leave_moduledef", "AssertionError"): (1, "invariant: push/pop balance (C01.STACK)"),
    (VISITOR, f"{VCLS}.leave_classdef", "AssertionError"): (1, "invariant: push/pop balance (C01.STACK)"),
    (VISITOR, f"{VCLS}.leave_funcdef", "AssertionError"): (1, "invariant: push/pop balance (C01.STACK)"),
    (VISITOR, f"{VCLS}.leave_enumdef", "AssertionError"): (1, "invariant: push/pop balance (C01.STACK)"),
    (VISITOR, f"{VCLS}.leave_assignmentstmt", "AssertionError"): (2, "invariant: push/pop balance; assignments are visited below Class / Enum / constructor only (C01.STACK)"),
    (VISITOR, f"{VCLS}.leave_assignmentstmt", "TypeError"): (2, "invariant: the grandparent of a constructor is a Class; the pushed list holds Attribute / EnumInstance only (C03.REGISTER)"),
    (VISITOR, f"{VCLS}._is_attribute_already_defined", "TypeError"): (1, "invariant: called only below a Class or a constructor of a Class (enter_assignmentstmt guards, C01.STACK)"),
    (VISITOR, f"{VCLS}._create_attribute", "AttributeError"): (2, "decided by C01.DISPATCH (targets): only NameExpr / MemberExpr reach it, both carry name and node (library model)"),
    (VISITOR, f"{VCLS}._create_attribute", "AssertionError"): (1, "invariant: attributes are created below a Class or its constructor only (C01.STACK)"),
    (VISITOR, f"{VCLS}._parse_parameter_data", "TypeError"): (1, "invariant: the default-value helper returns str/int/float/bool/None/UnknownValue (C06.LITERAL-VALUE)"),
    (VISITOR, f"{VCLS}._get_parameter_type_and_default_value", "TypeError"): (1, "decided by C01.DISPATCH (_get_parameter_type_and_default_value::total)"),
    (VISITOR, f"{VCLS}._create_inferred_results", "TypeError"): (1, "invariant: only NamedType / TupleType are collected by the inference (C07.INFER-COLLECT)"),
    (VISITOR, f"{VCLS}.mypy_type_to_abstract_type", "TypeError"): (1, "invariant: the bottom of the declaration stack is the Module pushed by enter_moduledef (C01.PARTIAL-OPS stack invariant)"),
    (VISITOR, f"{VCLS}._find_alias", "TypeError"): (2, "invariant: the bottom of the declaration stack is a Module and mypy_file is set by enter_moduledef before any lookup"),
    (VISITOR, f"{VCLS}._is_public", "ValueError"): (1, "invariant: mypy_file is set by enter_moduledef before any declaration is entered"),
    (VISITOR, f"{VCLS}._is_public", "TypeError"): (1, "decided by C01.STACK (parent kinds of enter_classdef / enter_funcdef)"),
    (WALKER, "ASTWalker.__walk", "AssertionError"): (1, "library: mypy's statement tree shares no nodes; the overload fallback visits items[0] only when there is no implementation"),
    (WALKER, "ASTWalker.__get_callbacks", "AttributeError"): (1, "library: ClassDef declares base_type_exprs (library model)"),
    (GETAPI, "_get_mypy_asts", "ValueError"): (1, "library: mypy keeps the tree of every module of the build when preserve_asts is set"),
    (GEN, f"{GENCLS}._create_type_string", "ValueError"): (1, "decided by C01.TABLE (producer kinds)"),
    (GEN, f"{GENCLS}._add_to_imports", "ValueError"): (1, "superclass names: decided by C01.DISPATCH (superclass-without-fullname); type names: decided by C01.IMPORT-SOURCE"),
    (DOCPARSER, "DocstringParser.get_class_documentation", "TypeError"): (1, "invariant:griffe-none-only-for-init"),
    (DOCPARSER, "DocstringParser.get_parameter_documentation", "TypeError"): (1, "library: griffe's parameters section holds DocstringParameter entries"),
    (DOCHELPERS, "get_full_docstring", "TypeError"): (1, "invariant: called with ClassDef / FuncDef nodes only (C13.SAME-SUBJECT)"),
}


# Raises that were triaged as unreachable by a library assumption and then shown reachable by an input (a sub-agent's
# runtime oracle on the unmodified tree): (module, function, exception) -> the input that reaches it.
REACHABLE_RAISES = {
    (VISITOR, f"{VCLS}._parse_parameter_data", "ValueError"):
        "mypy leaves Var.type None (declared `Type | None` in mypy/nodes.py) for the arguments of functions it does not analyse: `def f(x): ...` after a module-level "
        "`if sys.platform != \"win32\": raise ImportError(...)` (unreachable for mypy) or below `@typing.no_type_check` aborts with ValueError('Argument has no type.')",
    (DOCPARSER, "DocstringParser._get_griffe_node", "ValueError"):
        "mypy visits declarations griffe's tree does not contain: methods the dataclass plugin generates (`@dataclass(order=True)`, `__post_init__`), overloads without an "
        "implementation, a definition shadowed by a later import, modules of a sub-directory without __init__.py, files griffe cannot decode: with --docstyle google|numpydoc|rest "
        "the lookup has no fallback and aborts with ValueError('Something went wrong while searching for the docstring ...')",
}


def griffe_none_only_for_init(repo) -> tuple[bool, str]:
    """get_class_documentation treats a missing griffe node as an internal error: sound only while _get_griffe_node
    returns None for nothing but a part named __init__ below a class."""
    fi = repo.function(DOCPARSER, "DocstringParser._get_griffe_node")
    for n in ast.walk(fi.node):
        if isinstance(n, ast.Return) and (n.value is None or (isinstance(n.value, ast.Constant) and n.value.value is None)):
            cur, prev, guarded = repo.parent(n), n, False
            while cur is not None and cur is not fi.node:
                if isinstance(cur, ast.If) and any(prev is x for x in cur.body) and "'__init__'" in ast.unparse(cur.test):
                    guarded = True
                prev, cur = cur, repo.parent(cur)
            if not guarded:
                return False, f"_get_griffe_node returns None at line {n.lineno} for a declaration griffe does not know; a class lookup then raises TypeError"
    return True, "_get_griffe_node returns None only for a part named __init__ below a class; class lookups end in the class name"


# Qualified-name expressions whose non-emptiness follows from a fact the syntax does not show.
QNAME_FACTS = {
    (VISITOR, f"{VCLS}._infer_type_from_return_stmts", "expr_type.fullname"):
        "expr_type is `<self argument>.type.type`: the TypeInfo of the class the method is defined in (Instance.type), whose fullname mypy sets when it builds the class",
}
NONEMPTY_LIB_ATTRS = {
    "canonical_path": "griffe: Expr.canonical_path of a name falls back to the (non-empty) identifier itself when the name cannot be resolved",
}


def _truthy_at(la: Lengths, node: ast.AST, text: str) -> str | None:
    for cond, truth, line in la.dominating(node):
        c = cond
        t = truth
        while isinstance(c, ast.UnaryOp) and isinstance(c.op, ast.Not):
            c, t = c.operand, not t
        if t and ast.unparse(c) == text:
            return f"dominated by a truth test of `{text}` (line {line})"
        if t and isinstance(c, ast.BoolOp) and isinstance(c.op, ast.And) and any(ast.unparse(v) == text for v in c.values):
            return f"dominated by `{ast.unparse(c)[:50]}` (line {line})"
        if not t and isinstance(c, ast.BoolOp) and isinstance(c.op, ast.Or) and any(isinstance(v, ast.UnaryOp) and isinstance(v.op, ast.Not) and ast.unparse(v.operand) == text for v in c.values):
            return f"dominated by the failure of `{ast.unparse(c)[:50]}` (line {line})"
        if isinstance(c, ast.Compare) and len(c.ops) == 1 and ast.unparse(c.left) == text and isinstance(c.comparators[0], ast.Constant) and c.comparators[0].value == "":
            if (isinstance(c.ops[0], ast.NotEq) and t) or (isinstance(c.ops[0], ast.Eq) and not t):
                return f"dominated by `{text} != ''` (line {line})"
    return None


def qname_nonempty(repo, rel: str, fi, la: Lengths, mf, at: ast.AST, q: ast.expr, depth: int = 0) -> tuple[bool, str]:
    src = ast.unparse(q)
    if isinstance(q, ast.Constant):
        return (bool(q.value) and isinstance(q.value, str)), f"constant {q.value!r}"
    if isinstance(q, ast.JoinedStr):
        lit = "".join(v.value for v in q.values if isinstance(v, ast.Constant) and isinstance(v.value, str))
        return bool(lit), f"f-string with the literal part {lit!r}"
    g = _truthy_at(la, at, src)
    if g:
        return True, g
    fact = QNAME_FACTS.get((rel, fi.qualname, src))
    if fact:
        return True, fact
    if isinstance(q, ast.Name) and depth < 3:
        defs = [a for a in ast.walk(fi.node) if isinstance(a, ast.Assign) and a.lineno < at.lineno and len(a.targets) == 1 and isinstance(a.targets[0], ast.Name) and a.targets[0].id == q.id]
        if defs:
            d = max(defs, key=lambda a: a.lineno)
            return qname_nonempty(repo, rel, fi, la, mf, d, d.value, depth + 1)
        return False, f"`{src}` is not bound by a simple assignment and no truth test dominates its use"
    if isinstance(q, ast.Attribute) and q.attr == "fullname":
        t = mf.type_of(rel, q.value) or "?"
        if "TypeInfo" in t and "None" not in t:
            return True, f"`{src}`: fullname of a {t.split('.')[-1]} - mypy sets it from the class definition for every class it builds"
        if any(k in t for k in ("NameExpr", "MemberExpr", "RefExpr")):
            return False, f"`{src}` is the fullname of a {t.split('.')[-1]}, which mypy initialises to '' and leaves empty for names it cannot bind (mypy/nodes.py RefExpr.__init__); no truth test dominates the use"
        return False, f"`{src}`: receiver type {t} is not known to carry a non-empty fullname"
    if isinstance(q, ast.Attribute) and q.attr in NONEMPTY_LIB_ATTRS:
        return True, f"`{src}`: {NONEMPTY_LIB_ATTRS[q.attr]}"
    if isinstance(q, ast.Call) and isinstance(q.func, ast.Attribute) and q.func.attr == "replace" and isinstance(q.func.value, ast.Attribute) and q.func.value.attr == "id" \
            and len(q.args) == 2 and isinstance(q.args[1], ast.Constant) and q.args[1].value:
        return True, f"`{src}`: the id of a model object (module id plus names), separators replaced by a non-empty string"
    return False, f"`{src}` is not a constant, a guarded value or a library attribute known to be non-empty"


# Text-mode writes that only carry identifiers and fixed text (identifiers cannot hold surrogates).
IDENTIFIER_ONLY_WRITES = {
    (GENSTUBS, "_create_outside_package_class"): "the placeholder stub consists of fixed text, the dotted module path and the class name of a type of another library",
}

# Silenced diagnostics (`# type: ignore[code]` with a code that means a failing statement), each with its reason.
SILENCED: dict[tuple[str, str, str], str] = {
    # (the reason once recorded for `mypy_type.missing_import_name.split(...)  # type: ignore[union-attr]` - "mypy sets missing_import_name whenever it
    #  creates an AnyType of kind from_unimported_type" - was refuted by `Handle: Any = object; def close(handle: Handle)`; mypy/types.py only asserts
    #  the converse)
}

# Lengths that hold by an invariant established elsewhere.  (module, function, base expression) -> (length, invariant).
# An invariant is either a named structural check (evaluated on every run) or a library fact with its justification.
LENGTH_INVARIANTS = {
    (VISITOR, f"{VCLS}.leave_classdef", "self.__declaration_stack"): (1, "stack"),
    (VISITOR, f"{VCLS}.leave_funcdef", "self.__declaration_stack"): (1, "stack"),
    (VISITOR, f"{VCLS}.leave_enumdef", "self.__declaration_stack"): (1, "stack"),
    (VISITOR, f"{VCLS}.leave_assignmentstmt", "self.__declaration_stack"): (2, "stack-below-class"),
    (VISITOR, f"{VCLS}.enter_assignmentstmt", "self.__declaration_stack"): (2, "stack-below-class"),
    (VISITOR, f"{VCLS}._is_attribute_already_defined", "self.__declaration_stack"): (2, "stack-below-class"),
    (VISITOR, f"{VCLS}._create_attribute", "self.__declaration_stack"): (2, "stack-below-class"),
    (VISITOR, f"{VCLS}._parse_parameter_data", "self.__declaration_stack"): (1, "stack"),
    (VISITOR, f"{VCLS}.mypy_type_to_abstract_type", "self.__declaration_stack"): (1, "stack"),
    (VISITOR, f"{VCLS}._find_alias", "self.__declaration_stack"): (1, "stack"),
    (VISITOR, f"{VCLS}._is_public", "self.__declaration_stack"): [(1, "stack"), (2, "stack-top-is-declaration")],
    (DOCPARSER, "DocstringParser.get_result_documentation", "all_returns.value"): (1, "lib:a returns section produced by griffe holds at least one entry"),
    (WALKER, "ASTWalker.__walk", "node.items"): (1, "lib:OverloadedFuncDef.items is never empty (mypy builds the node from at least one decorated definition)"),
    (GENSTUBS, "_create_outside_package_class", "path_parts"): (1, "producer-dotted"),
    (DOCPARSER, "DocstringParser.get_class_documentation", "example_data"): (2, "lib:griffe's DocstringSectionExamples.value is a list of (kind, text) pairs"),
    (DOCPARSER, "DocstringParser.get_function_documentation", "example_data"): (2, "lib:griffe's DocstringSectionExamples.value is a list of (kind, text) pairs"),
    (GEN, f"{GENCLS}._create_type_string", "name"): (1, "lib:names of NamedType come from mypy / griffe identifiers and are not empty"),
    (GETAPI, "get_api", "file_path.parts"): (1, "lib:a path yielded by Path.glob has at least one part"),
}


def check_invariant(ctx: Ctx, inv: str, la=None, site=None) -> tuple[bool, str]:
    repo = ctx.repo
    if inv.startswith("lib:"):
        return True, "library fact: " + inv[4:]
    if inv == "stack-top-is-declaration":
        # the subscript is evaluated only when the top of the stack is a Function / Class / Enum: the Module pushed by
        # enter_moduledef lies below it, so the stack holds at least two elements
        ok0, why0 = check_invariant(ctx, "stack")
        if not ok0:
            return ok0, why0
        for cond, truth, _line in la.dominating(site.node):
            if truth and isinstance(cond, ast.Call) and getattr(cond.func, "id", "") == "isinstance" and len(cond.args) == 2:
                subj = la.norm(cond.args[0])
                if isinstance(cond.args[0], ast.Name) and subj == cond.args[0].id:
                    # a local that is assigned more than once: the definition that reaches the test is the only one above it (no loop around)
                    prior = [x for x in ast.walk(la.fn) if isinstance(x, ast.Assign) and x.lineno < cond.lineno and any(isinstance(t, ast.Name) and t.id == subj for t in x.targets)]
                    in_loop = any(isinstance(x, (ast.For, ast.While)) and x.lineno <= cond.lineno <= (x.end_lineno or 0) for x in ast.walk(la.fn))
                    if len(prior) == 1 and not in_loop:
                        subj = la.norm(prior[0].value)
                classes = {x.id for x in ast.walk(cond.args[1]) if isinstance(x, ast.Name)}
                if subj == f"{STACK}[-1]" and classes and classes <= {"Function", "Class", "Enum"}:
                    return True, f"declaration stack: dominated by `{ast.unparse(cond)}` on the top element; the Module pushed by enter_moduledef lies below it"
        return False, "the subscript is not dominated by a test that the top of the declaration stack is a Function / Class / Enum"
    if inv in ("stack", "stack-below-class"):
        # enter_moduledef pushes the Module unconditionally as its last statement; all other handlers run below it
        fi = repo.function(VISITOR, f"{VCLS}.enter_moduledef")
        last = fi.node.body[-1]
        pushes = isinstance(last, ast.Expr) and isinstance(last.value, ast.Call) and ast.unparse(last.value.func) == f"{STACK}.append"
        if not pushes:
            return False, "enter_moduledef does not end by pushing the module on the declaration stack"
        if inv == "stack":
            return True, "declaration stack: the Module pushed by enter_moduledef is at the bottom while any declaration is visited"
        return True, "declaration stack: Module at the bottom plus the Class / Enum / constructor the assignment is visited below (C01.STACK parent kinds)"
    if inv == "producer-dotted":
        # every element added to classes_outside_package contains a dot: each add is preceded by an exit on '"." not in x'
        mi = repo.module(GEN)
        adds = []
        for fi in mi.functions.values():
            for n in ast.walk(fi.node):
                if isinstance(n, ast.Call) and ast.unparse(n.func) == "self.classes_outside_package.add" and n.args:
                    adds.append((fi, n))
        if not adds:
            return False, "no producer of classes_outside_package found"
        for fi, n in adds:
            arg = ast.unparse(n.args[0])
            guarded = False
            cur, prev = repo.parent(n), n
            while cur is not None and cur is not fi.node:
                for fld in ("body", "orelse"):
                    blk = getattr(cur, fld, None)
                    if isinstance(blk, list) and any(prev is x for x in blk):
                        for st in blk:
                            if st is prev:
                                break
                            if isinstance(st, ast.If) and isinstance(st.body[-1], (ast.Return, ast.Raise, ast.Continue)) and ast.unparse(st.test) in (
                                    f"'.' not in {arg}", f"{arg}.find('.') == -1", f"{arg}.find('.') < 0", f"{arg}.count('.') == 0", f"not '.' in {arg}"):
                                guarded = True
                prev, cur = cur, repo.parent(cur)
            if not guarded:
                return False, f"{fi.qualname} registers `{arg}` as a class of another package without making sure it has a module path ('.'), and _create_outside_package_class needs one"
        # the consumer is only called with elements of that set
        gs = repo.module(GENSTUBS)
        calls = [n for f2 in gs.functions.values() for n in ast.walk(f2.node) if isinstance(n, ast.Call) and ast.unparse(n.func) == "_create_outside_package_class"]
        if len(calls) != 1:
            return False, "_create_outside_package_class has an unexpected number of callers"
        return True, f"every registration of a class of another package ({len(adds)} site) is preceded by an exit on a name without '.', so the split has >= 2 parts and >= 1 after the pop"
    return False, f"unknown invariant {inv}"


def variance_constants() -> dict[str, int]:
    """INVARIANT / COVARIANT / ... constants of the installed mypy.nodes."""
    import importlib.util
    spec = importlib.util.find_spec("mypy")
    if spec is None or not spec.submodule_search_locations:
        raise AnalysisError("mypy sources not found")
    from pathlib import Path
    src = (Path(list(spec.submodule_search_locations)[0]) / "nodes.py").read_text()
    out = {}
    for m in re.finditer(r"^(\w*VARIAN\w*): Final = (\d+)", src, re.M):
        out[m.group(1)] = int(m.group(2))
    if len(out) < 3:
        raise AnalysisError("variance constants of mypy.nodes not found")
    return out


def while_variant(repo, fi: FuncInfo, n: ast.While) -> str | None:
    test_names = {x.id for x in ast.walk(n.test) if isinstance(x, ast.Name)} | {ast.unparse(x) for x in ast.walk(n.test) if isinstance(x, ast.Attribute)}
    if isinstance(n.test, ast.Constant) and n.test.value is True:
        # `while True`: every path must reach break/return/raise or change a variable that a break depends on
        exits = [x for x in ast.walk(n) if isinstance(x, (ast.Break, ast.Return, ast.Raise))]
        yields = [x for x in ast.walk(n) if isinstance(x, (ast.Yield, ast.YieldFrom))]
        if yields:
            return "generator: control returns to the consumer at every yield (the consumers take finitely many values)"
        if not exits:
            return None
        # the retry loop of DocstringParser.__init__: the handler climbs to the parent directory
        for h in ast.walk(n):
            if isinstance(h, ast.ExceptHandler):
                src = " ".join(ast.unparse(s) for s in h.body)
                if re.search(r"(\w+) = \1\.parent", src):
                    return "retry loop: each failed attempt replaces the path by its parent; paths have finite depth (the root's parent is itself: ASSUMED to load or to raise a different error)"
        return "every iteration reaches a break / return"
    # all variables of the test must be modified on every path back to the head: approximate by 'modified in the body outside any `continue`-guarded branch before the modification'
    changed = set()
    for x in ast.walk(n):
        if isinstance(x, (ast.Assign, ast.AugAssign)):
            for t in (x.targets if isinstance(x, ast.Assign) else [x.target]):
                changed.add(ast.unparse(t))
    dep = [v for v in test_names if v in changed]
    if not dep:
        return None
    # a `continue` that can be reached before the first modification of every test variable keeps the state unchanged
    first_mod = min((x.lineno for x in ast.walk(n) if isinstance(x, (ast.Assign, ast.AugAssign)) and any(ast.unparse(t) in dep for t in (x.targets if isinstance(x, ast.Assign) else [x.target]))), default=None)
    for c in ast.walk(n):
        if isinstance(c, ast.Continue):
            # innermost loop of the continue must be this while
            cur = repo.parent(c)
            while cur is not None and not isinstance(cur, (ast.For, ast.While)):
                cur = repo.parent(cur)
            if cur is n and first_mod is not None and c.lineno < first_mod:
                return None
    # the modification must happen on every path: the last statement-level modification is not nested in an if without else
    for x in n.body:
        if isinstance(x, (ast.Assign, ast.AugAssign)) and any(ast.unparse(t) in dep for t in (x.targets if isinstance(x, ast.Assign) else [x.target])):
            return f"`{dep[0]}` is reassigned on every iteration (top-level statement of the body) and the test depends on it"
    return None


# Recursive calls whose descent is not structural.  (module, function, first argument) -> reason.
TERM_EXCEPTIONS = {
    (DOCPARSER, "DocstringParser._griffe_annotation_to_api_type", "parsed_annotation"):
        "library fact: griffe.parse_annotation returns an expression tree (handled by the structural branches) or its input string, and the "
        "call is reached only when the result differs from both input strings",
}


def component_getters(repo) -> set[str]:
    """Repository functions that return a strict component of their single parameter (node.defs, node.body.body)."""
    out = set()
    for mi in repo.modules.values():
        for fi in mi.functions.values():
            ps = [p for p in fi.params() if p not in ("self", "cls")]
            rets = [n for n in ast.walk(fi.node) if isinstance(n, ast.Return)]
            if len(ps) == 1 and rets and all(r.value is not None and re.fullmatch(rf"{re.escape(ps[0])}(\.\w+)+", ast.unparse(r.value)) for r in rets):
                out.add(fi.name)
    return out


def relative_to_sites(fnode: ast.AST, parent) -> list[tuple[ast.Call, ast.AST | None]]:
    """relative_to() call sites of a function with, for each, the string re-assembly of path parts that reaches its receiver (None if none)."""
    rejoined: dict[str, ast.AST] = {}
    for n in ast.walk(fnode):
        # Path("/".join(p.parts[...])): for an absolute path parts[0] is "/", the join starts with "//", which pathlib keeps as another root
        if isinstance(n, ast.Call) and isinstance(n.func, ast.Attribute) and n.func.attr == "join" and isinstance(n.func.value, ast.Constant) and n.func.value.value in ("/", "\\") \
                and n.args and any(isinstance(x, ast.Attribute) and x.attr == "parts" for x in ast.walk(n.args[0])):
            tgt = parent(n)
            while tgt is not None and not isinstance(tgt, (ast.Assign, ast.AnnAssign)) and tgt is not fnode:
                tgt = parent(tgt)
            if isinstance(tgt, ast.Assign) and len(tgt.targets) == 1 and isinstance(tgt.targets[0], ast.Name):
                rejoined[tgt.targets[0].id] = n
            else:
                rejoined[f"<expr:{n.lineno}>"] = n
    changed = True
    while changed:
        changed = False
        for n in ast.walk(fnode):
            if isinstance(n, ast.Assign) and len(n.targets) == 1 and isinstance(n.targets[0], ast.Name) and n.targets[0].id not in rejoined \
                    and any(isinstance(x, ast.Name) and x.id in rejoined for x in ast.walk(n.value)):
                rejoined[n.targets[0].id] = rejoined[next(x.id for x in ast.walk(n.value) if isinstance(x, ast.Name) and x.id in rejoined)]
                changed = True
    out = []
    for n in ast.walk(fnode):
        if isinstance(n, ast.Call) and isinstance(n.func, ast.Attribute) and n.func.attr == "relative_to":
            roots = [x.id for x in ast.walk(n.func.value) if isinstance(x, ast.Name) and x.id in rejoined]
            out.append((n, rejoined[roots[0]] if roots else None))
    return out


def alias_expansion(repo, fi: FuncInfo, assign: ast.Assign, name: str) -> bool:
    """`p = get_proper_type(p)` under `isinstance(p, TypeAliasType) and not p.is_recursive`: the target of a non-recursive alias is a
    finite type whose own aliases do not lead back to it, so the pair (aliases left to expand, size of the term) still descends."""
    v = assign.value
    if not (isinstance(v, ast.Call) and (getattr(v.func, "attr", None) or getattr(v.func, "id", None)) == "get_proper_type" and len(v.args) == 1
            and isinstance(v.args[0], ast.Name) and v.args[0].id == name):
        return False
    cur, prev = repo.parent(assign), assign
    tests = []
    while cur is not None and cur is not fi.node:
        if isinstance(cur, ast.If) and any(prev is b for b in cur.body):
            tests.append(ast.unparse(cur.test))
        prev, cur = cur, repo.parent(cur)
    t = " and ".join(tests)
    return f"isinstance({name}," in t and "TypeAliasType" in t and f"not {name}.is_recursive" in t


def descends(repo, fi: FuncInfo, call: ast.Call, params: list[str]) -> str | None:
    getters = component_getters(repo)
    derived: dict[str, str] = {}

    def chain(e: ast.AST) -> tuple[str | None, int]:
        """(root name, number of attribute/subscript steps) of a component chain, unwrapping order-preserving wrappers."""
        steps = 0
        while True:
            if isinstance(e, (ast.Attribute, ast.Subscript)):
                e = e.value
                steps += 1
            elif isinstance(e, ast.Call) and isinstance(e.func, ast.Name) and e.func.id in ("enumerate", "list", "tuple", "reversed", "sorted", "iter") and e.args:
                e = e.args[0]
            elif isinstance(e, ast.Call) and (getattr(e.func, "attr", None) or getattr(e.func, "id", None)) == "flatten_nested_unions" and e.args:
                # mypy's flattening replaces union members that are aliases of unions by the members of their targets (one expansion per alias, a
                # union cannot be a member of itself): the elements are components of the argument or of alias targets; aliases among them are
                # expanded by this function only under `alias_expansion`'s guard
                e = e.args[0]
            elif isinstance(e, ast.Call) and isinstance(e.func, ast.Name) and e.func.id == "getattr" and len(e.args) >= 2:
                e = e.args[0]
                steps += 1
            elif isinstance(e, ast.Call) and isinstance(e.func, ast.Name) and e.func.id in getters and len(e.args) == 1:
                e = e.args[0]
                steps += 1
            else:
                break
        return (e.id if isinstance(e, ast.Name) else None), steps

    def sub_term(e: ast.AST) -> str | None:
        if isinstance(e, ast.IfExp):
            a, b = sub_term(e.body), sub_term(e.orelse)
            return a if a and b else None
        if isinstance(e, ast.List) and e.elts:
            rs = [sub_term(x) for x in e.elts]
            return rs[0] if all(rs) else None
        if isinstance(e, (ast.ListComp, ast.GeneratorExp)) and len(e.generators) == 1:
            r, st = chain(e.generators[0].iter)
            if r in params and st >= 1 or r in derived:
                return f"selection from `{ast.unparse(e.generators[0].iter)[:40]}`"
            return None
        r, st = chain(e)
        if r in params and st >= 1:
            return f"`{ast.unparse(e)[:40]}` is a strict component of parameter `{r}`"
        if r in derived:
            return f"`{ast.unparse(e)[:40]}` is {derived[r]}"
        return None

    # a parameter that is reassigned from something that is not one of its own components stops being "the argument"
    params = list(params)
    for x in ast.walk(fi.node):
        if isinstance(x, ast.Assign):
            for t in x.targets:
                if isinstance(t, ast.Name) and t.id in params:
                    r, st = chain(x.value)
                    if not (r == t.id and st >= 1) and not alias_expansion(repo, fi, x, t.id):
                        params.remove(t.id)
        elif isinstance(x, (ast.AugAssign, ast.AnnAssign)) and isinstance(x.target, ast.Name) and x.target.id in params and getattr(x, "value", None) is not None:
            params.remove(x.target.id)
    # pessimistic fixpoint: a local is derived when every assignment to it is a component (empty literals are neutral)
    assigns: dict[str, list[ast.expr]] = {}
    loops: dict[str, list[ast.expr]] = {}
    other_stores: set[str] = set()
    for x in ast.walk(fi.node):
        if isinstance(x, ast.Assign) and len(x.targets) == 1 and isinstance(x.targets[0], ast.Name):
            assigns.setdefault(x.targets[0].id, []).append(x.value)
        elif isinstance(x, (ast.For, ast.comprehension)):
            for t in ast.walk(x.target):
                if isinstance(t, ast.Name):
                    loops.setdefault(t.id, []).append(x.iter)
        elif isinstance(x, (ast.AugAssign, ast.AnnAssign, ast.NamedExpr)) and isinstance(x.target, ast.Name):
            other_stores.add(x.target.id)
        elif isinstance(x, ast.Assign):
            for t in x.targets:
                for y in ast.walk(t):
                    if isinstance(y, ast.Name) and isinstance(y.ctx, ast.Store):
                        other_stores.add(y.id)
    changed = True
    while changed:
        changed = False
        for name in set(assigns) | set(loops):
            if name in derived or name in params or name in other_stores:
                continue
            vals = [v for v in assigns.get(name, []) if not (isinstance(v, (ast.List, ast.Tuple)) and not v.elts)]
            its = loops.get(name, [])
            if not vals and not its:
                continue
            # a self-referential step (x = x.left) keeps x a component if some other assignment grounds it
            grounded = its or any(chain(v)[0] != name for v in vals)
            derived[name] = "tentative"
            ok_vals = [sub_term(v) for v in vals]
            # a loop over a display of components (`for b in [e.if_expr, e.else_expr]`) binds components too
            ok_its = [(chain(i)[0] in params or (chain(i)[0] in derived and chain(i)[0] != name)
                       or (isinstance(i, (ast.List, ast.Tuple)) and bool(i.elts) and all(sub_term(x) for x in i.elts))) for i in its]
            del derived[name]
            if grounded and all(ok_vals) and all(ok_its):
                derived[name] = f"an element of `{ast.unparse(its[0])[:40]}`" if its else f"a component (`{ast.unparse(vals[0])[:40]}`)"
                changed = True
    args = list(call.args) + [k.value for k in call.keywords]
    for a in args:
        why = sub_term(a)
        if why:
            return "structural descent: " + why
    # lexicographic: the call leaves a parameter at its default None and is only reached when that parameter is not None
    passed = {p for p, _ in zip(params, call.args)} | {k.arg for k in call.keywords}
    defaults = fi.node.args.defaults
    pos = [a.arg for a in fi.node.args.args if a.arg not in ("self", "cls")]
    with_default_none = {p for p, d in zip(pos[len(pos) - len(defaults):], defaults) if isinstance(d, ast.Constant) and d.value is None}
    for q in sorted(with_default_none - passed):
        cur, prev = repo.parent(call), call
        while cur is not None and cur is not fi.node:
            if isinstance(cur, ast.If) and any(prev is x for x in cur.body):
                tests = cur.test.values if isinstance(cur.test, ast.BoolOp) and isinstance(cur.test.op, ast.And) else [cur.test]
                if any(ast.unparse(t) == f"{q} is not None" for t in tests):
                    return f"the call leaves `{q}` at its default None and is only reached when `{q} is not None`: the callee cannot come back to this call"
            prev, cur = cur, repo.parent(cur)
    exc = TERM_EXCEPTIONS.get((fi.module, fi.qualname, ast.unparse(args[0]) if args else ""))
    if exc:
        return exc
    return None
