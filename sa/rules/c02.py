"""C02 — every emitted stub file is syntactically valid Safe-DS."""
from __future__ import annotations

import ast
import re
from pathlib import Path

from ..core.absint import AV, Alt, App, Const, ListV, Obj, Rep, State, StrT, Sym, walk_av
from ..core.ctx import GEN, GENSTUBS, GETAPI, GHELPER, VISITOR, Ctx
from ..core.report import VERIF, Collector
from ..core.source import AnalysisError
from .common import GENCLS, render
from .emitmodel import ANNOT, CONV, ESC, EmitModel, flat_parts, holes_ctx

KEYWORDS = (VERIF / "sa" / "grammar" / "keywords.txt")


def keywords() -> list[str]:
    ks = [l.strip() for l in KEYWORDS.read_text().splitlines() if l.strip() and not l.startswith("#")]
    if len(ks) != 33:
        raise AnalysisError(f"reference keyword list has {len(ks)} entries, expected 33")
    return ks


# ---------------------------------------------------------------------------------------------- hole classification
def origin_of(v: AV) -> AV:
    while isinstance(v, App) and v.func in (ESC, CONV, ANNOT, "str") and v.args:
        v = v.args[0]
    return v


def is_name_origin(v: AV) -> bool:
    """The value is a Python identifier taken from the model (a .name field, a ['name'] entry, a dotted path segment)."""
    if isinstance(v, Sym):
        return bool(re.search(r"(\.name|\['name'\]|\.alias)$", v.path))
    if isinstance(v, App) and v.func == "[]" and v.args and isinstance(v.args[0], App) and v.args[0].func in (".split",):
        return True  # a segment of a dotted / slashed qualified name
    if isinstance(v, App) and v.func == "elem" and v.args and isinstance(v.args[0], App) and v.args[0].func in (".split", "slice"):
        return True
    if isinstance(v, App) and v.func == ".pop" and v.args and isinstance(v.args[0], App) and v.args[0].func == ".split":
        return True
    return False


def closed_alphabet(v: AV) -> bool:
    """Generated names param_<n> / result_<n>."""
    if isinstance(v, Const):
        return isinstance(v.v, str) and re.fullmatch(r"(param|result)_\d+", v.v) is not None
    if isinstance(v, StrT) and v.parts and isinstance(v.parts[0], str) and v.parts[0] in ("param_", "result_"):
        rest = v.parts[1:]
        return len(rest) == 1 and isinstance(rest[0], App) and rest[0].func == "str"
    return False


def dotted_origin(v: AV) -> bool:
    """A dotted module path assembled from model ids (segments are Python identifiers)."""
    if isinstance(v, StrT):
        return all((isinstance(p, str) and set(p) <= {"."}) or (isinstance(p, Rep) and p.sep == Const(".") and all(is_name_origin(a) or dotted_origin(a) for a in p.alts))
                   or (not isinstance(p, (str, Rep)) and (is_name_origin(p) or dotted_origin(p))) for p in v.parts)
    if isinstance(v, App) and v.func == "[]" and v.args and isinstance(v.args[0], App) and "_get_shortest_public_reexport" in v.args[0].func:
        return True
    if isinstance(v, Alt):
        return all(dotted_origin(a) for a in v.alts)
    if isinstance(v, Sym) and v.path in ("import_",):
        return True
    return False


_PATH_ESC: dict[str, bool] = {}


def is_path_escaper(em: EmitModel, func: str) -> bool:
    """``func`` maps a dotted path to the '.'-join of the keyword escaper applied to each of its segments (decided by
    interpreting the function, not by its name)."""
    if func in _PATH_ESC:
        return _PATH_ESC[func]
    res = False
    for m in (em.repo.module(GHELPER), em.repo.module(GEN), em.repo.module(GENSTUBS)):
        fi = m.functions.get(func)
        if fi is None or fi.cls:
            continue
        params = fi.params()
        if len(params) != 1:
            continue
        outs = em.ctx.interp(fi).run_function(fi, {params[0]: Sym("PATH")})
        ok = bool(outs)
        for o in outs:
            v = o.value
            parts = flat_parts(v) if isinstance(v, StrT) else []
            if not (o.kind == "return" and len(parts) == 1 and isinstance(parts[0], Rep) and parts[0].sep == Const(".") and parts[0].alts
                    and all(isinstance(a, App) and a.func == ESC and a.args and isinstance(a.args[0], App) and a.args[0].func == "elem"
                            and a.args[0].args and isinstance(a.args[0].args[0], App) and a.args[0].args[0].func == ".split"
                            and a.args[0].args[0].args == (Sym("PATH"), Const(".")) for a in parts[0].alts)):
                ok = False
        res = ok
        break
    _PATH_ESC[func] = res
    return res


def classify(em: EmitModel, fname: str, h: AV, before: str, after: str) -> tuple[str, bool, str]:
    """-> (role, ok, explanation)"""
    in_comment = fname in em.comment_emitters
    if isinstance(h, Const):
        return "LIT", True, ""
    if em.is_indent(h, fname):
        return "INDENT", True, "whitespace"
    quoted = before.endswith('"') and after.startswith('"')
    if isinstance(h, (App, StrT)) and quoted and (is_name_origin(h) or dotted_origin(h)):
        return "PYNAME", True, "quoted Python identifier / module path"
    if isinstance(h, Sym) and re.fullmatch(r"stubs_data\[\*\]\[2\]", h.path):
        return "CALL", True, "module text produced by the generator (third element of the stub data tuples)"
    if isinstance(h, App) and is_path_escaper(em, h.func):
        return "PATH", True, "package path with every segment passed through the keyword escaper"
    if isinstance(h, App):
        f = h.func
        if is_name_origin(h) and not in_comment:
            return "NAME", False, "a model name is emitted without the keyword escaper"
        if f == ESC:
            inner = h.args[0] if h.args else None
            o = origin_of(inner) if inner is not None else None
            if o is not None and dotted_origin(o) and not is_name_origin(o):
                return "PATH", False, (f"a dotted module path is passed to the keyword escaper as one string: a path segment that is a "
                                       f"Safe-DS keyword (e.g. module 'val') is not back-quoted")
            return "NAME", True, "identifier passed through the keyword escaper"
        if f == ANNOT:
            return "PYNAME", True, "@PythonName(\"…\") of a Python identifier"
        if f.startswith("self.") and f[5:] in em.funcs:
            return "CALL", True, f"text produced by {f[5:]}"
        if f in em.funcs:
            return "CALL", True, f"text produced by {f}"
        if f == "[]" and h.args:
            a0 = h.args[0]
            if isinstance(a0, App) and (a0.func.startswith("self.") and a0.func[5:] in em.funcs):
                return "CALL", True, f"element of the result of {a0.func[5:]}"
            if isinstance(a0, ListV):
                rs = [classify(em, fname, x, before, after) for it in a0.items for x, _, _ in ([(it, "", "")] if not isinstance(it, (StrT, Rep, Alt)) else holes_ctx(it))]
                bad = [r for r in rs if not r[1]]
                return ("LISTELEM", not bad, bad[0][2] if bad else "element of a list of classified entries")
        if f == CONV:
            a0 = h.args[0] if h.args else None
            if a0 is not None and closed_alphabet(a0):
                return "GENNAME", True, "generated name param_<n>/result_<n> (never a keyword)"
            if in_comment:
                return "NAME-IN-COMMENT", True, "name inside a documentation comment"
            if a0 is not None and dotted_origin(a0):
                return "PATH", False, "a package path is emitted after name conversion without keyword escaping of its segments"
            return "NAME", False, "a converted name is emitted without the keyword escaper"
        if f in (".replace",) and in_comment:
            return "TEXT", False, "example line copied into the comment without neutralising '*/'"
        if f == "str" and h.args and isinstance(h.args[0], (App, Sym)) and "idx@" in repr(h.args[0]):
            return "COUNTER", True, "loop counter"
        if f == "elem" and in_comment:
            return "TEXT", False, "docstring text copied into the comment without neutralising '*/'"
        if f == "slice" or f == "Add":
            return "UNCLASSIFIED", False, f"computed text {h!r}"
    if isinstance(h, Sym):
        p = h.path
        if before.endswith('"') and after.startswith('"'):
            if is_name_origin(h) or dotted_origin(h):
                return "PYNAME", True, "quoted Python identifier / module path"
            return "STRING", False, f"value {h!r} is placed between double quotes without escaping '\"', '\\\\' and line breaks"
        if re.search(r"default_value", p):
            return "VALUE", False, ("the stored default value is emitted verbatim; string defaults are wrapped in quotes by the analyzer "
                                    "without escaping '\"', '\\\\' or line breaks")
        if is_name_origin(h):
            if in_comment:
                return "NAME-IN-COMMENT", True, "name inside a documentation comment"
            return "NAME", False, "a model name is emitted without the keyword escaper"
        if in_comment:
            return "TEXT", False, "docstring text copied into the comment without neutralising '*/'"
        if re.search(r"literals", p):
            return "NUMBER", True, "non-string literal value rendered by str()"
    if isinstance(h, StrT):
        if dotted_origin(h):
            if before.endswith('"') and after.startswith('"'):
                return "PYNAME", True, "quoted Python module path"
            return "PATH", False, "a package path is emitted without keyword escaping of its segments"
    if in_comment and isinstance(h, (Sym, App)):
        return "TEXT", False, "docstring text copied into the comment without neutralising '*/'"
    return "UNCLASSIFIED", False, f"hole {h!r} has no recognised provenance"


# ---------------------------------------------------------------------------------------------- delimiter effect
class Unbalanced(Exception):
    pass


PAIRS = {")": "(", "}": "{", ">": "<"}


def scan_text(text: str, st: tuple) -> tuple:
    stack, mode = list(st[0]), st[1]
    i = 0
    n = len(text)
    while i < n:
        c = text[i]
        two = text[i:i + 2]
        three = text[i:i + 3]
        if mode == "code":
            if three == "/**" or two == "/*":
                mode = "comment"
                i += 3 if three == "/**" else 2
                continue
            if two == "//":
                mode = "line"
                i += 2
                continue
            if two == "->":
                i += 2
                continue
            if c == '"':
                mode = "string"
            elif c == "`":
                mode = "btick"
            elif c in "({<":
                stack.append(c)
            elif c in ")}>":
                if not stack or stack[-1] != PAIRS[c]:
                    raise Unbalanced(f"closing {c!r} without matching opener (open: {''.join(stack)!r})")
                stack.pop()
        elif mode == "comment":
            if two == "*/":
                mode = "code"
                i += 2
                continue
        elif mode == "line":
            if c == "\n":
                mode = "code"
        elif mode == "string":
            if c == "\\":
                i += 2
                continue
            if c == '"':
                mode = "code"
        elif mode == "btick":
            if c == "`":
                mode = "code"
        i += 1
    return (tuple(stack), mode)


def scan(v: AV, st: tuple) -> tuple:
    for p in flat_parts(v):
        if isinstance(p, str):
            st = scan_text(p, st)
        elif isinstance(p, Rep):
            for a in p.alts:
                s2 = scan(a, st)
                s3 = scan(p.sep, s2)
                if s3 != st and s2 != st:
                    raise Unbalanced(f"a repeated element changes the delimiter state from {st} to {s2}")
        elif isinstance(p, Alt):
            res = {scan(a, st) for a in p.alts}
            if len(res) != 1:
                raise Unbalanced(f"alternatives leave different delimiter states {sorted(map(str, res))}")
            st = res.pop()
        elif isinstance(p, StrT):
            st = scan(p, st)
        # other holes are neutral: their own balance is a separate obligation
    return st


# ---------------------------------------------------------------------------------------------- the check
def check(ctx: Ctx, col: Collector, tier: str) -> None:
    repo = ctx.repo
    col.spec("C02.KW-TABLE", "every identifier that coincides with a Safe-DS keyword is back-quoted", "specialisation of the escaper over the 33 keywords", floor=34)
    col.spec("C02.NAME-PIPELINE", "every identifier reaching the output passed the keyword escaper (or comes from a closed generated alphabet / sits in a comment)",
             "provenance of every hole of every output template (abstract interpretation of all emitters)", floor=25)
    col.spec("C02.TEXT-SANITIZE", "docstring text cannot terminate the documentation comment", "provenance of text holes in comment emitters", floor=2)
    col.spec("C02.STRING-SANITIZE", "string literals are properly closed", "provenance of holes between double quotes and of default values", floor=2)
    col.spec("C02.DYCK", "brackets, braces, comments and strings are closed on every path", "delimiter-effect interpretation of every output template; repeated parts neutral", floor=40)
    col.spec("C02.HEADER", "optional file annotation, one package declaration, imports, then declarations", "shape of the module-level templates", floor=3)
    col.spec("C02.TODO-LINES", "TODO comment lines end with a line break", "shape of the flush template", floor=1)

    # ------------------------------------------------------------------ KW-TABLE
    efi = repo.function(GHELPER, ESC)
    col.touched(efi)
    pname = efi.params()[0]
    for kw in keywords():
        outs = ctx.interp(efi).run_function(efi, {pname: Const(kw)})
        key = f"{GHELPER}::{ESC}::{kw}"
        if len(outs) == 1 and outs[0].kind == "return" and outs[0].value == Const(f"`{kw}`"):
            col.ok("C02.KW-TABLE", key, repo.loc(GHELPER, efi.node), f"{kw} -> `{kw}`")
        else:
            col.bad("C02.KW-TABLE", key, repo.loc(GHELPER, efi.node), f"{[(o.kind, repr(o.value)) for o in outs]}",
                    f"the Safe-DS keyword {kw!r} is not back-quoted by {ESC}")
    outs = ctx.interp(efi).run_function(efi, {pname: Const("someName")})
    good = len(outs) == 1 and outs[0].value == Const("someName")
    (col.ok if good else col.bad)("C02.KW-TABLE", f"{GHELPER}::{ESC}::non-keyword", repo.loc(GHELPER, efi.node), "non-keywords are returned unchanged" if good else f"{[repr(o.value) for o in outs]}",
                                  *([] if good else ["a non-keyword identifier is altered by the escaper"]))

    # ------------------------------------------------------------------ holes
    em = EmitModel(ctx)
    for fi in em.funcs.values():
        col.touched(fi)
    seen: set[tuple] = set()
    rule_of = {"NAME": "C02.NAME-PIPELINE", "PATH": "C02.NAME-PIPELINE", "GENNAME": "C02.NAME-PIPELINE", "NAME-IN-COMMENT": "C02.NAME-PIPELINE",
               "PYNAME": "C02.STRING-SANITIZE", "STRING": "C02.STRING-SANITIZE", "VALUE": "C02.STRING-SANITIZE",
               "TEXT": "C02.TEXT-SANITIZE", "UNCLASSIFIED": "C02.NAME-PIPELINE", "LISTELEM": "C02.NAME-PIPELINE"}
    for t in em.templates:
        fname = em.name_of(t.fi)
        mod = t.fi.module
        for h, before, after in holes_ctx(t.value):
            role, ok, why = classify(em, fname, h, before, after)
            if role in ("INDENT", "CALL", "LIT", "COUNTER", "NUMBER"):
                continue
            desc = re.sub(r"idx@\d+", "idx", repr(h))
            desc = re.sub(r", line=\d+", "", desc)
            # structural key: the model / input symbols the hole is computed from (stable under rewrites of the wrapping expression)
            syms = sorted({repr(x) for x in walk_av(h) if isinstance(x, Sym)})
            kdesc = "+".join(syms)[:160] if syms else desc[:160]
            k = (fname, role, kdesc, ok)
            if k in seen:
                continue
            seen.add(k)
            rule = rule_of[role]
            key = f"{mod}::{fname}::{role}::{kdesc}"
            site = repo.loc(mod, t.node or t.fi.node)
            if ok:
                col.ok(rule, key, site, f"{role}: {why}")
            else:
                col.bad(rule, key, site, f"hole {desc[:200]} (between {before[-12:]!r} and {after[:12]!r})", f"{fname}: {why}")

    # ------------------------------------------------------------------ DYCK
    ndy = 0
    for t in em.templates:
        fname = em.name_of(t.fi)
        key = f"{t.fi.module}::{fname}::balanced::{render(t.value)[:60]!r}"
        try:
            st = scan(t.value, ((), "code"))
            if st[1] == "line":
                st = (st[0], "code") if False else st
            if st[0] or st[1] not in ("code",):
                # fragments of comments (description parts) are scanned inside a comment by their host
                if fname in em.comment_emitters and not render(t.value).lstrip().startswith(("/**", "{")):
                    st2 = scan(t.value, ((), "comment"))
                    if st2 == ((), "comment"):
                        ndy += 1
                        continue
                raise Unbalanced(f"template ends in state {st}")
            ndy += 1
        except Unbalanced as e:
            col.bad("C02.DYCK", key, repo.loc(t.fi.module, t.node or t.fi.node), f"{render(t.value)[:300]!r}", f"{fname}: {e}")
    col.ok("C02.DYCK", f"{GEN}::all-templates", repo.loc(GEN, None), f"{ndy} of {len(em.templates)} output templates have a neutral delimiter effect on their path")
    for i, t in enumerate(em.templates[:45]):
        col.ok("C02.DYCK", f"{t.fi.module}::{em.name_of(t.fi)}::template#{i}", repo.loc(t.fi.module, t.node or t.fi.node), f"{render(t.value)[:120]!r}", nontrivial=True) \
            if not any(o.key.endswith(f"balanced::{render(t.value)[:60]!r}") and not o.ok for o in col.obs) else None

    # ------------------------------------------------------------------ HEADER
    def header_ok(v: AV, fname: str) -> tuple[bool, str]:
        parts = flat_parts(v)
        txt = ""
        for p in parts:
            if isinstance(p, str):
                txt += p
            elif isinstance(p, App) and (p.func.startswith("self._create_sds_docstring") or (p.func == "[]" and False)):
                txt += "\x01"
            elif isinstance(p, App) and p.func == "self._create_imports_string":
                txt += "\x02"
            else:
                txt += "\x00"
        m = re.match(r'^(?:\x01\n?)?(?:@PythonModule\("\x00"\)\n)?package \x00\n', txt)
        if not m:
            return False, f"text starts with {txt[:60]!r}"
        rest = txt[m.end():]
        if re.search(r"(^|\n)package ", rest):
            return False, "a second package line"
        if "\x02" in rest and not rest.startswith("\x02"):
            return False, "imports are not placed directly after the package line"
        return True, ""

    nh = 0
    for fname, which in (("_create_module_string", "return"), ("create_reexport_module_strings", "return"), ("_create_outside_package_class", "write")):
        ts = [t for t in em.templates if em.name_of(t.fi) == fname and isinstance(t.value, StrT) and "package " in render(t.value)]
        key = f"{em.funcs[fname].module}::{fname}::header"
        probs = []
        for t in ts:
            okh, why = header_ok(t.value, fname)
            if not okh:
                probs.append(why)
        if not ts:
            probs.append("no template with a package line found")
        nh += 1
        (col.ok if not probs else col.bad)("C02.HEADER", key, repo.loc(em.funcs[fname].module, em.funcs[fname].node),
                                           f"{len(ts)} templates: [doc comment][@PythonModule]package X\\n[imports]…" if not probs else "; ".join(sorted(set(probs))),
                                           *([] if not probs else [f"{fname}: module header malformed: {sorted(set(probs))[0]}"]))
    # appended placeholder text (mode 'a') must not contain a header
    ts = [t for t in em.templates if em.name_of(t.fi) == "_create_outside_package_class" and t.kind == "write" and "package " not in render(t.value)]
    good = all(isinstance(t.value, App) and t.value.func == "_create_outside_package_class_text" for t in ts) and ts
    (col.ok if good else col.bad)("C02.HEADER", f"{GENSTUBS}::_create_outside_package_class::append-has-no-header", repo.loc(GENSTUBS, em.funcs["_create_outside_package_class"].node),
                                  "appended text is a bare class declaration" if good else "unexpected appended text", *([] if good else ["text appended to an existing placeholder stub is not a bare class declaration"]))

    # the segments of the package line are the names of the analysed files: every *.py file is analysed, also `run-tests.py` or `2to3.py`
    ident_tests = []
    for rel2, quals in ((GETAPI, ("get_api",)), (GEN, (f"{GENCLS}._create_module_string",)), (GENSTUBS, ("generate_stub_data", "create_stub_files")), (GHELPER, ("_replace_if_safeds_keyword_in_path",))):
        for q in quals:
            fi2 = repo.maybe_function(rel2, q)
            if fi2 is None:
                continue
            for n in ast.walk(fi2.node):
                if isinstance(n, ast.Call) and isinstance(n.func, ast.Attribute) and n.func.attr == "isidentifier":
                    ident_tests.append(f"{q}:{n.lineno}")
                if isinstance(n, ast.Call) and ast.unparse(n.func) in ("re.fullmatch", "re.match") and n.args and isinstance(n.args[0], ast.Constant) and "a-zA-Z" in str(n.args[0].value):
                    ident_tests.append(f"{q}:{n.lineno}")
    gfi2 = repo.function(GETAPI, "get_api")
    (col.ok if ident_tests else col.bad)("C02.HEADER", f"{GETAPI}::get_api::module-names-are-identifiers", repo.loc(GETAPI, gfi2.node),
                                         f"file names / path segments are tested for being identifiers ({ident_tests[:2]})" if ident_tests else "no identifier test between file discovery and the package line",
                                         *([] if ident_tests else ["every *.py file below the source root is analysed and its name becomes a segment of the package line; only keywords are treated: "
                                                                   "`pkg/run-tests.py` gives `package pkg.run-tests`, `pkg/2to3.py` gives `package pkg.2to3` (no Safe-DS identifiers, with or without back-quotes)"]))

    # a type variable is listed (`fun f<T sub ...>`) and referenced under the name the analyser records for it.  mypy names a bound type variable
    # after the annotation as written (FindTypeVarVisitor.visit_unbound_type: `name = t.name`), which is dotted when the variable is reached through a
    # module (`typing.AnyStr`, `t.AnyStr`, `tv.T`): the recorded name has to be its last segment
    from ..core.libmodel import lib_function
    fv = lib_function("mypy/typeanal.py", "FindTypeVarVisitor.visit_unbound_type")
    as_written = any(isinstance(n, ast.Assign) and ast.unparse(n.targets[0]) == "name" and ast.unparse(n.value) == "t.name" for n in ast.walk(fv)) and any(
        isinstance(n, ast.Call) and ast.unparse(n.func).endswith("type_var_likes.append") and "name" in ast.unparse(n.args[0]) for n in ast.walk(fv))
    if not as_written:
        raise AnalysisError("library model: mypy's FindTypeVarVisitor.visit_unbound_type no longer records type variables under the annotation's name as written; re-triage the type-variable name rule")
    vfi2 = repo.function(VISITOR, "MyPyAstVisitor.mypy_type_to_abstract_type")
    ctors = [n for n in ast.walk(vfi2.node) if isinstance(n, ast.Call) and ast.unparse(n.func).endswith("TypeVarType") and any(k.arg == "name" for k in n.keywords)]
    if not ctors:
        raise AnalysisError("no TypeVarType(name=...) construction in mypy_type_to_abstract_type")
    for n in ctors:
        nm = next(k.value for k in n.keywords if k.arg == "name")
        src = ast.unparse(nm)
        # follow one local assignment
        if isinstance(nm, ast.Name):
            defs = [a for a in ast.walk(vfi2.node) if isinstance(a, ast.Assign) and any(isinstance(t, ast.Name) and t.id == nm.id for t in a.targets)]
            src = " | ".join(ast.unparse(a.value) for a in defs) or src
        last_segment = any(t in src for t in (".split('.')[-1]", '.split(".")[-1]', ".rpartition('.')[2]", '.rpartition(".")[2]', ".rsplit('.', 1)[-1]", '.rsplit(".", 1)[-1]', ".rpartition('.')[-1]", '.rpartition(".")[-1]'))
        (col.ok if last_segment else col.bad)("C02.NAME-PIPELINE", f"{VISITOR}::MyPyAstVisitor.mypy_type_to_abstract_type::type-variable-name", repo.loc(VISITOR, n), f"name = {src[:80]}",
                                              *([] if last_segment else ["a type variable that is referenced through its module (`def f(a: typing.AnyStr) -> typing.AnyStr`, `import typevars as tv; x: tv.T`) is recorded "
                                                                         "under mypy's dotted name: the stub says `fun f<typing.AnyStr sub ...>(a: typing.AnyStr)`, which is no identifier"]))

    # ------------------------------------------------------------------ TODO-LINES
    fl = [t for t in em.templates if em.name_of(t.fi) == "_create_todo_msg" and not (isinstance(t.value, Const) and t.value.v == "")]
    good = bool(fl) and all(render(t.value).endswith("\n") for t in fl)
    (col.ok if good else col.bad)("C02.TODO-LINES", f"{GEN}::_create_todo_msg::ends-with-newline", repo.loc(GEN, em.funcs["_create_todo_msg"].node),
                                  f"{[render(t.value)[-20:] for t in fl]}", *([] if good else ["the TODO block does not end with a line break: the following declaration is commented out"]))
    from .shared import share
    share(ctx, col, "C10", {"C10.WRITE-MODE"}, "a stub file has exactly one header: placeholder stubs are created once and only appended to afterwards")
    share(ctx, col, "C05", {"C05.UNION-NORMAL"}, "the nullable shorthand `X?` is only written for member kinds that render as a named type",
          key_filter=lambda o: "nullable-member-kind" in o.key)
    col.assume("Python identifiers of the analysed package are ASCII; numbers are rendered by str() of an int/float")
    col.assume("semantic validity (name resolution) and layout are not decided here")
