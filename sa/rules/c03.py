"""C03 — every public declaration appears in the stubs exactly once."""
from __future__ import annotations

import ast
import re

from ..core.absint import AV, Alt, App, Const, ListV, Obj, Outcome, Rep, State, StrT, Sym, walk_av
from ..core.ctx import GEN, GENSTUBS, VISITOR, WALKER, Ctx
from ..core.report import Collector
from ..core.source import AnalysisError
from .common import GENCLS, find_loops, fmt_facts, gen_state, mentions, new_effects, render, run_body, sym_is
from .visitor_model import (STACK, VCLS, child_selection, elem_obj, parent_obj, possible_parents, stmt_classes, visitor_state)

DECL = {"FuncDef", "Decorator", "OverloadedFuncDef", "ClassDef"}
REF_CHILDREN = {"Module": DECL, "Class": DECL | {"AssignmentStmt"}, "Constructor": {"AssignmentStmt"}, "Enum": {"AssignmentStmt"}}


def callbacks_for(ctx: Ctx, cls: str) -> tuple[AV, AV] | None:
    fi = ctx.repo.function(WALKER, "ASTWalker.__get_callbacks")
    it = ctx.interp(fi)
    st = State({"self": Sym("self"), "self._handler": Sym("self._handler", VCLS), "self._cache": Sym("self._cache")})
    node = Sym("node", cls)
    outs = it.run_function(fi, {"self": Sym("self"), "node": node}, st)
    res = None
    for o in outs:
        if o.kind == "return" and isinstance(o.value, ListV) and len(o.value.items) == 2:
            # ignore cache-hit paths (value comes from the cache of an earlier identical lookup)
            if any(isinstance(x, Sym) and x.path.startswith("self._cache") for x in walk_av(o.value)) or any(
                    isinstance(x, App) and "self._cache" in repr(x) for x in walk_av(o.value)):
                continue
            res = (o.value.items[0], o.value.items[1])
    return res


def register_obligations(ctx: Ctx, col: Collector, RULE: str, sel: dict) -> None:
    """Store-add and owner-add happen together for every parent kind the walker can produce (shared with C12.PAIRING)."""
    repo = ctx.repo
    # ------------------------------------------------------------------ REGISTER
    parents = possible_parents(sel)
    adders = {"classdef": ("add_class", "add_class"), "funcdef": ("add_function", ("add_function", "add_method", "add_constructor")), "enumdef": ("add_enum", "add_enum")}
    for kind in ("classdef", "funcdef", "enumdef"):
        lfi = repo.function(VISITOR, f"{VCLS}.leave_{kind}")
        efi = repo.function(VISITOR, f"{VCLS}.enter_{kind}")
        col.touched(lfi)
        for p in parents[kind]:
            if p in ("Constructor", "Function"):
                continue
            # does the matching enter handler provably raise for this parent?  (reported by C01.STACK, not here)
            eit = ctx.interp(efi, inline={"_is_public", "is_internal"})
            eouts = eit.run_function(efi, {"self": Sym("self"), "node": Sym("node")}, visitor_state((parent_obj("Module"), parent_obj(p)) if p != "Module" else (parent_obj("Module"),)))
            if eouts and all(o.kind == "raise" for o in eouts):
                col.ok(RULE, f"{VISITOR}::{VCLS}.leave_{kind}::parent={p}", repo.loc(VISITOR, efi.node),
                       f"enter_{kind} raises {sorted({o.exc for o in eouts})} for a {p} parent (a crash, reported under C01.STACK; nothing is silently dropped)", nontrivial=False)
                continue
            stack = ((parent_obj("Module"),) if p != "Module" else ()) + (parent_obj(p), elem_obj(kind))
            lit = ctx.interp(lfi)
            louts = lit.run_function(lfi, {"self": Sym("self"), "_": Sym("node")}, visitor_state(stack))
            store_add, owner_add = adders[kind]
            probs = []
            for o in louts:
                if o.kind == "raise":
                    probs.append(f"raises {o.exc}")
                    continue
                s_ok = any(e.kind == "call" and e.target == f"self.api.{store_add}" and e.args and isinstance(e.args[0], Obj) and e.args[0].get("id") == Sym("E.id") for e in o.effects)
                own = [e for e in o.effects if e.kind == "call" and e.target.startswith("parent.") and e.target.split(".")[1] in (owner_add if isinstance(owner_add, tuple) else (owner_add,))
                       and e.args and isinstance(e.args[0], Obj) and e.args[0].get("id") == Sym("E.id")]
                if not s_ok or len(own) != 1:
                    probs.append(f"store-add={s_ok}, owner-adds={len(own)}")
            key = f"{VISITOR}::{VCLS}.leave_{kind}::parent={p}"
            if probs or not louts:
                col.bad(RULE, key, repo.loc(VISITOR, lfi.node), "; ".join(sorted(set(probs))) or "no path",
                        f"a {kind[:-3]} whose parent is a {p} is not added to the API store and to exactly one owner ({sorted(set(probs))[0] if probs else 'no path'}): "
                        f"it vanishes from the inventory and the stubs" + (" while its members are still registered" if kind == "enumdef" else ""))
            else:
                col.ok(RULE, key, repo.loc(VISITOR, lfi.node), f"{len(louts)} path(s): self.api.{store_add}(x) and parent.add_*(x) together")
    # attributes and enum members
    afi = repo.function(VISITOR, f"{VCLS}.leave_assignmentstmt")
    col.touched(afi)
    for p, grand, elem_cls, store in (("Class", None, "Attribute", "add_attribute"), ("Constructor", "Class", "Attribute", "add_attribute"), ("Enum", None, "EnumInstance", "add_enum_instance")):
        elem = Obj(elem_cls, (("id", Sym("E.id")), ("name", Sym("E.name"))))
        stack = (parent_obj("Module"),) + ((parent_obj(grand),) if grand else ()) + (parent_obj(p), ListV((elem,)))
        outs = ctx.interp(afi).run_function(afi, {"self": Sym("self"), "_": Sym("node")}, visitor_state(stack))
        probs = []
        for o in outs:
            if o.kind == "raise":
                probs.append(f"raises {o.exc}")
                continue
            s_ok = any(e.kind == "call" and e.target == f"self.api.{store}" and e.args and e.args[0] == elem for e in o.effects)
            own = [e for e in o.effects if e.kind == "call" and e.target.endswith(f".{store}") and not e.target.startswith("self.api") and e.args and e.args[0] == elem]
            if not s_ok or len(own) != 1:
                probs.append(f"store-add={s_ok}, owner-adds={len(own)}")
        key = f"{VISITOR}::{VCLS}.leave_assignmentstmt::parent={p}"
        (col.ok if not probs and outs else col.bad)(RULE, key, repo.loc(VISITOR, afi.node), "; ".join(sorted(set(probs))) or f"{len(outs)} path(s): store and owner add together",
                                                    *([] if not probs and outs else [f"an {elem_cls} below a {p} is not registered with store and owner together"]))



def constructor_target_obligations(ctx: Ctx, col: Collector, RULE: str) -> None:
    """Which assignment targets of a constructor become attributes of the class, and with which static flag (shared with C12)."""
    repo = ctx.repo
    # in a constructor only members of the instance itself are attributes of the class (nothing is invented)
    pafi = repo.function(VISITOR, f"{VCLS}._parse_attributes")
    col.touched(pafi)

    def var(is_self: bool, name: str) -> Obj:
        return Obj("NameExpr", (("name", Const(name)), ("node", Obj("Var", (("is_self", Const(is_self)), ("name", Const(name)))))))

    shapes = [("self.x", Obj("MemberExpr", (("name", Const("x")), ("expr", var(True, "self")))), 1),
              ("parent.child (member of another object)", Obj("MemberExpr", (("name", Const("child")), ("expr", var(False, "parent")))), 0),
              ("self.sub.deep (member of a member)", Obj("MemberExpr", (("name", Const("deep")), ("expr", Obj("MemberExpr", (("name", Const("sub")), ("expr", var(True, "self"))))))), 0),
              ("index (local name inside a tuple target)", Obj("NameExpr", (("name", Const("index")), ("node", Obj("Var", (("is_self", Const(False)), ("name", Const("index"))))))), 0)]
    for label, lv, want in shapes:
        st = visitor_state((parent_obj("Module"), parent_obj("Class"), parent_obj("Constructor")))
        st.facts["call:self._is_attribute_already_defined"] = False
        outs = ctx.interp(pafi).run_function(pafi, {"self": Sym("self"), "lvalue": lv, "unanalyzed_type": Sym("unanalyzed_type"), "is_static": Const(False)}, st)
        counts = set()
        for o in outs:
            if o.kind == "raise":
                continue
            already = any(k.startswith("truthy:") and "_is_attribute_already_defined" in k and v for k, v in o.facts)
            if already:
                continue
            counts.add(sum(1 for e in o.effects if e.kind == "call" and e.target == "self._create_attribute"))
        key = f"{VISITOR}::{VCLS}._parse_attributes::constructor-target::{label.split(' ')[0]}"
        good = counts == {want}
        (col.ok if good else col.bad)(RULE, key, repo.loc(VISITOR, pafi.node), f"{label}: {want} attribute(s)" if good else f"{label}: attributes created per path {sorted(counts)}, reference {want}",
                                      *([] if good else [f"a constructor assignment to `{label}` creates {sorted(counts)} attribute(s) of the class instead of {want}: "
                                                         + ("the instance attribute is lost" if want else "`parent.child = self`, `cfg.options.verbose = True` or `index, self.pos = 0, 1` in __init__ add "
                                                            "attributes (child, verbose, index) the class does not declare")]))

    # unpacking in a constructor: each element is judged like a target of its own, as an instance attribute
    tup = Obj("TupleExpr", (("items", ListV((shapes[0][1], shapes[3][1]))),))
    st = visitor_state((parent_obj("Module"), parent_obj("Class"), parent_obj("Constructor")))
    outs = ctx.interp(pafi, inline={"_parse_attributes"}).run_function(pafi, {"self": Sym("self"), "lvalue": tup, "unanalyzed_type": Sym("unanalyzed_type"), "is_static": Const(False)}, st)
    probs = set()
    seen_paths = 0
    for o in outs:
        if o.kind == "raise":
            continue
        if any(k.startswith("truthy:") and "_is_attribute_already_defined" in k and v for k, v in o.facts):
            continue
        seen_paths += 1
        creates = [e for e in o.effects if e.kind == "call" and e.target == "self._create_attribute"]
        if len(creates) != 1:
            probs.add(f"{len(creates)} attributes for `self.x, index = ...`")
        for e in creates:
            static_arg = dict(e.kwargs).get("is_static", e.args[2] if len(e.args) > 2 else None)
            if static_arg != Const(False):
                probs.add(f"is_static={static_arg!r} for an element of a constructor's tuple target")
            if e.args and e.args[0] != shapes[0][1]:
                probs.add("the attribute is created for the local name")
    key = f"{VISITOR}::{VCLS}._parse_attributes::constructor-target::tuple"
    good = seen_paths > 0 and not probs
    (col.ok if good else col.bad)(RULE, key, repo.loc(VISITOR, pafi.node), "`self.x, index = ...` in a constructor: one instance attribute (x)" if good else "; ".join(sorted(probs)) or "no path",
                                  *([] if good else [f"the elements of a tuple / list target in a constructor are not parsed like single targets of the same statement ({sorted(probs)[0] if probs else 'no path'}): "
                                                     f"`self.x, self.y = x, y` gives static attributes and `lo, hi = ...` invents attributes lo and hi"]))



def check(ctx: Ctx, col: Collector, tier: str) -> None:
    repo = ctx.repo
    col.spec("C03.CHILD-KINDS", "nothing public is dropped: the walker descends into every declaration-bearing statement class at each container level",
             "abstract interpretation of the walker's child selection over all statement classes of the library model", floor=9)
    col.spec("C03.FILE-SKIP", "every analysed module that declares something reaches the generator: no module is skipped on a criterion that says nothing about its declarations",
             "per-iteration effects of the module loop of generate_stub_data over module kinds", floor=2)
    col.spec("C03.UNWRAP", "wrapped definitions (decorated, overloaded) reach a handler", "class sets of Decorator.func / OverloadedFuncDef.impl against the reflective dispatch", floor=3)
    col.spec("C03.REGISTER", "every visited declaration is added to the API store and to its owner, for every parent kind the walker can produce",
             "stack-shape analysis + path analysis of the leave_* handlers", floor=8)
    col.spec("C03.COVERAGE", "each model collection is emitted by exactly one loop and each public element by exactly one emitter call",
             "loops and per-iteration effects of the module / class / enum emitters", floor=7)
    col.spec("C03.MOVE", "a re-exported declaration is moved, not copied", "path correspondence between the re-export test, the re-export list and the caller's empty return", floor=5)

    sel = child_selection(ctx)
    wfi = repo.function(WALKER, "ASTWalker.__walk")
    col.touched(wfi)
    # ------------------------------------------------------------------ CHILD-KINDS
    for cont, want in REF_CHILDREN.items():
        for k in sorted(want):
            key = f"{WALKER}::ASTWalker.__walk::{cont}::{k}"
            if k in sel[cont]:
                col.ok("C03.CHILD-KINDS", key, repo.loc(WALKER, wfi.node), f"{cont} level descends into {k}")
            else:
                col.bad("C03.CHILD-KINDS", key, repo.loc(WALKER, wfi.node), f"{cont} level selects {sorted(sel[cont])}",
                        f"at {cont.lower()} level the walker does not descend into {k} statements: declarations of that form are silently dropped")
    # methods, properties and nested classes of an enum are public declarations too
    dropped = sorted(DECL - sel["Enum"])
    key = f"{WALKER}::ASTWalker.__walk::Enum::methods-and-classes"
    if dropped:
        col.bad("C03.CHILD-KINDS", key, repo.loc(WALKER, wfi.node), f"enum level selects {sorted(sel['Enum'])}; not descended: {dropped}",
                "methods, properties and nested classes of an Enum are not visited and do not appear in the stubs (only the members do)")
    else:
        col.ok("C03.CHILD-KINDS", key, repo.loc(WALKER, wfi.node), "enum bodies are searched for definitions")
    compound = [k for k in stmt_classes(ctx) if ctx.lib.block_fields(k) and k not in ("FuncDef", "ClassDef", "Decorator", "OverloadedFuncDef", "Block")]
    for cont in ("Module", "Class"):
        missing = [k for k in compound if k not in sel[cont]]
        key = f"{WALKER}::ASTWalker.__walk::{cont}::compound-statements"
        if missing:
            col.bad("C03.CHILD-KINDS", key, repo.loc(WALKER, wfi.node), f"not descended: {missing}",
                    f"definitions nested in {', '.join(missing[:3])}… at {cont.lower()} level (e.g. `if X: def f(): ...`, `try: class C: ...`) are not visited and vanish from the stubs")
        else:
            col.ok("C03.CHILD-KINDS", key, repo.loc(WALKER, wfi.node), "compound statements are searched for definitions")

    # ------------------------------------------------------------------ FILE-SKIP
    gsfi = repo.function(GENSTUBS, "generate_stub_data")
    col.touched(gsfi)
    git_ = ctx.interp(gsfi)
    git_.run_function(gsfi, {"stubs_generator": Sym("stubs_generator"), "out_path": Sym("out_path")})
    mloops = find_loops(git_, gsfi, lambda v: "modules" in repr(v))
    if len(mloops) != 1:
        raise AnalysisError("module loop of generate_stub_data not found")
    mnode, _, _, mentry = mloops[0]
    for mname, what in (("__init__", "a package's __init__.py"), ("mod", "an ordinary module")):
        mod = Obj("Module", (("name", Const(mname)), ("id", Sym("M.id")), ("classes", Sym("M.classes")), ("global_functions", Sym("M.global_functions")), ("enums", Sym("M.enums"))))
        outs = run_body(git_, mnode, mentry.clone(), mod)
        generated = [o for o in outs if any(e.kind == "call" and e.target in ("stubs_generator", "<<stubs_generator>>") and e.args and e.args[0] == mod for e in new_effects(o, mentry))]
        key = f"{GENSTUBS}::generate_stub_data::module-kind::{mname}"
        if generated:
            col.ok("C03.FILE-SKIP", key, repo.loc(GENSTUBS, mnode), f"{what} is handed to the generator on {len(generated)} of {len(outs)} paths")
        else:
            col.bad("C03.FILE-SKIP", key, repo.loc(GENSTUBS, mnode), f"{len(outs)} paths, none calls the generator for a module named {mname!r}",
                    f"{what} is skipped before the generator sees it: functions, classes and attributes that are written directly in it appear in no stub")

    # ------------------------------------------------------------------ UNWRAP
    handlers = {}
    for cls in ("FuncDef", "ClassDef", "MypyFile", "AssignmentStmt", "Decorator", "NoneType", "OverloadedFuncDef"):
        cb = callbacks_for(ctx, cls)
        handlers[cls] = cb is not None and cb[0] != Const(None) and cb[1] != Const(None)
    ALIASES = {"OverloadPart": ["FuncDef", "Decorator"]}

    def ann_classes(ann: str) -> list[str]:
        out = []
        for part in [p.strip() for p in ann.split("|")]:
            if part in ALIASES:
                out += ALIASES[part]
            elif part == "None":
                out.append("NoneType")
            elif part:
                out.append(part.split(".")[-1])
        return out

    def classes_of(path: str, root_cls: str) -> list[str]:
        """Possible classes of the value at an access path below a node of class root_cls (declared attribute types of the library)."""
        cur = [root_cls]
        for step in re.findall(r"\.(\w+)|\[(\d+|\*)\]", path[1:] if path.startswith("n") else path):
            attr, idx = step
            nxt: list[str] = []
            for c in cur:
                if attr:
                    ann = ctx.lib.attr_type(c, attr) or ""
                    nxt += [f"list:{ann[5:-1]}"] if ann.startswith("list[") else ann_classes(ann)
                else:
                    nxt += ann_classes(c[5:]) if c.startswith("list:") else []
            cur = nxt
        return sorted(set(cur))

    for cls in ("Decorator", "OverloadedFuncDef"):
        it = ctx.interp(wfi)
        outs = it.run_function(wfi, {"self": Sym("self"), "node": Sym("n", cls), "visited_nodes": Sym("visited")})
        entered: dict[str, set[str]] = {}
        for o in outs:
            for e in o.effects:
                if e.kind == "call" and e.target.endswith("__enter") and e.args and isinstance(e.args[0], Sym):
                    pth = e.args[0].path
                    cl = set(classes_of(pth, cls))
                    for fk, fv in e.conds:
                        if f"<{pth}>" in fk or f"<{pth}:" in fk:
                            if fk.startswith("isinstance(") and fk.endswith(")"):
                                names = fk[fk.rindex(",") + 1:-1].split("|")
                                cl = {c for c in cl if (c in names) == fv} if all(n_ in ("Decorator", "FuncDef", "NoneType", "OverloadedFuncDef") for n_ in names) else cl
                            if "==None" in fk.replace(" ", "") or "None==" in fk.replace(" ", ""):
                                cl = {c for c in cl if (c == "NoneType") == fv}
                    entered.setdefault(pth, set()).update(cl)
        key0 = f"{WALKER}::ASTWalker.__walk::unwrap::{cls}"
        if not entered or f"n" in entered:
            col.bad("C03.UNWRAP", key0, repo.loc(WALKER, wfi.node), f"enters {sorted(entered)}", f"a {cls} node is dispatched as such (it has no handler) instead of being unwrapped")
            continue
        for pth, cl in sorted(entered.items()):
            for c in sorted(cl) or ["?"]:
                key = f"{key0}::{pth}:{c}"
                if handlers.get(c):
                    col.ok("C03.UNWRAP", key, repo.loc(WALKER, wfi.node), f"{cls}: the walker enters {pth}, which can be a {c}: handled by enter_/leave_{c.lower()}")
                else:
                    col.bad("C03.UNWRAP", key, repo.loc(WALKER, wfi.node), f"{cls}: enters {pth} of class {c}; no enter_{c.lower()} handler",
                            f"for a {cls} the walker enters {pth}, which can be {'None' if c == 'NoneType' else 'a ' + c} according to mypy's declarations; the visitor has no "
                            f"handler for it, so the definition is silently dropped" + (" (overloads without implementation)" if c == "NoneType" else " (e.g. a property with a setter)" if c == "Decorator" else ""))

    register_obligations(ctx, col, "C03.REGISTER", sel)

    # ------------------------------------------------------------------ ATTR-TARGETS
    col.spec("C03.ATTR-TARGETS", "class attributes and constructor-assigned instance attributes are collected for every assignment-target form",
             "specialisation of enter_assignmentstmt over target classes and parent kinds", floor=4)
    asfi = repo.function(VISITOR, f"{VCLS}.enter_assignmentstmt")
    col.touched(asfi)
    for p, grand, targets, static in (("Class", None, ("NameExpr", "TupleExpr"), True), ("Constructor", "Class", ("MemberExpr", "TupleExpr"), False)):
        for tcls in targets:
            stack = (parent_obj("Module"),) + ((parent_obj(grand),) if grand else ()) + (parent_obj(p),)
            node = Obj("AssignmentStmt", (("lvalues", ListV((Sym("lv", tcls),))), ("unanalyzed_type", Sym("node.unanalyzed_type"))))
            outs = ctx.interp(asfi).run_function(asfi, {"self": Sym("self"), "node": node}, visitor_state(stack))
            good = bool(outs)
            for o in outs:
                calls = [e for e in o.effects if e.kind == "call" and e.target == "self._parse_attributes" and e.args and e.args[0] == Sym("lv", tcls)]
                if o.kind != "raise" and (len(calls) != 1 or dict(calls[0].kwargs).get("is_static", calls[0].args[2] if len(calls[0].args) > 2 else None) != Const(static)):
                    good = False
            key = f"{VISITOR}::{VCLS}.enter_assignmentstmt::parent={p},target={tcls}"
            (col.ok if good else col.bad)("C03.ATTR-TARGETS", key, repo.loc(VISITOR, asfi.node), f"_parse_attributes(lvalue, ..., is_static={static}) on every path" if good else "not parsed on some path",
                                          *([] if good else [f"an assignment to a {tcls} target below a {p} is not parsed into attributes (is_static={static}): those attributes vanish"]))

    constructor_target_obligations(ctx, col, "C03.ATTR-TARGETS")

    # ------------------------------------------------------------------ COVERAGE
    colls = [("_create_module_string", "module", "global_functions", "self._create_function_string", {"is_public": Const(True)}),
             ("_create_module_string", "module", "classes", "self._create_class_string", {"is_public": Const(True), "inherits_from_exception": Const(False)}),
             ("_create_module_string", "module", "enums", "self._create_enum_string", {}),
             ("_create_class_string", "class_", "classes", "self._create_class_string", {"is_public": Const(True)})]
    for fname, owner, coll, emitter, flags in colls:
        fi = repo.function(GEN, f"{GENCLS}.{fname}")
        col.touched(fi)
        it = ctx.interp(fi)
        outs = it.run_function(fi, {"self": Sym("self"), owner: Sym(owner), "in_reexport_module": Const(True)}, gen_state())
        loops = find_loops(it, fi, lambda v: sym_is(v, f"{owner}.{coll}"))
        key = f"{GEN}::{GENCLS}.{fname}::{coll}"
        if len(loops) != 1:
            col.bad("C03.COVERAGE", key, repo.loc(GEN, fi.node), f"{len(loops)} loops over {owner}.{coll}",
                    f"{owner}.{coll} is emitted by {len(loops)} loops (expected exactly one): declarations are {'dropped' if not loops else 'duplicated'}")
            continue
        node, _, _, entry = loops[0]
        el = Obj("Element", tuple({"name": Sym("X.name"), **flags}.items()))
        probs = []
        for o in run_body(it, node, entry.clone(), el):
            eff = new_effects(o, entry)
            calls = [e for e in eff if e.kind == "call" and e.target == emitter and (el in e.args or el in [v for _, v in e.kwargs])]
            if len(calls) != 1:
                probs.append(f"{len(calls)} emitter calls on a path")
                continue
            # the emitter's text reaches the accumulated module/class text
            res = App(emitter, calls[0].args, calls[0].kwargs, calls[0].node.lineno)
            occ = [sum(1 for x in walk_av(v) if x == res) for n_, v in o.env.items() if isinstance(v, (StrT, Alt)) and entry.env.get(n_) != v]
            flows = any(c >= 1 for c in occ)
            empty_guard = o.fact(f"truthy:{res!r}") is False
            if not flows and not empty_guard:
                probs.append("the emitted text is not appended to the result")
            if any(c > 1 for c in occ):
                probs.append("the emitted text is appended more than once")
        if probs:
            col.bad("C03.COVERAGE", key, repo.loc(GEN, node), "; ".join(sorted(set(probs))), f"a public element of {owner}.{coll}: {sorted(set(probs))[0]}")
        else:
            col.ok("C03.COVERAGE", key, repo.loc(GEN, node), f"one loop; a public element reaches exactly one {emitter.split('.')[1]} call whose text is appended")
    # class body: attributes / methods / constructor each rendered by exactly one call
    cfi = repo.function(GEN, f"{GENCLS}._create_class_string")
    couts = ctx.interp(cfi).run_function(cfi, {"self": Sym("self"), "class_": Sym("class_"), "class_indentation": Const(""), "in_reexport_module": Const(True)}, gen_state())
    for what, target, argpath in (("attributes", "self._create_class_attribute_string", "class_.attributes"), ("methods", "self._create_class_method_string", "class_.methods"),
                                  ("constructor parameters", "self._create_parameter_string", "class_.constructor.parameters")):
        counts = set()
        used = True
        for o in couts:
            if o.kind != "return" or render(o.value) == "":
                continue
            calls = [e for e in o.effects if e.kind == "call" and e.target == target and e.args and e.args[0] == Sym(argpath)]
            if what == "constructor parameters" and (o.fact("truthy:<class_.is_abstract>") is True or o.fact("truthy:<class_.constructor>") is False):
                continue
            counts.add(len(calls))
            has_body = isinstance(o.value, StrT) and isinstance(o.value.parts[-1], str) and o.value.parts[-1].rstrip().endswith("}")
            for c in calls:
                res = App(target, c.args, c.kwargs, c.node.lineno)
                if (has_body or what == "constructor parameters") and not any(x == res for x in walk_av(o.value)):
                    used = False
        key = f"{GEN}::{GENCLS}._create_class_string::{what}"
        if counts == {1} and used:
            col.ok("C03.COVERAGE", key, repo.loc(GEN, cfi.node), f"{what} rendered by exactly one call on every path, result embedded in the class text")
        else:
            col.bad("C03.COVERAGE", key, repo.loc(GEN, cfi.node), f"calls per path {sorted(counts)}, embedded={used}", f"the class's {what} are rendered {sorted(counts)} times / not embedded: members dropped or duplicated")
    # attribute and method loops: one entry per public element
    for fname, coll, flags, emit_pred in (("_create_class_attribute_string", "attributes", {"is_public": Const(True), "type": Const(None), "is_static": Const(False), "docstring": Sym("X.docstring")}, None),
                                          ("_create_class_method_string", "methods", {"is_public": Const(True), "is_property": Sym("X.is_property")}, "function_string")):
        fi = repo.function(GEN, f"{GENCLS}.{fname}")
        col.touched(fi)
        it = ctx.interp(fi)
        it.run_function(fi, {"self": Sym("self"), coll: Sym(coll), "inner_indentations": Sym("ind")}, gen_state())
        loops = find_loops(it, fi, lambda v: sym_is(v, coll))
        key = f"{GEN}::{GENCLS}.{fname}::{coll}"
        if len(loops) != 1:
            col.bad("C03.COVERAGE", key, repo.loc(GEN, fi.node), f"{len(loops)} loops", f"{coll} are emitted by {len(loops)} loops")
            continue
        node, _, _, entry = loops[0]
        el = Obj("Element", tuple({"name": Sym("X.name"), **flags}.items()))
        counts = set()
        for o in run_body(it, node, entry.clone(), el):
            aps = [e for e in new_effects(o, entry) if e.kind == "mutate" and e.target.endswith(".append")]
            counts.add(len(aps))
        (col.ok if counts == {1} else col.bad)("C03.COVERAGE", key, repo.loc(GEN, node), f"appends per iteration for a public element: {sorted(counts)}",
                                               *([] if counts == {1} else [f"a public element of {coll} produces {sorted(counts)} entries"]))
    # an attribute whose *type* is a type variable (`value: T` in `class Box(Generic[T])`) is a member like any other; only the
    # definition of a type variable in a class body (`U = TypeVar("U")`: attribute U of kind TypeVarType named U) is none
    afi3 = repo.function(GEN, f"{GENCLS}._create_class_attribute_string")
    ait = ctx.interp(afi3)
    ait.run_function(afi3, {"self": Sym("self"), "attributes": Sym("attributes"), "inner_indentations": Sym("ind")}, gen_state())
    aloops = find_loops(ait, afi3, lambda v: sym_is(v, "attributes"))
    if len(aloops) == 1:
        node, _, _, entry = aloops[0]
        for label, aname, tvname, want in (("typed-with-a-type-variable", "value", "T", {1}), ("type-variable-definition", "U", "U", {0, 1})):
            el = Obj("Element", (("name", Const(aname)), ("is_public", Const(True)), ("type", Sym("X.type")), ("is_static", Const(True)), ("docstring", Sym("X.docstring"))))
            e = entry.clone()
            e.neq[repr(Sym("X.type"))] = {Const(None)}
            e.eq["[](.to_dict(<X.type>), 'kind')"] = Const("TypeVarType")
            e.eq["[](.to_dict(<X.type>), 'name')"] = Const(tvname)
            counts = {len([x for x in new_effects(o, entry) if x.kind == "mutate" and x.target.endswith(".append")]) for o in run_body(ait, node, e, el)}
            good = bool(counts) and counts <= want
            (col.ok if good else col.bad)("C03.COVERAGE", f"{GEN}::{GENCLS}._create_class_attribute_string::attributes::{label}", repo.loc(GEN, node),
                                          f"attribute {aname} of type variable {tvname}: entries per path {sorted(counts)}",
                                          *([] if good else [f"a public attribute whose type is a type variable (`class Box(Generic[T]): value: T`, `self.first: T = value`) produces {sorted(counts)} entries: "
                                                             f"the member vanishes from the stub (every attribute of kind TypeVarType is skipped, not only type-variable definitions)"]))
    # the visitor side of the same exemption: an assignment target mypy did not bind to a variable *here* (`self.count = 1` in
    # __init__ when a method placed earlier also assigns self.count: MemberExpr.node stays None, semanal binds only the first
    # definition) is still an attribute of the class; only a target bound to a type-variable expression is a type-variable definition
    cafi = repo.function(VISITOR, f"{VCLS}._create_attribute")
    col.touched(cafi)
    member = Obj("MemberExpr", (("name", Const("count")), ("fullname", Const("")), ("node", Const(None)), ("expr", Sym("self_expr", "NameExpr"))))
    couts = ctx.interp(cafi).run_function(cafi, {"self": Sym("self"), "attribute": member, "unanalyzed_type": Const(None), "is_static": Const(False)},
                                          visitor_state((parent_obj("Module"), parent_obj("Class"), parent_obj("Constructor"))))
    kinds = set()
    for o in couts:
        if o.kind != "return" or not isinstance(o.value, Obj):
            kinds.add(o.kind if o.kind != "return" else f"returns {o.value!r}")
            continue
        t = o.value.get("type")
        if isinstance(t, Obj) and t.cls.endswith("TypeVarType"):
            kinds.add(f"type TypeVarType({t.get('name')!r})")
        else:
            kinds.add("attribute")
    key = f"{VISITOR}::{VCLS}._create_attribute::target-bound-elsewhere"
    good = kinds == {"attribute"}
    (col.ok if good else col.bad)("C03.COVERAGE", key, repo.loc(VISITOR, cafi.node), "a member target without a variable of its own (node None) is an attribute without type-variable type" if good else f"outcomes {sorted(kinds)}",
                                  *([] if good else [f"a constructor assignment whose target mypy bound elsewhere (`self.count = 1` in __init__ while a method placed before __init__ also assigns "
                                                     f"self.count: MemberExpr.node is None) is recorded as {sorted(kinds)}: every target that is not a Var is taken for a type-variable definition named like the "
                                                     f"attribute, which the generator skips - the public attribute vanishes from the stub"]))
    # enum members
    efi = repo.function(GEN, f"{GENCLS}._create_enum_string")
    col.touched(efi)
    eit = ctx.interp(efi)
    eouts = eit.run_function(efi, {"self": Sym("self"), "enum_data": Sym("enum_data")}, gen_state())
    loops = find_loops(eit, efi, lambda v: sym_is(v, "enum_data.instances"))
    ok_enum = len(loops) == 1 and any(mentions(o.value, "enum_data.instances[*].name") for o in eouts if o.kind == "return")
    (col.ok if ok_enum else col.bad)("C03.COVERAGE", f"{GEN}::{GENCLS}._create_enum_string::instances", repo.loc(GEN, efi.node),
                                     "one loop over enum_data.instances; each member name is part of the enum text" if ok_enum else f"{len(loops)} loops",
                                     *([] if ok_enum else ["enum members are not emitted by exactly one loop"]))

    # ------------------------------------------------------------------ MOVE
    hfi = repo.function(GEN, f"{GENCLS}._has_node_shorter_reexport")
    col.touched(hfi)
    houts = ctx.interp(hfi).run_function(hfi, {"self": Sym("self"), "node": Sym("node")}, gen_state({"self.reexport_modules": Sym("self.reexport_modules")}))
    probs = []
    for o in houts:
        if o.kind != "return":
            probs.append(o.kind)
            continue
        appended = [e for e in o.effects if e.target.endswith(".append") and e.args and e.args[0] == Sym("node") and "reexport_modules" in repr(e.node and ast.unparse(e.node))]
        if o.value == Const(True) and len(appended) != 1:
            probs.append(f"returns True with {len(appended)} appends to the re-export list")
        if o.value == Const(False) and appended:
            probs.append("appends to the re-export list but returns False (the declaration is emitted twice)")
        if o.value not in (Const(True), Const(False)):
            probs.append(f"returns {o.value!r}")
    (col.ok if not probs and houts else col.bad)("C03.MOVE", f"{GEN}::{GENCLS}._has_node_shorter_reexport::append-iff-true", repo.loc(GEN, hfi.node),
                                                 f"{len(houts)} paths: appended to the re-export list exactly on the paths that return True" if not probs else "; ".join(sorted(set(probs))),
                                                 *([] if not probs and houts else [sorted(set(probs or ['no path']))[0]]))
    # only module-level declarations can be moved: every emission of a class or function from inside a class (nested classes, inherited nested
    # classes, methods) must bypass the re-export test, which has side effects (it registers the declaration for the re-export module)
    gm3 = repo.module(GEN)
    for fi in gm3.functions.values():
        inside_class = fi.qualname.rsplit(".", 1)[-1] in ("_create_class_string", "_create_internal_class_string", "_create_class_method_string")
        if not inside_class:
            continue
        for n in ast.walk(fi.node):
            if isinstance(n, ast.Call) and ast.unparse(n.func) in ("self._create_class_string", "self._create_function_string"):
                kw = {k.arg: k.value for k in n.keywords}
                bypass = any(isinstance(kw.get(a), ast.Constant) and kw[a].value is True for a in ("in_reexport_module", "is_method"))
                key = f"{GEN}::{fi.qualname}::member-emission-bypasses-move::{ast.unparse(n.func).split('.')[-1]}"
                (col.ok if bypass else col.bad)("C03.MOVE", key, repo.loc(GEN, n), f"`{ast.unparse(n)[:80]}`",
                                                *([] if bypass else [f"{fi.qualname} emits a member of a class through `{ast.unparse(n)[:60]}` without in_reexport_module=True / is_method=True: the re-export test runs for a "
                                                                     f"declaration that cannot be moved, registers it for a re-export module (changing the dictionary that create_reexport_module_strings iterates: "
                                                                     f"RuntimeError) and drops its text from the class"]))
    # the alias a moved declaration takes is the alias of the import that names *it*, not of an import whose name merely ends like it
    # (nor of an import that names a declaration of the same name in another module: `from ._v1 import Model as ModelV1` / `from ._v2 import Model`)
    for label, qn, want_alias in (("own import", "_impl.read", True), ("own import, absolute", "pkg._impl.read", True), ("import of a longer name", "_impl.fast_read", False),
                                  ("import of a module path ending in the name", "_impl.read.helpers", False), ("import of a namesake in another module", "_other.read", False)):
        qi = Obj("QualifiedImport", (("qualified_name", Const(qn)), ("alias", Const("fread"))))
        mod = Obj("Module", (("id", Const("pkg")), ("qualified_imports", ListV((qi,)))))
        nodeo = Obj("Function", (("name", Const("read")), ("id", Const("pkg/_impl/read")), ("reexported_by", ListV((mod,)))))
        aouts = ctx.interp(hfi).run_function(hfi, {"self": Sym("self"), "node": nodeo}, gen_state({"self.reexport_modules": Sym("self.reexport_modules")}))
        moved = [o for o in aouts if o.kind == "return" and o.value == Const(True)]
        renamed = [o for o in moved if any(e.kind == "store" and e.target == "node.name" for e in o.effects)]
        good = bool(moved) and ((len(renamed) == len(moved)) if want_alias else not renamed)
        key = f"{GEN}::{GENCLS}._has_node_shorter_reexport::alias-of::{qn}"
        (col.ok if good else col.bad)("C03.MOVE", key, repo.loc(GEN, hfi.node), f"{label} (`from {qn} import ... as fread`), declaration `read`: renamed on {len(renamed)} of {len(moved)} moving paths",
                                      *([] if good else [f"a moved declaration `read` (pkg/_impl/read) takes the alias of `from .{qn.rsplit('.', 1)[0]} import {qn.rsplit('.', 1)[1]} as fread` ({label}): with "
                                                         f"`from ._impl import read, fast_read as fread` both functions are written as `fread` into one stub file and `read` is lost; with "
                                                         f"`from ._v1 import Model as ModelV1` / `from ._v2 import Model` both classes are written to Model.sdsstub and ModelV1 is lost"
                                                         if not want_alias else "the alias of the declaration's own import is not applied"]))
    # the packages a declaration can be moved to are those whose import leads to *it*: the key of a relative import starts at the importing package, so
    # `pkg/a/__init__.py: from .impl import Foo` re-exports pkg.a.impl.Foo and not pkg.b.impl.Foo (evaluated on a concrete re-export map)
    from ..core.absint import DictV
    rbfi = repo.function(VISITOR, f"{VCLS}._get_reexported_by")
    col.touched(rbfi)
    for keyc, label in (("impl.Foo", "by name"), ("impl.*", "star")):
        res = {}
        for qn in ("pkg.a.impl.Foo", "pkg.b.impl.Foo"):
            src = Obj("Module", (("id", Const("pkg/a")),))
            api = Obj("API", (("reexport_map", DictV(((Const(keyc), ListV((src,), False, "set")),))),))
            routs = ctx.interp(rbfi).run_function(rbfi, {"self": Sym("self"), "qname": Const(qn)}, State({"self": Sym("self"), "self.api": api}))
            res[qn] = any(o.kind == "return" and "pkg/a" in repr(o.value) for o in routs)
        good = res["pkg.a.impl.Foo"] and not res["pkg.b.impl.Foo"]
        key = f"{VISITOR}::{VCLS}._get_reexported_by::import-leads-to-the-declaration::{keyc}"
        (col.ok if good else col.bad)("C03.MOVE", key, repo.loc(VISITOR, rbfi.node), f"`from .impl import {'Foo' if label == 'by name' else '*'}` in pkg/a/__init__.py: re-exports pkg.a.impl.Foo={res['pkg.a.impl.Foo']}, pkg.b.impl.Foo={res['pkg.b.impl.Foo']}",
                                      *([] if good else [f"a {label} import of pkg/a/__init__.py is taken for a re-export of every declaration whose qualified name ends like the imported text: `class Foo` of "
                                                         f"pkg/b/impl.py is moved to package pkg.a (pkg/a/Foo.sdsstub), where it overwrites the stub of pkg.a.impl.Foo - one class is lost, the other "
                                                         f"declared in a foreign package" if res["pkg.b.impl.Foo"] else "the re-export of the package's own module is not recognised"]))
    # an import under a private alias (`from .shapes import Circle as _Circle`) publishes nothing: the declaration stays where it is, under its own name
    qi = Obj("QualifiedImport", (("qualified_name", Const(".shapes.Circle")), ("alias", Const("_Circle"))))
    mod = Obj("Module", (("id", Const("pkg")), ("qualified_imports", ListV((qi,)))))
    nodeo = Obj("Class", (("name", Const("Circle")), ("reexported_by", ListV((mod,)))))
    pouts = ctx.interp(hfi, inline={"is_internal"}).run_function(hfi, {"self": Sym("self"), "node": nodeo}, gen_state({"self.reexport_modules": Sym("self.reexport_modules")}))
    moved_private = [o for o in pouts if o.kind == "return" and o.value == Const(True) and any(e.kind == "store" and e.target == "node.name" and e.args and e.args[0] == Const("_Circle") for e in o.effects)]
    (col.ok if not moved_private else col.bad)("C03.MOVE", f"{GEN}::{GENCLS}._has_node_shorter_reexport::private-alias-moves-nothing", repo.loc(GEN, hfi.node),
                                               "a re-export under a private alias does not move the declaration" if not moved_private else f"{len(moved_private)} path(s) move the class and rename it to `_Circle`",
                                               *([] if not moved_private else ["a public class that a package imports under a private alias (`pk/__init__.py: from .shapes import Circle as _Circle`) is moved to the package and "
                                                                               "declared as `class _Circle`; the public `pk.shapes.Circle` disappears from the stubs (C04: a private name is emitted)"]))
    for fname, arg, extra in (("_create_class_string", "class_", {"class_indentation": Const("")}), ("_create_function_string", "function", {"indentations": Const(""), "is_method": Const(False)})):
        fi = repo.function(GEN, f"{GENCLS}.{fname}")
        outs = ctx.interp(fi).run_function(fi, {"self": Sym("self"), arg: Sym(arg), "in_reexport_module": Const(False), **extra}, gen_state())
        probs = []
        seen_true = False
        for o in outs:
            f = o.fact(f"truthy:self._has_node_shorter_reexport(node=<{arg}>)")
            if f is None:
                probs.append("the re-export test is not consulted on a path")
            elif f is True:
                seen_true = True
                if not (o.kind == "return" and o.value == Const("")):
                    probs.append("a declaration moved to a re-export module is also emitted in its own module")
            elif o.kind == "return" and o.value == Const(""):
                probs.append("a declaration that is not moved is dropped from its own module")
        key = f"{GEN}::{GENCLS}.{fname}::moved-then-empty"
        (col.ok if not probs and seen_true else col.bad)("C03.MOVE", key, repo.loc(GEN, fi.node), "returns '' exactly when the declaration was moved" if not probs else "; ".join(sorted(set(probs))),
                                                         *([] if not probs and seen_true else [f"{fname}: {sorted(set(probs or ['re-export test missing']))[0]}"]))
        # nested / inlined emissions bypass the test
        outs2 = ctx.interp(fi).run_function(fi, {"self": Sym("self"), arg: Sym(arg), "in_reexport_module": Const(True), **extra}, gen_state())
        bypass = not any(e.kind == "call" and e.target == "self._has_node_shorter_reexport" for o in outs2 for e in o.effects)
        (col.ok if bypass else col.bad)("C03.MOVE", f"{GEN}::{GENCLS}.{fname}::bypass-in-reexport-module", repo.loc(GEN, fi.node),
                                        "with in_reexport_module=True the declaration is emitted unconditionally" if bypass else "test still consulted",
                                        *([] if bypass else [f"{fname}: a declaration emitted inside its re-export module (or nested) is tested for re-export again and can vanish"]))
    rfi = repo.function(GEN, f"{GENCLS}.create_reexport_module_strings")
    col.touched(rfi)
    rit = ctx.interp(rfi)
    rit.run_function(rfi, {"self": Sym("self"), "out_path": Sym("out_path")}, gen_state({"self.reexport_modules": Sym("self.reexport_modules")}))
    inner = [(n, *rit.loops[id(n)][0]) for n in ast.walk(rfi.node) if isinstance(n, ast.For) and id(n) in rit.loops and not any(isinstance(x, ast.For) and x is not n for x in ast.walk(n))]
    probs = []
    for node, itv, el, entry in inner:
        for cls, emitter in (("Class", "self._create_class_string"), ("Function", "self._create_function_string")):
            x = Obj(cls, (("name", Sym("X.name")), ("id", Sym("X.id"))))
            for o in run_body(rit, node, entry.clone(), x):
                eff = new_effects(o, entry)
                calls = [e for e in eff if e.kind == "call" and e.target == emitter]
                aps = [e for e in eff if e.kind == "mutate" and e.target.endswith(".append")]
                if len(calls) != 1 or len(aps) != 1 or dict(calls[0].kwargs).get("in_reexport_module") != Const(True):
                    probs.append(f"{cls}: {len(calls)} emitter calls, {len(aps)} module entries, in_reexport_module={dict(calls[0].kwargs).get('in_reexport_module') if calls else None}")
    (col.ok if inner and not probs else col.bad)("C03.MOVE", f"{GEN}::{GENCLS}.create_reexport_module_strings::one-module-per-moved-declaration", repo.loc(GEN, rfi.node),
                                                 "each moved class/function yields exactly one module entry rendered with in_reexport_module=True" if inner and not probs else "; ".join(sorted(set(probs))) or "loop not found",
                                                 *([] if inner and not probs else [sorted(set(probs or ['loop over moved declarations not found']))[0]]))
    from .shared import share
    share(ctx, col, "C17", {"C17.RECURSE", "C17.FILTER", "C17.OWN-FIRST", "C17.ACCUM-THREAD"}, "inherited members are emitted exactly once")
    share(ctx, col, "C04", {"C04.REEXPORT-GUARDS", "C04.REEXPORT-TABLE", "C04.PUBLICITY-TABLE"}, "nothing public is dropped: the publicity decision is the reference one")
    share(ctx, col, "C12", {"C12.ATTR-DEDUP-SCOPE"}, "an attribute is dropped as 'already defined' only if its own class already has it")
    col.assume("that both shortest-re-export computations (string matching over arbitrary names) pick the same target, and name collisions after conversion, are not decided")
