"""C04 — private declarations never leak into stubs."""
from __future__ import annotations

import ast
import re

from ..core.absint import AV, Alt, App, Const, ListV, Obj, Outcome, State, StrT, Sym, walk_av
from ..core.ctx import GEN, VISITOR, Ctx
from ..core.report import Collector
from ..core.source import AnalysisError
from .c17 import memo_obligations
from .common import GENCLS, find_loops, fmt_facts, gen_state, mentions, new_effects, render, run_body, sym_is
from .visitor_model import STACK, VCLS, parent_obj, visitor_state


def check(ctx: Ctx, col: Collector, tier: str) -> None:
    repo = ctx.repo
    col.spec("C04.EMIT-GUARD", "no private declaration is emitted: every emission loop tests the element's publicity",
             "per-iteration effect analysis of every emission loop with a non-public element", floor=7)
    col.spec("C04.JSON-FLAG", "the API JSON marks exactly the private declarations as non-public: is_public comes from the publicity decision for the element's own name",
             "same-subject check at every element constructor", floor=3)
    col.spec("C04.PUBLICITY-TABLE", "private iff leading underscore (not dunder), or nested in / defined in something private; overridden by a public re-export",
             "specialisation of _is_public over name form x parent kind x parent publicity x re-export verdict", floor=30)
    col.spec("C04.REEXPORT-GUARDS", "a re-export makes a declaration public only if the import really names it and the exported name is public",
             "path facts of every `return True` of _check_publicity_in_reexports", floor=3)
    col.spec("C04.REEXPORT-SOURCE", "only an import that binds a name of the __init__ module can re-export: imports inside functions or classes are not recorded",
             "per-iteration effects of the import loop of enter_moduledef over (import class, is_top_level)", floor=6)
    col.spec("C04.REEXPORT-TABLE", "each import form of a re-exporting __init__ (wildcard, whole module, by name) makes exactly the declarations public that it names under a public name",
             "specialisation of the three import loops of _check_publicity_in_reexports over package relation x name equality x alias x name form x parent", floor=60)
    col.spec("C04.MEMO-KEY", "the publicity of a declaration does not depend on which declaration was analysed before", "memo-key completeness in the visitor", floor=1)

    # ------------------------------------------------------------------ EMIT-GUARD
    loops = [("_create_module_string", "module", "global_functions", {"is_public": Const(False)}, "self._create_function_string"),
             ("_create_module_string", "module", "classes", {"is_public": Const(False), "inherits_from_exception": Const(False)}, "self._create_class_string"),
             ("_create_module_string", "module", "enums", {"is_public": Const(False)}, "self._create_enum_string"),
             ("_create_class_string", "class_", "classes", {"is_public": Const(False)}, "self._create_class_string"),
             ("_create_class_attribute_string", None, "attributes", {"is_public": Const(False), "type": Const(None)}, None),
             ("_create_class_method_string", None, "methods", {"is_public": Const(False), "name": Const("_private_name"), "is_property": Sym("X.is_property")}, "function_string")]
    for fname, owner, coll, flags, emitter in loops:
        fi = repo.function(GEN, f"{GENCLS}.{fname}")
        col.touched(fi)
        it = ctx.interp(fi, inline={"is_internal"})
        args = {"self": Sym("self")}
        if owner:
            args[owner] = Sym(owner)
            args["in_reexport_module"] = Const(True)
            pred = lambda v, o=owner, c=coll: sym_is(v, f"{o}.{c}")  # noqa: E731
        else:
            args[coll] = Sym(coll)
            args["inner_indentations"] = Sym("ind")
            pred = lambda v, c=coll: sym_is(v, c)  # noqa: E731
        it.run_function(fi, args, gen_state())
        ls = find_loops(it, fi, pred)
        key = f"{GEN}::{GENCLS}.{fname}::{coll}::private-element"
        if len(ls) != 1:
            col.bad("C04.EMIT-GUARD", key, repo.loc(GEN, fi.node), f"{len(ls)} loops", f"emission loop over {coll} not found")
            continue
        node, _, _, entry = ls[0]
        el = Obj("Element", tuple({"name": Sym("X.name"), **flags}.items()))
        leaked = []
        for o in run_body(it, node, entry.clone(), el):
            eff = new_effects(o, entry)
            emits = [e for e in eff if (e.kind == "call" and e.target.startswith("self._create_") and any(a == el for a in list(e.args) + [v for _, v in e.kwargs]))
                     or (e.kind == "mutate" and e.target.endswith(".append"))]
            txt = [v for n_, v in o.env.items() if isinstance(v, StrT) and entry.env.get(n_) != v and mentions(v, "X.")]
            if emits or txt:
                leaked.append(fmt_facts(o.facts)[:120] or "unconditionally")
        if leaked:
            col.bad("C04.EMIT-GUARD", key, repo.loc(GEN, node), f"emitted under: {leaked[:2]}",
                    f"an element of {coll} with is_public=False is emitted ({leaked[0]}): private declarations leak into the stub")
        else:
            col.ok("C04.EMIT-GUARD", key, repo.loc(GEN, node), "an element with is_public=False produces no text and no emitter call")
    # inner classes of an inlined private base: only those with a public name
    ifi = repo.function(GEN, f"{GENCLS}._create_internal_class_string")
    iit = ctx.interp(ifi, inline={"is_internal"})
    iit.run_function(ifi, {"self": Sym("self"), "superclass": Sym("superclass"), "inner_indentations": Sym("ind"), "already_defined_names": Sym("adn")}, gen_state())
    ls = find_loops(iit, ifi, lambda v: isinstance(v, Sym) and v.path.endswith(".classes") or (isinstance(v, App) and v.func == ".classes"))
    key = f"{GEN}::{GENCLS}._create_internal_class_string::classes::private-name"
    if len(ls) == 1:
        node, _, _, entry = ls[0]
        res = {}
        for nm in ("_Hidden", "Shown"):
            el = Obj("Class", (("name", Const(nm)),))
            res[nm] = any(e.kind == "call" and e.target == "self._create_class_string" for o in run_body(iit, node, entry.clone(), el) for e in new_effects(o, entry))
        good = res == {"_Hidden": False, "Shown": True}
        (col.ok if good else col.bad)("C04.EMIT-GUARD", key, repo.loc(GEN, node), f"{res}", *([] if good else ["inner classes of an inlined private base are not filtered by their name"]))
    else:
        col.bad("C04.EMIT-GUARD", key, repo.loc(GEN, ifi.node), f"{len(ls)} loops", "loop over the inner classes of an inlined base not found")

    # ------------------------------------------------------------------ JSON-FLAG
    vm = repo.module(VISITOR)
    nflag = 0
    for fi in vm.functions.values():
        for n in ast.walk(fi.node):
            if isinstance(n, ast.Call) and isinstance(n.func, ast.Name) and n.func.id in ("Class", "Function", "Attribute", "Enum"):
                kw = {k.arg: k.value for k in n.keywords}
                if "is_public" not in kw:
                    if n.func.id == "Enum":
                        col.bad("C04.JSON-FLAG", f"{VISITOR}::{fi.qualname}::Enum::is_public", repo.loc(VISITOR, n), "Enum(...) has no is_public",
                                "enums carry no publicity flag at all: a private enum (class _Hidden(Enum)) cannot be marked non-public in the API JSON nor filtered from the stubs")
                    continue
                nflag += 1
                col.touched(fi)
                v = kw["is_public"]
                name_e = kw.get("name")
                # resolve a local variable to its definition
                if isinstance(v, ast.Name):
                    defs = [x.value for x in ast.walk(fi.node) if isinstance(x, ast.Assign) and any(isinstance(t, ast.Name) and t.id == v.id for t in x.targets)]
                    v = defs[0] if len(defs) == 1 else v
                good = isinstance(v, ast.Call) and ast.unparse(v.func) == "self._is_public" and len(v.args) == 2
                same = False
                if good and name_e is not None:
                    a0 = v.args[0]
                    n_src = ast.unparse(name_e)
                    if isinstance(name_e, ast.Name):
                        ndefs = [ast.unparse(x.value) for x in ast.walk(fi.node) if isinstance(x, ast.Assign) and any(isinstance(t, ast.Name) and t.id == name_e.id for t in x.targets)]
                        same = ast.unparse(a0) == n_src or ast.unparse(a0) in ndefs
                    else:
                        same = ast.unparse(a0) == n_src
                key = f"{VISITOR}::{fi.qualname}::{n.func.id}::is_public"
                if good and same:
                    col.ok("C04.JSON-FLAG", key, repo.loc(VISITOR, n), f"is_public = self._is_public({ast.unparse(v.args[0])}, {ast.unparse(v.args[1])}) for name={ast.unparse(name_e)}")
                else:
                    col.bad("C04.JSON-FLAG", key, repo.loc(VISITOR, n), f"is_public = {ast.unparse(kw['is_public'])}", f"{n.func.id}: is_public is not the publicity decision for the element's own name")
    if nflag < 3:
        raise AnalysisError("fewer than 3 element constructors with is_public found")

    # ------------------------------------------------------------------ PUBLICITY-TABLE
    pfi = repo.function(VISITOR, f"{VCLS}._is_public")
    col.touched(pfi)
    names = {"plain": "run", "private": "_run", "dunder": "__str__", "init": "__init__", "mangled": "__secret", "private-trailing": "_run_", "private-dunder-tail": "_flag__"}
    for nform, name in names.items():
        for pkind in ("Module", "Class", "Constructor"):
            for ppub in ((True, False) if pkind != "Module" else (None,)):
                for segs_public in (True, False):
                    for reexp in ("None", "True"):
                        it = ctx.interp(pfi, inline={"is_internal"})
                        par = parent_obj(pkind)
                        if pkind in ("Class", "Constructor"):
                            par = Obj("Class", (("id", Sym("PARENT.id")), ("name", Sym("PARENT.name")), ("is_public", Const(ppub))))
                        # an instance attribute is analysed below the constructor of its class: it is as public as a class attribute would be
                        stack = {"Module": (par,), "Class": (parent_obj("Module"), par), "Constructor": (parent_obj("Module"), par, parent_obj("Constructor"))}[pkind]
                        st = visitor_state(stack)
                        st.neq[repr(Sym("self.mypy_file"))] = {Const(None)}
                        qn = Const(("pkg.mod." if segs_public else "pkg._mod.") + ("Cls." if pkind != "Module" else "") + name)
                        it.summaries[("self._check_publicity_in_reexports", (Const(name), qn, par))] = Const(None) if reexp == "None" else Const(True)
                        outs = it.run_function(pfi, {"self": Sym("self"), "name": Const(name), "qname": qn}, st)
                        vals = {o.value if o.kind == "return" else Const(f"raise {o.exc}") for o in outs}
                        if reexp == "True":
                            want = True
                        elif nform in ("private", "mangled", "private-trailing", "private-dunder-tail"):
                            want = False
                        elif pkind in ("Class", "Constructor") and nform in ("plain", "init", "dunder"):
                            # a member that is not private is as public as its class, which may be public through a re-export only
                            want = ppub
                        else:
                            want = segs_public
                        key = f"{VISITOR}::{VCLS}._is_public::{nform},parent={pkind}{'' if ppub is None else ('-public' if ppub else '-private')},path-public={segs_public},reexport={reexp}"
                        if vals == {Const(want)}:
                            col.ok("C04.PUBLICITY-TABLE", key, repo.loc(VISITOR, pfi.node), f"-> {want}")
                        else:
                            col.bad("C04.PUBLICITY-TABLE", key, repo.loc(VISITOR, pfi.node), f"-> {sorted(map(repr, vals))}, reference {want}",
                                    f"name {name!r} in a {pkind}{'' if ppub is None else (' (public)' if ppub else ' (private)')} with public path={segs_public}, re-export verdict {reexp}: "
                                    f"_is_public gives {sorted(map(repr, vals))}; the property requires {want}")

    # ------------------------------------------------------------------ REEXPORT-GUARDS (necessary conditions on the True paths)
    rfi = repo.function(VISITOR, f"{VCLS}._check_publicity_in_reexports")
    col.touched(rfi)
    rit = ctx.interp(rfi, inline={"is_internal"})
    st = State({"self": Sym("self"), "self.api": Sym("self.api"), "self.mypy_file": Sym("self.mypy_file")})
    routs = rit.run_function(rfi, {"self": Sym("self"), "name": Sym("name"), "qname": Sym("qname"), "parent": Sym("parent")}, st)
    trues = [o for o in routs if o.kind == "return" and o.value == Const(True)]
    others = {repr(o.value) for o in routs if o.kind == "return" and o.value != Const(True)}
    n1, n2, n3 = [], [], []
    # "the key names the module" may also be established by resolving the key against the re-exporting packages: an any(...) over the sources of the
    # key whose element compares the resolved key with the module's qualified name
    resolved_module_test = any(isinstance(a, ast.Assign) and any(isinstance(t, ast.Name) and t.id == "module_is_reexported" for t in a.targets) and isinstance(a.value, ast.BoolOp)
                               and isinstance(a.value.op, ast.Or) and any(isinstance(v, ast.Call) and getattr(v.func, "id", "") == "any" and "module_qname" in ast.unparse(v) and "reexported_key" in ast.unparse(v)
                                                                          for v in a.value.values) for a in ast.walk(rfi.node))
    for o in trues:
        facts = dict(o.facts)
        # N1: the exported name is public: name not internal, or a public alias
        pub = any((k.startswith("truthy:.startswith(<name>, '_')") and v is False) for k, v in facts.items()) or any(
            re.search(r"\.startswith\(<.*\.alias>, '_'\)", k) and v is False for k, v in facts.items())
        if not pub:
            n1.append(fmt_facts(o.facts)[:160])
        # N1b: a module re-exported through a qualified import: its alias, if any, must be public
        via_qi = [k for k, v in facts.items() if ".qualified_imports[*].qualified_name>" in k and " in {" in k and v]
        if via_qi:
            alias_ok = any(re.search(r"\.qualified_imports\[\*\]\.alias>==None|None==<.*\.qualified_imports\[\*\]\.alias>", k) and v for k, v in facts.items()) or any(
                re.search(r"\.startswith\(<.*\.qualified_imports\[\*\]\.alias>, '_'\)", k) and v is False for k, v in facts.items())
            if not alias_ok:
                n1.append("module alias not shown public: " + fmt_facts(o.facts)[:160])
        # N3: the re-exporting __init__ is the declaration's own package, or the key names the declaration / its module
        same_pkg = any(re.fullmatch(r"(<self\.api\.reexport_map\[.*\]\[\*\]\.id>==.*|.*==<self\.api\.reexport_map\[.*\]\[\*\]\.id>)", k) and v for k, v in facts.items())
        # the key (possibly resolved against the re-exporting package) names the declaration or its module: a membership or a
        # non-empty intersection with {qname, module qname}
        other_pkg = any(".rstrip(" in k and "<qname>" in k and (" in {" in k or k.startswith("truthy:BitAnd(")) and v for k, v in facts.items())
        if not (same_pkg or other_pkg):
            n3.append(fmt_facts(o.facts)[:160])
        # N2: by-name re-exports (third block): the import's qualified name is a suffix of the declaration's qualified name
        # ... or, resolved against the re-exporting package, is that name (a membership of qname in the set of resolutions)
        byname = any(".qualified_imports[*].qualified_name" in k and (k.startswith("truthy:.endswith(") and "<qname>" in k or k.startswith("<qname> in {") or k.startswith("<qname>==") or k.endswith("==<qname>"))
                     and v for k, v in facts.items())
        whole_module = any("module_is_reexported" in k for k in facts) or any(re.search(r"in \{.*\.\*", k) and v for k, v in facts.items()) or (
            resolved_module_test and any(k.startswith("truthy:any(") and v for k, v in facts.items()))
        if not byname and not whole_module:
            n2.append(fmt_facts(o.facts)[:200])
    key0 = f"{VISITOR}::{VCLS}._check_publicity_in_reexports"
    (col.ok if trues and not n1 else col.bad)("C04.REEXPORT-GUARDS", f"{key0}::true-implies-public-name", repo.loc(VISITOR, rfi.node),
                                              f"{len(trues)} paths return True, each under 'name is public' or 'alias is public'" if trues and not n1 else f"{n1[:2]}",
                                              *([] if trues and not n1 else ["a path makes a declaration public through a re-export although neither its name nor its alias is public"]))
    (col.ok if trues and not n3 else col.bad)("C04.REEXPORT-GUARDS", f"{key0}::true-implies-right-package", repo.loc(VISITOR, rfi.node),
                                              "each True path established 'the re-exporting __init__ is the own package (id equality) or the key names the declaration/module'" if trues and not n3 else f"{n3[:2]}",
                                              *([] if trues and not n3 else ["a path returns True without having tied the re-exporting __init__ to the declaration's package or qualified name"]))
    (col.ok if trues and not n2 else col.bad)("C04.REEXPORT-GUARDS", f"{key0}::true-implies-import-names-declaration", repo.loc(VISITOR, rfi.node),
                                              "each True path is a whole-module re-export or has tied the imported qualified name to the declaration's qualified name (suffix or resolved equality)" if trues and not n2 else f"{n2[:2]}",
                                              *([] if trues and not n2 else ["a by-name re-export makes a declaration public without checking that the imported qualified name names the declaration (suffix of / resolved equality with its qualified name)"]))
    good = others <= {"None"}
    (col.ok if good else col.bad)("C04.REEXPORT-GUARDS", f"{key0}::verdicts", repo.loc(VISITOR, rfi.node), f"verdicts: True or {sorted(others)}",
                                  *([] if good else [f"_check_publicity_in_reexports returns {sorted(others)} besides True/None"]))

    # ------------------------------------------------------------------ REEXPORT-SOURCE
    mfi = repo.function(VISITOR, f"{VCLS}.enter_moduledef")
    col.touched(mfi)
    mit = ctx.interp(mfi)
    mnode = Obj("MypyFile", (("path", Sym("node.path")), ("imports", Sym("node.imports")), ("defs", ListV(())), ("fullname", Sym("node.fullname")), ("name", Sym("node.name"))))
    mit.run_function(mfi, {"self": Sym("self"), "node": mnode}, visitor_state(()))
    il = find_loops(mit, mfi, lambda v: sym_is(v, "node.imports"))
    if len(il) != 1:
        raise AnalysisError("import loop of enter_moduledef not found")
    inode, _, _, ientry = il[0]
    for icls, extra in (("Import", (("ids", ListV((ListV((Sym("imp.name"), Sym("imp.alias")), kind="tuple"),))),)),
                        ("ImportFrom", (("id", Sym("imp.id")), ("names", ListV((ListV((Sym("imp.name"), Sym("imp.alias")), kind="tuple"),))))),
                        ("ImportAll", (("id", Sym("imp.id")),))):
        for top in (True, False):
            el = Obj(icls, extra + (("is_top_level", Const(top)),))
            recorded = set()
            for o in run_body(mit, inode, ientry.clone(), el):
                recorded.add(any(e.kind == "mutate" and e.target in ("qualified_imports.append", "wildcard_imports.append") for e in new_effects(o, ientry)))
            key = f"{VISITOR}::{VCLS}.enter_moduledef::imports::{icls},top-level={top}"
            if recorded == {top}:
                col.ok("C04.REEXPORT-SOURCE", key, repo.loc(VISITOR, inode), f"recorded as a possible re-export: {top}")
            else:
                col.bad("C04.REEXPORT-SOURCE", key, repo.loc(VISITOR, inode), f"recorded: {sorted(recorded)}, reference {top}",
                        f"a {icls} statement with is_top_level={top} is {'recorded' if True in recorded else 'not recorded'} as a possible re-export: an import inside a function of an __init__.py "
                        f"(`def load(): from ._impl import _secret as secret`) makes a private declaration public" if not top else
                        f"a module-level {icls} statement is not recorded, so what it re-exports stays private and is dropped")

    # an import that only type checkers see (`if TYPE_CHECKING:`; mypy marks it is_mypy_only) binds no name at run time and re-exports nothing
    emf = repo.function(VISITOR, f"{VCLS}.enter_moduledef")
    skips_mypy_only = any(isinstance(n, ast.Attribute) and n.attr == "is_mypy_only" for n in ast.walk(emf.node))
    (col.ok if skips_mypy_only else col.bad)("C04.REEXPORT-SOURCE", f"{VISITOR}::{VCLS}.enter_moduledef::type-checking-imports", repo.loc(VISITOR, emf.node),
                                             "imports marked is_mypy_only are not recorded" if skips_mypy_only else "node.imports is filtered by is_top_level only",
                                             *([] if skips_mypy_only else ["an import under `if TYPE_CHECKING:` in an __init__.py is recorded as a re-export although it binds nothing at run time: "
                                                                           "`if TYPE_CHECKING: from ._impl import _Hidden` makes the private class public for the package"]))

    # `from ._impl import *` re-exports what the star import binds: the names of `__all__` when the source module defines one (mypy records this as
    # SymbolTableNode.module_public), every public-named declaration otherwise
    vmod = repo.module(VISITOR)
    reads_all = [f"{q}:{n.lineno}" for q, f2 in vmod.functions.items() for n in ast.walk(f2.node)
                 if (isinstance(n, ast.Constant) and n.value == "__all__") or (isinstance(n, ast.Attribute) and n.attr in ("module_public", "is_public_name"))]
    (col.ok if reads_all else col.bad)("C04.REEXPORT-SOURCE", f"{VISITOR}::{VCLS}._check_publicity_in_reexports::wildcard-respects-__all__", repo.loc(VISITOR, rfi.node),
                                       f"the export list of the source module is consulted ({reads_all[:2]})" if reads_all else "neither `__all__` nor mypy's module_public is read anywhere in the visitor",
                                       *([] if reads_all else ["a star re-export publishes every public-named declaration of the source module, also those its `__all__` leaves out: `pk/__init__.py: from ._impl import *` with "
                                                               "`pk/_impl.py: __all__ = [\"api\"]; def api(): ...; def helper(): ...` marks helper public and emits it into package pk"]))

    # a relative import names its target relative to the re-exporting package, at any depth
    dit = ctx.interp(rfi, inline={"is_internal"})
    dmf = Obj("MypyFile", (("fullname", Const("pkg.sub._deep")), ("name", Const("_deep"))))
    dit.run_function(rfi, {"self": Sym("self"), "name": Const("Deep"), "qname": Const("pkg.sub._deep.Deep"), "parent": Obj("Module", ())},
                     State({"self": Sym("self"), "self.api": Sym("self.api"), "self.mypy_file": dmf}))
    sloops = find_loops(dit, rfi, lambda v: "reexport_map[" in repr(v) and "wildcard" not in repr(v) and "qualified" not in repr(v))
    if len(sloops) != 1:
        raise AnalysisError("loop over the re-exporting modules not found")
    snode, _, _, sentry = sloops[0]
    for source_id, imp, desc in (("pkg", "sub._deep.Deep", "from .sub._deep import Deep in pkg/__init__.py"), ("pkg/sub", "_deep.Deep", "from ._deep import Deep in pkg/sub/__init__.py"),
                                 ("other", "pkg.sub._deep.Deep", "from pkg.sub._deep import Deep in other/__init__.py")):
        e = sentry.clone()
        e.env["reexported_key"] = Const(imp)
        e.env["module_is_reexported"] = Const(False)
        src = Obj("Module", (("id", Const(source_id)), ("wildcard_imports", ListV(())),
                             ("qualified_imports", ListV((Obj("QualifiedImport", (("qualified_name", Const(imp)), ("alias", Const(None)))),)))))
        outs = run_body(dit, snode, e, src)
        verdicts = {("True" if o.kind == "return" and o.value == Const(True) else o.kind) for o in outs}
        key = f"{key0}::by-name-source::{source_id}<-{imp}"
        if verdicts == {"True"}:
            col.ok("C04.REEXPORT-GUARDS", key, repo.loc(VISITOR, snode), f"{desc}: the public declaration pkg.sub._deep.Deep becomes public")
        else:
            col.bad("C04.REEXPORT-GUARDS", key, repo.loc(VISITOR, snode), f"{desc}: outcomes {sorted(verdicts)}",
                    f"`{desc}` does not make pkg.sub._deep.Deep public: the re-export is only accepted from the direct parent package or with the full qualified name, "
                    f"so a relative import that goes more than one level deep is ignored and the declaration is dropped")

    # the by-name match is segment exact: `from .utils import helper` does not publish `helper` of the private twin module `_utils`
    tit = ctx.interp(rfi, inline={"is_internal"})
    tmf = Obj("MypyFile", (("fullname", Const("pkg._utils")), ("name", Const("_utils"))))
    tit.run_function(rfi, {"self": Sym("self"), "name": Const("helper"), "qname": Const("pkg._utils.helper"), "parent": Obj("Module", ())},
                     State({"self": Sym("self"), "self.api": Sym("self.api"), "self.mypy_file": tmf}))
    tl = find_loops(tit, rfi, lambda v: "reexport_map[" in repr(v) and "wildcard" not in repr(v) and "qualified" not in repr(v))
    if len(tl) != 1:
        raise AnalysisError("loop over the re-exporting modules not found (twin probe)")
    tnode2, _, _, tentry2 = tl[0]
    e = tentry2.clone()
    e.env["reexported_key"] = Const("utils.helper")
    e.env["module_is_reexported"] = Const(False)
    src = Obj("Module", (("id", Const("pkg")), ("wildcard_imports", ListV(())),
                         ("qualified_imports", ListV((Obj("QualifiedImport", (("qualified_name", Const("utils.helper")), ("alias", Const(None)))),)))))
    verdicts = {("True" if o.kind == "return" and o.value == Const(True) else o.kind) for o in run_body(tit, tnode2, e, src)}
    key = f"{key0}::by-name-source::private-twin pkg._utils.helper<-utils.helper"
    if "True" in verdicts:
        col.bad("C04.REEXPORT-GUARDS", key, repo.loc(VISITOR, tnode2), f"outcomes {sorted(verdicts)}",
                "`from .utils import helper` in pkg/__init__.py also makes `helper` of the private module pkg/_utils.py public: the imported name is matched as a plain string suffix "
                "('pkg._utils.helper' ends with 'utils.helper') instead of by whole segments")
    else:
        col.ok("C04.REEXPORT-GUARDS", key, repo.loc(VISITOR, tnode2), f"the private twin module's declaration stays private (outcomes {sorted(verdicts)})")

    # ... and it names the declaration itself: a module import of the __init__ (`from . import config`, `import logging`: key `config` / `logging`)
    # does not publish an equally named declaration of another, private module of the package (pkg/_impl.py: def config())
    for imp, desc in (("config", "from . import config"), ("logging", "import logging")):
        cit = ctx.interp(rfi, inline={"is_internal"})
        cmf = Obj("MypyFile", (("fullname", Const("pkg._impl")), ("name", Const("_impl"))))
        cit.run_function(rfi, {"self": Sym("self"), "name": Const(imp), "qname": Const(f"pkg._impl.{imp}"), "parent": Obj("Module", ())},
                         State({"self": Sym("self"), "self.api": Sym("self.api"), "self.mypy_file": cmf}))
        cl = find_loops(cit, rfi, lambda v: "reexport_map[" in repr(v) and "wildcard" not in repr(v) and "qualified" not in repr(v))
        if len(cl) != 1:
            raise AnalysisError("loop over the re-exporting modules not found (coincidence probe)")
        cnode, _, _, centry = cl[0]
        e = centry.clone()
        e.env["reexported_key"] = Const(imp)
        e.env["module_is_reexported"] = Const(False)
        src = Obj("Module", (("id", Const("pkg")), ("wildcard_imports", ListV(())),
                             ("qualified_imports", ListV((Obj("QualifiedImport", (("qualified_name", Const(imp)), ("alias", Const(None)))),)))))
        verdicts = {("True" if o.kind == "return" and o.value == Const(True) else o.kind) for o in run_body(cit, cnode, e, src)}
        key = f"{key0}::by-name-source::name-coincidence pkg._impl.{imp}<-{imp}"
        if "True" in verdicts:
            col.bad("C04.REEXPORT-GUARDS", key, repo.loc(VISITOR, cnode), f"outcomes {sorted(verdicts)}",
                    f"`{desc}` in pkg/__init__.py makes the function `{imp}` of the private module pkg/_impl.py public (and moves it to package pkg): the imported name `{imp}` is compared with the "
                    f"tail of the declaration's qualified name (pkg._impl.{imp}), although relative to the importing package it names pkg.{imp}")
        else:
            col.ok("C04.REEXPORT-GUARDS", key, repo.loc(VISITOR, cnode), f"`{desc}` leaves pkg._impl.{imp} private (outcomes {sorted(verdicts)})")

    # the same for star imports, evaluated on a concrete re-export map: `from ._mod import *` (direct child) and `from .sub._mod import *` (deeper path)
    from ..core.absint import DictV
    for keyc, wild, mq, desc in (("_mod.*", "_mod", "pkg._mod", "from ._mod import *"), ("sub._mod.*", "sub._mod", "pkg.sub._mod", "from .sub._mod import *")):
        wit = ctx.interp(rfi, inline={"is_internal"})
        src = Obj("Module", (("id", Const("pkg")), ("wildcard_imports", ListV((Obj("WildcardImport", (("module_name", Const(wild)),)),))), ("qualified_imports", ListV(()))))
        api = Obj("API", (("reexport_map", DictV(((Const(keyc), ListV((src,))),))),))
        wmf = Obj("MypyFile", (("fullname", Const(mq)), ("name", Const("_mod"))))
        wouts = wit.run_function(rfi, {"self": Sym("self"), "name": Const("Foo"), "qname": Const(f"{mq}.Foo"), "parent": Obj("Module", ())},
                                 State({"self": Sym("self"), "self.api": api, "self.mypy_file": wmf}))
        verdicts = {("True" if o.kind == "return" and o.value == Const(True) else "None" if o.kind == "return" and o.value == Const(None) else o.kind) for o in wouts}
        key = f"{key0}::wildcard-source::pkg<-{keyc}"
        if "True" in verdicts:
            col.ok("C04.REEXPORT-GUARDS", key, repo.loc(VISITOR, rfi.node), f"`{desc}` in pkg/__init__.py makes the public class {mq}.Foo public")
        else:
            col.bad("C04.REEXPORT-GUARDS", key, repo.loc(VISITOR, rfi.node), f"`{desc}`: outcomes {sorted(verdicts)}",
                    f"`{desc}` in pkg/__init__.py does not make {mq}.Foo public: a star import is only recognised when its text is the bare name or the full qualified name of the module, "
                    f"not a relative path with more than one segment - the class, its members and the module's functions are dropped from the stubs")
    # the level of a relative import (`from .._core import Foo` in pkg/api/__init__.py) decides which package the text `_core` starts from
    emfi = repo.function(VISITOR, f"{VCLS}.enter_moduledef")
    reads_level = any(isinstance(n, ast.Attribute) and n.attr == "relative" for n in ast.walk(emfi.node)) or "correct_relative_import" in ast.unparse(emfi.node)
    (col.ok if reads_level else col.bad)("C04.REEXPORT-SOURCE", f"{VISITOR}::{VCLS}.enter_moduledef::relative-level-recorded", repo.loc(VISITOR, emfi.node),
                                         "the level of relative imports is read" if reads_level else "ImportFrom.relative / ImportAll.relative are never read: only the module text after the dots is recorded",
                                         *([] if reads_level else ["a re-export through a parent-relative import is not recognised: `from .._core import Foo` in pkg/api/__init__.py is recorded as `_core.Foo` and resolved "
                                                                   "against pkg.api (pkg.api._core.Foo), never against pkg - the public name pkg.api.Foo is dropped from the stubs with everything nested in it"]))

    # ------------------------------------------------------------------ REEXPORT-TABLE (both directions, per import form)
    reexport_table(ctx, col)

    # ------------------------------------------------------------------ MEMO-KEY
    memo_obligations(ctx, col, "C04.MEMO-KEY", {VISITOR})
    col.assume("the string-matching heuristics of _check_publicity_in_reexports (endswith on arbitrary names) are decided only through the necessary conditions above")


def reexport_table(ctx: Ctx, col: Collector) -> None:
    """Truth tables of the three import loops of _check_publicity_in_reexports against the reference conditions."""
    repo = ctx.repo
    rfi = repo.function(VISITOR, f"{VCLS}._check_publicity_in_reexports")
    rit = ctx.interp(rfi, inline={"is_internal"})
    mf = Obj("MypyFile", (("fullname", Sym("MQ")), ("name", Sym("MN"))))
    st = State({"self": Sym("self"), "self.api": Sym("self.api"), "self.mypy_file": mf})
    rit.run_function(rfi, {"self": Sym("self"), "name": Sym("name"), "qname": Sym("qname"), "parent": Sym("parent")}, st)
    key0 = f"{VISITOR}::{VCLS}._check_publicity_in_reexports"
    wl = find_loops(rit, rfi, lambda v: isinstance(v, Sym) and v.path.endswith(".wildcard_imports"))
    ql = find_loops(rit, rfi, lambda v: isinstance(v, Sym) and v.path.endswith(".qualified_imports"))
    if len(wl) != 1 or len(ql) != 2:
        raise AnalysisError(f"import loops of _check_publicity_in_reexports not found ({len(wl)} wildcard, {len(ql)} qualified)")
    parents = {"Module": Obj("Module", ()), "public Class": Obj("Class", (("is_public", Const(True)),)), "private Class": Obj("Class", (("is_public", Const(False)),))}

    def verdicts(node, entry, env, elem, atoms):
        """(assignment of the atoms -> True returned?) from the outcomes of one loop body; undecided atoms expand to both values."""
        e = entry.clone()
        e.env.update(env)
        table = {}
        outs = run_body(rit, node, e, elem)
        base = len(entry.facts)
        for o in outs:
            facts = dict(list(o.facts)[base:])
            vals = []
            for a in atoms:
                # an atom may be established by several facts of one path (`q == x or q == y`): it holds if one of them does
                ks = [k for k in facts if a(k)]
                vals.append((any(facts[k] for k in ks)) if ks else None)
            combos = [()]
            for v in vals:
                combos = [c + (x,) for c in combos for x in ((v,) if v is not None else (True, False))]
            for c in combos:
                table.setdefault(c, set()).add(o.kind == "return" and o.value == Const(True))
        return table

    # ---- wildcard imports: public iff ((same package and W == module name) or (key names the module and W == module qname)) and public name and public parent
    node, _, _, entry = wl[0]
    # "the star import names the module by its qualified name": an equality, or a membership of the module's qualified name in the resolutions of the
    # imported text (absolute, relative to the importing package)
    atoms = [lambda k: k in ("<MN>==<W>", "<W>==<MN>"), lambda k: k in ("<MQ>==<W>", "<W>==<MQ>") or (k.startswith("<MQ> in {") and "<W>" in k)
             or (("<MQ>==" in k or k.endswith("==<MQ>")) and "<W>" in k)]
    for same in (True, False):
        for other in (True, False):
            if not same and not other:
                continue  # skipped by the `continue` before the loops (C04.REEXPORT-GUARDS right-package)
            for ni in (True, False):
                for pk, pobj in parents.items():
                    t = verdicts(node, entry, {"is_from_same_package": Const(same), "is_from_another_package": Const(other), "not_internal": Const(ni), "parent": pobj},
                                 Obj("WildcardImport", (("module_name", Sym("W")),)), atoms)
                    for (eqn, eqq), got in sorted(t.items()):
                        want = ((same and eqn) or (other and eqq)) and ni and pk != "private Class"
                        key = f"{key0}::wildcard::same={same},names-module={other},W==name:{eqn},W==qname:{eqq},public-name={ni},parent={pk}"
                        if got == {want}:
                            col.ok("C04.REEXPORT-TABLE", key, repo.loc(VISITOR, node), f"returns True: {want}")
                        else:
                            col.bad("C04.REEXPORT-TABLE", key, repo.loc(VISITOR, node), f"returns True: {sorted(got)}; reference {want}",
                                    f"wildcard re-export (`from {'.m' if same else 'pkg.m'} import *`): with same-package={same}, key-names-module={other}, import==module name:{eqn}, import==module qname:{eqq}, "
                                    f"public name={ni}, parent {pk} the declaration is {'made' if True in got else 'not made'} public; it should {'be' if want else 'not be'}")
    # ---- whole-module qualified imports and by-name imports
    (n1, _, _, e1), (n2, _, _, e2) = sorted(ql, key=lambda x: x[0].lineno)
    qi = Obj("QualifiedImport", (("qualified_name", Sym("Q")), ("alias", Sym("A"))))
    a_in = lambda k: k.startswith("<Q> in {")  # noqa: E731
    a_none = lambda k: k in ("<A>==None", "None==<A>")  # noqa: E731
    a_priv = lambda k: k == "truthy:.startswith(<A>, '_')"  # noqa: E731
    # the members of a module that is imported as a whole become public iff the name the import binds is public: the alias, or - without an alias - the
    # module's own name (`from . import _utils` binds the private name `_utils`); evaluated on constants
    for mname in ("utils", "_utils"):
        for qn_form in ("name", "qname", "other"):
            for alias in (None, "tools", "_tools"):
                for ni in (True, False):
                    for pk, pobj in parents.items():
                        q = {"name": mname, "qname": f"pk.{mname}", "other": "pk.other"}[qn_form]
                        qic = Obj("QualifiedImport", (("qualified_name", Const(q)), ("alias", Const(alias))))
                        e = e1.clone()
                        e.env.update({"not_internal": Const(ni), "parent": pobj, "module_name": Const(mname), "module_qname": Const(f"pk.{mname}")})
                        outs_q = run_body(rit, n1, e, qic)
                        got = {o.kind == "return" and o.value == Const(True) for o in outs_q}
                        bound_public = not (alias if alias is not None else mname).startswith("_")
                        want = qn_form != "other" and bound_public and ni and pk != "private Class"
                        key = f"{key0}::whole-module::module={mname},import-names={qn_form},alias={alias},public-name={ni},parent={pk}"
                        if got == {want}:
                            col.ok("C04.REEXPORT-TABLE", key, repo.loc(VISITOR, n1), f"returns True: {want}")
                        else:
                            col.bad("C04.REEXPORT-TABLE", key, repo.loc(VISITOR, n1), f"returns True: {sorted(got)}; reference {want}",
                                    f"module re-export (`from . import {mname}" + (f" as {alias}" if alias else "") + f"`), member with a {'public' if ni else 'private'} name below a {pk}: the member is "
                                    f"{'made' if True in got else 'not made'} public; it should {'be' if want else 'not be'} - the import binds the name `{alias or mname}`"
                                    + ("" if want or not (True in got) else f": `from . import {mname}` in an __init__.py publishes every public-named member of the private module {mname}"))
    # "the import names the declaration": a suffix test of the declaration's qualified name against the imported name, in any spelling
    # (plain, or with a separator prepended to both sides so that whole segments are compared)
    # ... or a membership of the declaration's qualified name in the resolutions of the imported name (absolute, relative to the importing package)
    a_end = lambda k: (k.startswith("truthy:.endswith(") and "<qname>" in k and "<Q>" in k) or (k.startswith("<qname> in {") and "<Q>" in k) or (  # noqa: E731
        (k.startswith("<qname>==") or k.endswith("==<qname>")) and "<Q>" in k)
    for ni in (True, False):
        t = verdicts(n2, e2, {"not_internal": Const(ni)}, qi, [a_end, a_none, a_priv])
        for (endq, anone, apriv), got in sorted(t.items()):
            if anone and apriv:
                continue
            want = endq and ((not anone and not apriv) or (anone and ni))
            key = f"{key0}::by-name::import-names-declaration={endq},alias-none={anone},alias-private={apriv},public-name={ni}"
            if got == {want}:
                col.ok("C04.REEXPORT-TABLE", key, repo.loc(VISITOR, n2), f"returns True: {want}")
            else:
                col.bad("C04.REEXPORT-TABLE", key, repo.loc(VISITOR, n2), f"returns True: {sorted(got)}; reference {want}",
                        f"by-name re-export (`from .m import X [as alias]`): import names the declaration={endq}, no alias={anone}, alias private={apriv}, public name={ni}: "
                        f"the declaration is {'made' if True in got else 'not made'} public; it should {'be' if want else 'not be'}")
