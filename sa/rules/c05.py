"""C05 — type hints are translated faithfully and compositionally."""
from __future__ import annotations

import ast
import re

from ..core.absint import AV, Alt, App, Const, DictV, EnumM, ListV, Obj, Outcome, Rep, State, StrT, Sym, walk_av
from ..core.ctx import DOCPARSER, GEN, GETAPI, HELPERS, TYPES_MOD, VISITOR, WALKER, Ctx
from ..core.report import Collector
from ..core.source import AnalysisError
from .common import GENCLS, apps, fmt_facts, gen_state, mentions, render
from .visitor_model import parent_obj, visitor_state

REC_V = "self.mypy_type_to_abstract_type"
REC_G = "self._create_type_string"


def rec_over(v: AV, func: str, path: str) -> bool:
    """v contains an application func(<path...>)"""
    for a in apps(v, func):
        if a.args and mentions(a.args[0], path):
            return True
    return False


def run_type_string(ctx: Ctx, kind: str, extra_eq: dict | None = None) -> list[Outcome]:
    fi = ctx.repo.function(GEN, f"{GENCLS}._create_type_string")
    it = ctx.interp(fi)
    st = gen_state()
    st.eq[repr(Sym("type_data['kind']"))] = Const(kind)
    st.neq[repr(Sym("type_data"))] = {Const(None)}
    for k, v in (extra_eq or {}).items():
        st.eq[k] = v
    return it.run_function(fi, {"self": Sym("self"), "type_data": Sym("type_data")}, st)


def check(ctx: Ctx, col: Collector, tier: str) -> None:
    repo = ctx.repo
    col.spec("C05.LEAF-TABLE", "int/str/bool/float -> Int/String/Boolean/Float, None -> Nothing?, classes -> their names",
             "specialisation of _create_type_string over NamedType names", floor=7)
    col.spec("C05.CTOR-TABLE", "each mypy type class / builtin container maps to the documented API type",
             "specialisation of mypy_type_to_abstract_type over mypy type classes and Instance names", floor=30)
    col.spec("C05.KIND-RENDER", "each API type kind renders to the documented Safe-DS constructor",
             "specialisation of _create_type_string per kind; shape of the returned template", floor=12)
    col.spec("C05.RECURSE", "the mapping is applied at every nesting depth: no child is dropped or passed on untranslated",
             "every nested-type key written by to_dict is read by the kind's branch and passed to the translator", floor=8)
    col.spec("C05.UNION-NORMAL", "unions: duplicates removed, deterministic order, nullable shorthand only for T | None",
             "provenance tags (dedup/sorted) of the joined sequence + path facts of the nullable return", floor=3)
    col.spec("C05.POSITIONS", "the same translator is used in every position where a type can occur",
             "call sites of the translator pair in parameter/result/attribute extraction and rendering", floor=8)
    col.spec("C05.INPUT-UNMODIFIED", "every position hands the translator the type mypy analysed: the analyser never writes into mypy's node and type objects",
             "typed inventory (mypy as a library) of attribute / item stores in the analyser whose receiver is a mypy object", floor=10)
    col.spec("C05.NONE-TEST", "tests that recognise the none type test the name of the same subject as its kind",
             "contradiction/self-conjunction check on the conditions of the union branch", floor=1)

    gfi = repo.function(GEN, f"{GENCLS}._create_type_string")
    col.touched(gfi)
    gkey = f"{GEN}::{GENCLS}._create_type_string"

    # ------------------------------------------------------------------ LEAF-TABLE
    leaf = {"int": "Int", "str": "String", "bool": "Boolean", "float": "Float", "None": "Nothing?"}
    for name, want in leaf.items():
        outs = run_type_string(ctx, "NamedType", {repr(Sym("type_data['name']")): Const(name)})
        vals = {o.value for o in outs if o.kind == "return"}
        imports = [e for o in outs for e in o.effects if e.kind == "call" and e.target == "self._add_to_imports"]
        key = f"{gkey}::leaf::{name}"
        if vals == {Const(want)} and not imports and all(o.kind == "return" for o in outs):
            col.ok("C05.LEAF-TABLE", key, repo.loc(GEN, outs[0].node), f"{name} -> {want}")
        else:
            col.bad("C05.LEAF-TABLE", key, repo.loc(GEN, gfi.node), f"{name} -> {sorted(map(repr, vals))}", f"builtin {name!r} is rendered as {sorted(map(repr, vals))}, not {want!r}")
    st_other = {repr(Sym("type_data['name']")): Sym("NAME")}
    outs = run_type_string(ctx, "NamedType")
    others = [o for o in outs if o.kind == "return" and not (isinstance(o.value, Const) and o.value.v in leaf.values())]
    key = f"{gkey}::leaf::other"
    def _own_name(v):  # the class's own name, possibly through the keyword escaper / name conversion
        while isinstance(v, App) and v.func in ("_replace_if_safeds_keyword", "_convert_name_to_convention") and v.args:
            v = v.args[0]
        return v == Sym("type_data['name']")
    okv = bool(others) and all(_own_name(o.value) for o in others)
    if okv:
        col.ok("C05.LEAF-TABLE", key, repo.loc(GEN, others[0].node), "any other name -> type_data['name'] (the class's own name)")
    else:
        col.bad("C05.LEAF-TABLE", key, repo.loc(GEN, gfi.node), f"{[repr(o.value) for o in others]}", "a class name is not rendered as the class's own name")
    # no other constant leaves (e.g. 'bytes' silently mapped)
    consts = {o.value.v for o in outs if o.kind == "return" and isinstance(o.value, Const)}
    key = f"{gkey}::leaf::closed"
    if consts == set(leaf.values()):
        col.ok("C05.LEAF-TABLE", key, repo.loc(GEN, gfi.node), f"constant leaves are exactly {sorted(consts)}")
    else:
        col.bad("C05.LEAF-TABLE", key, repo.loc(GEN, gfi.node), f"constant leaves {sorted(consts)}", f"leaf table differs from the documented one: {sorted(consts ^ set(leaf.values()))}")

    # ------------------------------------------------------------------ KIND-RENDER + RECURSE (generator)
    tm = repo.module(TYPES_MOD)
    nested_keys: dict[str, list[str]] = {}
    for k in ctx.sds_type_classes:
        ci = tm.classes[k]
        fi = repo.function(TYPES_MOD, f"{k}.to_dict")
        outs = ctx.interp(fi).run_function(fi, {"self": Sym("self", f"sds.{k}")})
        keys = []
        for o in outs:
            if isinstance(o.value, DictV):
                for kk, vv in o.value.items:
                    if isinstance(kk, Const) and kk.v != "kind":
                        src = {p.path.split(".")[1].split("[")[0] for p in walk_av(vv) if isinstance(p, Sym) and p.path.startswith("self.")}
                        anns = [ann for f, ann, _d, _k in ci.fields if f in src]
                        if any("AbstractType" in a for a in anns):
                            keys.append(kk.v)
        nested_keys[k] = sorted(set(keys))
    shapes = {
        "ListType": (r"^List<.*>$", "List<…>"), "SetType": (r"^Set<.*>$", "Set<…>"), "DictType": (r"^Map<.*, .*>$", "Map<k, v>"),
        "TupleType": (r"^Tuple<.*>$", "Tuple<…>"), "LiteralType": (r"^literal<.*>$", "literal<…>"),
        "CallableType": (r"^\(.*\) -> .*$", "(…) -> …"), "NamedSequenceType": (r"^\{[^{}]*\}<.*>$", "Name<…>"),
        "UnionType": (r"^(union<.*>|\{.*\}\?|\{.*\}|)$", "union<…> | T? | T"),
    }
    produced = ["NamedType", "NamedSequenceType", "ListType", "SetType", "DictType", "TupleType", "UnionType", "LiteralType",
                "CallableType", "FinalType", "TypeVarType", "UnknownType"]
    for kind in produced:
        outs = run_type_string(ctx, kind)
        rets = [o for o in outs if o.kind == "return"]
        key = f"{gkey}::render::{kind}"
        if any(o.kind == "raise" for o in outs) or not rets:
            col.bad("C05.KIND-RENDER", key, repo.loc(GEN, gfi.node), f"{[(o.kind, o.exc) for o in outs]}", f"kind {kind} is not rendered on every path (raise / no branch)")
            continue
        if kind in shapes:
            rx, desc = shapes[kind]
            bad = [render(o.value) for o in rets if not re.match(rx, render(o.value), re.S)]
            # ListType/SetType heads are computed from the kind string: check the literal head
            if bad:
                col.bad("C05.KIND-RENDER", key, repo.loc(GEN, rets[0].node), f"{bad[:2]}", f"kind {kind} is rendered as {bad[0][:120]!r}, expected the shape {desc}")
            else:
                col.ok("C05.KIND-RENDER", key, repo.loc(GEN, rets[0].node), f"{len(rets)} paths, all of shape {desc}")
        elif kind == "FinalType":
            good = all(isinstance(o.value, App) and o.value.func == REC_G and o.value.args == (Sym("type_data['type']"),) for o in rets)
            (col.ok if good else col.bad)("C05.KIND-RENDER", key, repo.loc(GEN, rets[0].node), f"{[repr(o.value) for o in rets]}",
                                          *([] if good else ["Final[T] is not rendered as the translation of T"]))
        elif kind == "TypeVarType":
            good = all(mentions(o.value, "type_data['name']") for o in rets)
            (col.ok if good else col.bad)("C05.KIND-RENDER", key, repo.loc(GEN, rets[0].node), f"{[repr(o.value) for o in rets]}",
                                          *([] if good else ["a type variable is not rendered by its name"]))
        else:
            col.ok("C05.KIND-RENDER", key, repo.loc(GEN, rets[0].node), f"{len(rets)} paths", nontrivial=False)
        # RECURSE: nested keys are read and translated
        for nk in nested_keys.get(kind, []):
            rkey = f"{gkey}::recurse::{kind}.{nk}"
            path = f"type_data['{nk}']"
            missing = []
            for o in rets:
                # paths that return a non-empty rendering must translate the child (calls are recorded as effects)
                called = any(e.kind == "call" and e.target == REC_G and e.args and mentions(e.args[0], path) for e in o.effects)
                # a path may render a child without translating it only after identifying it completely (its kind
                # and its name were compared with constants on this path, e.g. "-> None" of a callable is "()")
                identified = any(v and f"<{path}['name']>" in k for k, v in o.facts) and any(v and f"<{path}['kind']>" in k for k, v in o.facts)
                if not called and not identified and not (kind == "TypeVarType"):
                    missing.append(fmt_facts(o.facts)[:100])
                raw = [h for h in walk_av(o.value) if isinstance(h, Sym) and h.path.startswith(path)
                       and not any(mentions(a, h.path) for a in apps(o.value, REC_G))]
                if raw:
                    missing.append(f"raw child {raw[0]!r} in output")
            if kind == "TypeVarType":
                continue  # the bound of a type variable is rendered where the variable is declared (C05.POSITIONS)
            if missing:
                col.bad("C05.RECURSE", rkey, repo.loc(GEN, gfi.node), f"{missing[:2]}",
                        f"the {kind} branch does not pass its child {nk!r} through the translator on every path ({missing[0]})")
            else:
                col.ok("C05.RECURSE", rkey, repo.loc(GEN, gfi.node), f"child key {nk!r} translated on all {len(rets)} paths")

    # ------------------------------------------------------------------ UNION-NORMAL
    outs = run_type_string(ctx, "UnionType")
    rets = [o for o in outs if o.kind == "return"]
    unions = [o for o in rets if render(o.value).startswith("union<")]
    key = f"{gkey}::union::dedup-sort"
    bad = []
    for o in unions:
        reps = [x for x in walk_av(o.value) if isinstance(x, Rep)]
        if not reps or not all("dedup" in r.tags and ({"sorted", "sorted+edit"} & r.tags) for r in reps):
            bad.append([sorted(r.tags) for r in reps])
    if bad or not unions:
        col.bad("C05.UNION-NORMAL", key, repo.loc(GEN, gfi.node), f"tags of joined member lists: {bad[:3]}",
                "union members are joined without passing a de-duplication (set) and a sort barrier: duplicates or "
                "hash-order dependent member order in union<…>")
    else:
        col.ok("C05.UNION-NORMAL", key, repo.loc(GEN, unions[0].node), f"{len(unions)} union paths: member list is de-duplicated and sorted")
    # the Literal members of a union are merged into one literal type: every value of every member, in order, once
    merged = []
    for o in outs:
        for e in o.effects:
            if e.target.endswith(".append") and e.args and isinstance(e.args[0], DictV):
                d = {k.v: v for k, v in e.args[0].items if isinstance(k, Const)}
                if d.get("kind") == Const("LiteralType") and "literals" in d:
                    merged.append((e, d["literals"]))
    key = f"{gkey}::union::literal-merge"
    probs = []
    for e, v in merged:
        if not isinstance(v, ListV):
            probs.append(f"`literals` is {render(v)[:80]}")
        elif v.tags & {"dedup", "sorted", "sorted+edit", "unordered"}:
            probs.append(f"`literals` passes {sorted(v.tags)}")
        elif not v.items or not all(isinstance(x, Sym) and x.path.endswith("['literals'][*]") for x in v.items):
            probs.append(f"`literals` is built from {[render(x)[:50] for x in v.items]}")
    if probs or not merged:
        col.bad("C05.UNION-NORMAL", key, repo.loc(GEN, merged[0][0].node if merged else gfi.node), "; ".join(sorted(set(probs))) or "merge site not found",
                "the values of the Literal members of a union are not concatenated as they are (" + (sorted(set(probs)) or ["no merge"])[0] + "): a de-duplication by == drops `True` next to `1` "
                "(or `0` next to `False`), a sort reorders the values")
    else:
        col.ok("C05.UNION-NORMAL", key, repo.loc(GEN, merged[0][0].node), f"{len(merged)} merge effect(s): the merged literal list is the flat concatenation of the members' value lists")
    nullable = [o for o in rets if render(o.value).endswith("?") and not render(o.value).startswith("union<")]
    key = f"{gkey}::union::nullable"
    bad = []
    for o in nullable:
        f_len = [v for k, v in o.facts if re.match(r"len\(.*\)==2|2==len\(.*\)", k.replace(" ", ""))]
        f_none = [v for k, v in o.facts if k.startswith("'Nothing?' in ")]
        if not (f_len and f_len[-1] is True and f_none and f_none[-1] is True):
            bad.append(fmt_facts(o.facts)[:200])
    if bad or not nullable:
        col.bad("C05.UNION-NORMAL", key, repo.loc(GEN, gfi.node), f"{bad[:2]}", "the nullable shorthand T? is produced on a path that did not establish 'exactly two members, one of them Nothing?'")
    else:
        col.ok("C05.UNION-NORMAL", key, repo.loc(GEN, nullable[0].node), f"{len(nullable)} T? paths, each under len==2 and 'Nothing?' in members")
    # which member kinds may take the shorthand: `X?` is only a type when X is a (possibly parameterised) named type; `unknown?`, a callable type
    # followed by `?` or `union<...>?` are not Safe-DS (C02)
    none_member = DictV(((Const("kind"), Const("NamedType")), (Const("name"), Const("None")), (Const("qname"), Const("builtins.None"))))
    tsfi2 = repo.function(GEN, f"{GENCLS}._create_type_string")
    for mk in sorted(ctx.sds_type_classes):
        member = DictV(((Const("kind"), Const(mk)), (Const("name"), Sym("M.name")), (Const("qname"), Sym("M.qname"))))
        td = DictV(((Const("kind"), Const("UnionType")), (Const("types"), ListV((member, none_member)))))
        kouts = ctx.interp(tsfi2).run_function(tsfi2, {"self": Sym("self"), "type_data": td}, gen_state())
        short = [o for o in kouts if o.kind == "return" and render(o.value).endswith("?") and not render(o.value).startswith("union<")]
        key = f"{gkey}::union::nullable-member-kind::{mk}"
        forbidden = mk in ("UnknownType", "CallableType", "UnionType", "LiteralType")
        if forbidden and short:
            col.bad("C05.UNION-NORMAL", key, repo.loc(GEN, short[0].node), f"`{render(short[0].value)[:70]}`",
                    f"a union of a {mk} and None is written with the nullable shorthand: " + {"UnknownType": "`unknown?`", "CallableType": "`(param_1: Int) -> result_1: Int?`", "UnionType": "`union<...>?`",
                                                                                              "LiteralType": "`literal<...>?`"}[mk] + " is no Safe-DS type (only named types take `?`)")
        else:
            col.ok("C05.UNION-NORMAL", key, repo.loc(GEN, tsfi2.node), f"{mk} | None: " + ("shorthand `X?`" if short else "written as a union / merged literal"), nontrivial=forbidden or bool(short))
    # the literal-or-None shorthand returns one member alone: only a union of exactly two members may be collapsed that way
    collapsed = [o for o in rets if isinstance(o.value, App) and o.value.func.endswith("_create_type_string")]
    key = f"{gkey}::union::literal-none-shorthand"
    bad = [fmt_facts(o.facts)[:200] for o in collapsed if not any(re.match(r"len\(.*\)==2|2==len\(.*\)", k.replace(" ", "")) and v for k, v in o.facts)]
    if bad or not collapsed:
        col.bad("C05.UNION-NORMAL", key, repo.loc(GEN, collapsed[0].node if collapsed else gfi.node), f"{bad[:2]}" if bad else "no such path",
                "a union is rendered as one of its members alone (the literal<..., null> shorthand) on a path that did not establish that the union has exactly two members: "
                "every further member (`Literal['auto'] | int | None`) is dropped")
    else:
        col.ok("C05.UNION-NORMAL", key, repo.loc(GEN, collapsed[0].node), f"{len(collapsed)} paths render a single member of the union, each under len(types) == 2")
    single = [o for o in rets if isinstance(o.value, App) and o.value.func == "[]"]
    key = f"{gkey}::union::single"
    if single and all(any(re.match(r"len\(.*\)==1|1==len\(.*\)", k.replace(" ", "")) and v for k, v in o.facts) for o in single):
        col.ok("C05.UNION-NORMAL", key, repo.loc(GEN, single[0].node), "a one-member union is rendered as that member")
    else:
        col.bad("C05.UNION-NORMAL", key, repo.loc(GEN, gfi.node), f"{len(single)} paths", "one-member unions are not collapsed to the member under len == 1")

    # ------------------------------------------------------------------ INPUT-UNMODIFIED
    from ..core.mypyfacts import MypyFacts
    mf = MypyFacts(repo)
    col.trust("mypy (the repository's own dependency) expression types")
    for rel in (VISITOR, HELPERS, GETAPI, WALKER, DOCPARSER):
        mi = repo.module(rel)
        for fi in mi.functions.values():
            for n in ast.walk(fi.node):
                tgts = n.targets if isinstance(n, ast.Assign) else [n.target] if isinstance(n, (ast.AugAssign, ast.AnnAssign)) else []
                for t in tgts:
                    for sub in ([t] if not isinstance(t, (ast.Tuple, ast.List)) else t.elts):
                        if not isinstance(sub, (ast.Attribute, ast.Subscript)):
                            continue
                        col.touched(fi)
                        ty = mf.type_of(rel, sub.value) or "?"
                        key = f"{rel}::{fi.qualname}::store::{ast.unparse(sub)[:60]}"
                        lib = any(re.match(r"mypy\.(nodes|types)\.\w+", alt.strip()) for alt in top_level_alternatives(ty))
                        if lib:
                            col.bad("C05.INPUT-UNMODIFIED", key, repo.loc(rel, n), f"`{ast.unparse(n)[:80]}`: receiver type {ty[:60]}",
                                    f"{fi.qualname} writes into a mypy object (`{ast.unparse(sub)[:50]}`, a {ty[:40]}): the type that reaches the translator in this position is no longer the "
                                    f"one mypy analysed (e.g. `x: list[Optional[int]]` as a class attribute becomes List<Optional> while a parameter gives List<Int?>)")
                        else:
                            col.ok("C05.INPUT-UNMODIFIED", key, repo.loc(rel, n), f"receiver type {ty[:60]}: not a mypy object", nontrivial=ty != "?")
    # ------------------------------------------------------------------ NONE-TEST (self-conjunctions in conditions)
    probs = []
    for n in ast.walk(gfi.node):
        if isinstance(n, ast.BoolOp) and isinstance(n.op, ast.And):
            srcs = [ast.unparse(v) for v in n.values]
            for i, v in enumerate(n.values):
                # `X == c and X` : the second conjunct is the bare subject of the first comparison
                if isinstance(v, ast.Compare) and len(v.ops) == 1 and isinstance(v.ops[0], ast.Eq):
                    subj = ast.unparse(v.left)
                    for j, w in enumerate(srcs):
                        if j != i and w == subj:
                            probs.append((n.lineno, ast.unparse(n)))
    key = f"{gkey}::none-test"
    if probs:
        col.bad("C05.NONE-TEST", key, repo.loc(GEN, gfi.node) .rsplit(":", 1)[0] + f":{probs[0][0]}", f"{probs}",
                f"condition `{probs[0][1]}` tests a kind and then the truthiness of the same kind string instead of the "
                f"name: every NamedType counts as the none type (e.g. Literal['a'] | int is rendered literal<\"a\", null>)")
    else:
        col.ok("C05.NONE-TEST", key, repo.loc(GEN, gfi.node), "no comparison is conjoined with its own subject")

    # ------------------------------------------------------------------ CTOR-TABLE (visitor)
    vfi = repo.function(VISITOR, "MyPyAstVisitor.mypy_type_to_abstract_type")
    col.touched(vfi)
    vkey = f"{VISITOR}::MyPyAstVisitor.mypy_type_to_abstract_type"

    def run_v(cls: str, eq: dict | None = None) -> list[Outcome]:
        it = ctx.interp(vfi)
        st = State({"self": Sym("self")})
        for k, v in (eq or {}).items():
            st.eq[k] = v
        return it.run_function(vfi, {"self": Sym("self"), "mypy_type": Sym("mypy_type", cls), "unanalyzed_type": Const(None)}, st)

    def only_obj(outs: list[Outcome]) -> set[str]:
        res = set()
        for o in outs:
            if o.kind == "raise":
                res.add(f"raise {o.exc}")
            elif isinstance(o.value, Obj):
                res.add(o.value.cls)
            else:
                res.add(repr(o.value)[:60])
        return res

    simple = {"TupleType": ("sds.TupleType", [("types", "mypy_type.items")]),
              "UnionType": ("sds.UnionType", [("types", "mypy_type.items")]),
              "CallableType": ("sds.CallableType", [("parameter_types", "mypy_type.arg_types"), ("return_type", "mypy_type.ret_type")]),
              "NoneType": ("sds.NamedType", []), "LiteralType": ("sds.LiteralType", [])}
    # a plain tuple type falls back to builtins.tuple; an instance of a NamedTuple class is a tuple type whose fallback is the class (below)
    plain_tuple = {repr(Sym("mypy_type.partial_fallback.type.fullname")): Const("builtins.tuple")}
    for cls, (want, children) in simple.items():
        outs = run_v(cls, plain_tuple if cls == "TupleType" else None)
        got = only_obj(outs)
        key = f"{vkey}::{cls}"
        probs = []
        if got != {want}:
            probs.append(f"maps to {sorted(got)}, reference {want}")
        for o in outs:
            if isinstance(o.value, Obj):
                for fld, path in children:
                    fv = o.value.get(fld)
                    if fv is None or not rec_over(fv, REC_V, path):
                        probs.append(f"child {fld} is not the translation of {path}: {fv!r}")
                if cls == "NoneType" and not (o.value.get("name") == Const("None") and o.value.get("qname") == Const("builtins.None")):
                    probs.append(f"none type built as {o.value!r}")
                if cls == "LiteralType" and not mentions(o.value.get("literals") or Const(0), "mypy_type.value"):
                    probs.append("literal value not taken from the literal type")
        if probs:
            col.bad("C05.CTOR-TABLE", key, repo.loc(VISITOR, vfi.node), "; ".join(probs[:2]), f"mypy {cls}: {probs[0]}")
        else:
            col.ok("C05.CTOR-TABLE", key, repo.loc(VISITOR, outs[0].node), f"{cls} -> {want} with translated children {[c for c, _ in children]}")
    # NamedTuple classes: mypy represents `p: Point` (class Point(NamedTuple)) as TupleType(items of the fields, partial_fallback=Instance(Point))
    outs = run_v("TupleType", {repr(Sym("mypy_type.partial_fallback.type.fullname")): Const("pkg.mod.Point"), repr(Sym("mypy_type.partial_fallback.type.name")): Const("Point")})
    key = f"{vkey}::TupleType::named-tuple-class"
    named = [o for o in outs if o.kind == "return" and isinstance(o.value, Obj) and o.value.cls == "sds.NamedType" and o.value.get("name") == Const("Point") and o.value.get("qname") == Const("pkg.mod.Point")]
    if outs and len(named) == len(outs):
        col.ok("C05.CTOR-TABLE", key, repo.loc(VISITOR, vfi.node), "a tuple type whose fallback is a class of its own is named after the class")
    else:
        col.bad("C05.CTOR-TABLE", key, repo.loc(VISITOR, vfi.node), f"{sorted(only_obj(outs))}",
                "an instance of a NamedTuple class is expanded to its fields: `class Point(NamedTuple): x: int; y: int` used as `by: Point` is emitted as `Tuple<Int, Int>` in every position, and "
                "`def move(self) -> Point` gets two results (result_1: Int, result_2: Int) instead of the class name - the fallback class of mypy's TupleType is ignored")
    # `Callable[..., X]` / bare `Callable`: mypy fills in (*args: Any, **kwargs: Any) and sets is_ellipsis_args; the two Any are no parameters
    eouts = run_v("CallableType", {repr(Sym("mypy_type.is_ellipsis_args")): Const(True)})
    key = f"{vkey}::CallableType::ellipsis-parameters"
    copies = [o for o in eouts if o.kind == "return" and isinstance(o.value, Obj) and o.value.cls == "sds.CallableType" and rec_over(o.value.get("parameter_types") or Const(0), REC_V, "mypy_type.arg_types")]
    reads = any("is_ellipsis_args" in k or "arg_kinds" in k for o in eouts for k, _ in o.facts)
    if copies and not reads:
        col.bad("C05.CTOR-TABLE", key, repo.loc(VISITOR, vfi.node), "parameter_types is the element-wise image of arg_types; is_ellipsis_args / arg_kinds are never read",
                "`Callable[..., int]` and bare `Callable` are emitted as `(param_1: Any, param_2: Any) -> ...`, the image of `Callable[[Any, Any], int]`: mypy models the ellipsis as "
                "(*args: Any, **kwargs: Any) with is_ellipsis_args set, and the translator copies arg_types without looking at the flag or the argument kinds")
    else:
        col.ok("C05.CTOR-TABLE", key, repo.loc(VISITOR, vfi.node), "the parameter list of a callable type depends on is_ellipsis_args / arg_kinds")
    # `tuple[X, ...]`: mypy keeps fixed-length tuples as TupleType; an Instance of builtins.tuple is always the variable-length form (one argument)
    touts = run_v("Instance", {repr(Sym("mypy_type.type.name")): Const("tuple"), repr(Sym("mypy_type.type.fullname")): Const("builtins.tuple")})
    key = f"{vkey}::Instance:tuple::variable-length"
    fixed = [o for o in touts if o.kind == "return" and isinstance(o.value, Obj) and o.value.cls == "sds.TupleType" and rec_over(o.value.get("types") or Const(0), REC_V, "mypy_type.args")]
    if fixed:
        col.bad("C05.CTOR-TABLE", key, repo.loc(VISITOR, vfi.node), "Instance(builtins.tuple, [X]) -> TupleType(types=[X'])",
                "`tuple[int, ...]` (any length) is emitted as `Tuple<Int>`, the image of the 1-tuple `tuple[int]`, and as a result annotation it becomes the single result `result_1: Int`: "
                "an Instance of builtins.tuple is always mypy's variable-length form, but its one argument is taken for the element list of a fixed tuple")
    else:
        col.ok("C05.CTOR-TABLE", key, repo.loc(VISITOR, vfi.node), "a variable-length tuple is not given the image of a fixed tuple")
    # TypeVarType
    outs = run_v("TypeVarType")
    got = only_obj(outs)
    key = f"{vkey}::TypeVarType"
    tv_ok = all((isinstance(o.value, Obj) and o.value.cls == "sds.TypeVarType" and mentions(o.value.get("name") or Const(0), "mypy_type.name"))
                or (isinstance(o.value, App) and o.value.func == REC_V) for o in outs if o.kind == "return") and not any(o.kind == "raise" for o in outs)
    (col.ok if tv_ok else col.bad)("C05.CTOR-TABLE", key, repo.loc(VISITOR, vfi.node), f"{sorted(got)}",
                                   *([] if tv_ok else ["type variables are not mapped to TypeVarType(name) / the bound of Self"]))
    # Instance table
    inst = {"int": "sds.NamedType", "str": "sds.NamedType", "bool": "sds.NamedType", "float": "sds.NamedType",
            "tuple": "sds.TupleType", "list": "sds.ListType", "Sequence": "sds.ListType", "Collection": "sds.ListType",
            "set": "sds.SetType", "dict": "sds.DictType", "Mapping": "sds.DictType"}
    for name, want in inst.items():
        std_mod = "typing" if name[0].isupper() else "builtins"
        facts = {repr(Sym("mypy_type.type.name")): Const(name), repr(Sym("mypy_type.type.fullname")): Const(f"{std_mod}.{name}"), repr(Sym("mypy_type.type.module_name")): Const(std_mod)}
        if want == "sds.DictType":
            # library fact: an Instance carries one argument per type variable of its class (mypy fills omitted ones with Any);
            # builtins.dict and typing.Mapping have two.  A class that is merely named like them is the `other class` case.
            facts[repr(App("len", (Sym("mypy_type.args"),)))] = Const(2)
        outs = run_v("Instance", facts)
        got = only_obj(outs)
        key = f"{vkey}::Instance:{name}"
        probs = []
        if got != {want}:
            probs.append(f"maps to {sorted(got)}, reference {want}")
        for o in outs:
            if isinstance(o.value, Obj):
                if want in ("sds.TupleType", "sds.ListType", "sds.SetType") and not rec_over(o.value.get("types") or Const(0), REC_V, "mypy_type.args"):
                    probs.append("type arguments are not translated element-wise")
                if want == "sds.DictType":
                    kt, vt = o.value.get("key_type"), o.value.get("value_type")
                    if not (isinstance(kt, App) and kt.func == REC_V and kt.args == (Sym("mypy_type.args[0]"),)
                            and isinstance(vt, App) and vt.func == REC_V and vt.args == (Sym("mypy_type.args[1]"),)):
                        probs.append(f"key/value are not the translations of args[0]/args[1]: {kt!r}, {vt!r}")
                if want == "sds.NamedType" and not (o.value.get("name") == Const(name) and o.value.get("qname") in (Sym("mypy_type.type.fullname"), Const(f"{std_mod}.{name}"))):
                    probs.append(f"builtin built as {o.value!r}")
        if probs:
            col.bad("C05.CTOR-TABLE", key, repo.loc(VISITOR, vfi.node), "; ".join(dict.fromkeys(probs)), f"Instance of {name}: {probs[0]}")
        else:
            col.ok("C05.CTOR-TABLE", key, repo.loc(VISITOR, outs[0].node), f"{name} -> {want}")
    # a class of the analysed package (or of another library) that is merely *named* like a builtin container is an ordinary class
    for name in ("Sequence", "Collection", "Mapping", "list", "set", "dict", "tuple"):
        facts = {repr(Sym("mypy_type.type.name")): Const(name), repr(Sym("mypy_type.type.fullname")): Const(f"pkg.mod.{name}"), repr(Sym("mypy_type.type.module_name")): Const("pkg.mod")}
        outs = run_v("Instance", facts)
        got = only_obj(outs)
        key = f"{vkey}::Instance:{name}::class-of-the-package"
        wrong = sorted(g for g in got if g in ("sds.ListType", "sds.SetType", "sds.DictType", "sds.TupleType"))
        if wrong:
            col.bad("C05.CTOR-TABLE", key, repo.loc(VISITOR, vfi.node), f"a class pkg.mod.{name} maps to {sorted(got)}",
                    f"the builtin containers are recognised by their bare class name: a class of the package named `{name}` (`class {name}(Generic[T]): ...; def f(x: {name}[int])`) is translated as "
                    f"{wrong[0].split('.')[-1]} instead of the class's own name")
        else:
            col.ok("C05.CTOR-TABLE", key, repo.loc(VISITOR, vfi.node), f"a class pkg.mod.{name} is translated like any other class: {sorted(got)}")
    # other class: with args -> NamedSequenceType, without -> NamedType
    outs = run_v("Instance", {repr(Sym("mypy_type.type.name")): Const("SomeClass")})
    key = f"{vkey}::Instance:other"
    probs = []
    for o in outs:
        args_fact = o.fact("truthy:<mypy_type.args>")
        if not isinstance(o.value, Obj):
            probs.append(f"{o.kind} {o.value!r}")
            continue
        if args_fact is True and not (o.value.cls == "sds.NamedSequenceType" and rec_over(o.value.get("types") or Const(0), REC_V, "mypy_type.args")
                                      and o.value.get("qname") == Sym("mypy_type.type.fullname")):
            probs.append(f"generic class -> {o.value!r}")
        if args_fact is False and not (o.value.cls == "sds.NamedType" and o.value.get("qname") == Sym("mypy_type.type.fullname")
                                       and o.value.get("name") == Const("SomeClass")):
            probs.append(f"plain class -> {o.value!r}")
    (col.ok if not probs else col.bad)("C05.CTOR-TABLE", key, repo.loc(VISITOR, vfi.node), "; ".join(probs) or "class with args -> NamedSequenceType, without -> NamedType(name, fullname)",
                                       *([] if not probs else [f"user class: {probs[0]}"]))
    # mypy flattens nested unions when it builds them, but not through type aliases: `Optional[IntOrStr]` is Union[IntOrStr, None] with an
    # alias item.  Since aliases are expanded (TypeAliasType case), the members of such a union have to be flattened before they are translated.
    uouts = run_v("UnionType")
    uvals = [o.value for o in uouts if o.kind == "return" and isinstance(o.value, Obj) and o.value.cls == "sds.UnionType"]
    flattened = bool(uvals) and all("flatten" in repr(v.get("types")) for v in uvals)
    key = f"{vkey}::UnionType::members-flattened"
    if flattened:
        col.ok("C05.CTOR-TABLE", key, repo.loc(VISITOR, vfi.node), "union members are flattened (through aliases) before they are translated")
    else:
        col.bad("C05.CTOR-TABLE", key, repo.loc(VISITOR, vfi.node), f"types = {uvals[0].get('types')!r}"[:160] if uvals else "no UnionType result",
                "the members of a union are translated one by one without flattening unions that come in through a type alias: `IntOrStr = Union[int, str]; def f(a: Optional[IntOrStr], b: Union[IntOrStr, int])` "
                "is emitted as `a: union<union<Int, String>, Nothing?>`, `b: union<Int, union<Int, String>>` (duplicate kept), and `Mode = Literal[\"a\", \"b\"]; c: Mode | None` as "
                "`union<literal<\"a\", \"b\">, Nothing?>` instead of one literal with null")
    # ... and every flattened member has its translation in the union: no member is decided away by comparing translated members with each
    # other (the model classes compare Tuple / Callable / List / Set arguments as multisets and literal values with ==, so `Tuple[int, str]`
    # and `Tuple[str, int]`, `Literal[1]` and `Literal[True]` pass for duplicates)
    key = f"{vkey}::UnionType::members-kept"
    filters = sorted({k for o in uouts if o.kind == "return" for k, _ in o.facts if f"{REC_V}(elem(" in k})
    member_wise = bool(uvals) and all(isinstance(v.get("types"), ListV) and v.get("types").open and len(v.get("types").items) == 1 and isinstance(v.get("types").items[0], App)
                                      and v.get("types").items[0].func == REC_V for v in uvals)
    if member_wise and not filters:
        col.ok("C05.CTOR-TABLE", key, repo.loc(VISITOR, vfi.node), "the union's members are the element-wise translation of the flattened items, none is filtered")
    else:
        col.bad("C05.CTOR-TABLE", key, repo.loc(VISITOR, vfi.node), (f"members are kept or dropped on {filters[0]}" if filters else f"types = {uvals[0].get('types')!r}" if uvals else "no UnionType result")[:200],
                "a member of a union is dropped on a test over translated members: the model classes compare argument lists as multisets and literal values with ==, so "
                "`PairOrNone = Union[Tuple[int, str], None]; Union[PairOrNone, Tuple[str, int]]` loses `Tuple<String, Int>` and `Switch = Literal[0, 1]; Union[Switch, Literal[True]]` loses `true`")
    # a class of a library that could not be imported: mypy's Any records the *import* that failed (`numpy` for `import numpy as np`),
    # the class is only spelled in the annotation (`np.ndarray`)
    sta = State({"self": Sym("self")})
    sta.eq[repr(Sym("mypy_type.type_of_any"))] = EnumM("TypeOfAny", "from_unimported_type")
    aouts = ctx.interp(vfi).run_function(vfi, {"self": Sym("self"), "mypy_type": Sym("mypy_type", "AnyType"), "unanalyzed_type": Sym("unanalyzed_type", "UnboundType")}, sta)
    named = [o.value for o in aouts if o.kind == "return" and isinstance(o.value, Obj) and o.value.cls == "sds.NamedType" and o.value.get("name") != Const("Any")]
    from_import_only = [v for v in named if "missing_import_name" in repr(v.get("name")) and "unanalyzed_type" not in repr(v.get("name"))]
    key = f"{vkey}::AnyType:from_unimported_type::name"
    if named and not from_import_only:
        col.ok("C05.CTOR-TABLE", key, repo.loc(VISITOR, vfi.node), "the name of a class of an unimportable library is taken from the annotation")
    elif named:
        col.bad("C05.CTOR-TABLE", key, repo.loc(VISITOR, vfi.node), f"name = {from_import_only[0].get('name')!r}"[:160],
                "a class of a library that is not installed, referenced through its module (`import numpy as np; def f(a: np.ndarray)`), is named after the last segment of mypy's "
                "missing_import_name, which is the import that failed (`numpy`), not the class: the stub says `a: numpy`, a type that is neither imported nor declared "
                "(`from numpy import ndarray; b: ndarray` is right)")
    else:
        col.ok("C05.CTOR-TABLE", key, repo.loc(VISITOR, vfi.node), "no named type is built for unimportable classes", nontrivial=False)
    # Final[T]: mypy strips the qualifier, the analysed type is that of T; the unanalysed argument is an UnboundType, for which the translator
    # only understands scalars, list/set and classes of the same module
    stf = State({"self": Sym("self")})
    fin = Obj("UnboundType", (("name", Const("Final")), ("args", ListV((Sym("final_arg", "UnboundType"),)))))
    outs = ctx.interp(vfi).run_function(vfi, {"self": Sym("self"), "mypy_type": Sym("mypy_type"), "unanalyzed_type": fin}, stf)
    rets = [o for o in outs if o.kind == "return"]
    probs = []
    for o in rets:
        v = o.value
        if not (isinstance(v, Obj) and v.cls == "sds.FinalType"):
            probs.append(f"Final[T] -> {v!r}"[:80])
            continue
        inner = v.get("type_")
        def is_analysed(a: AV) -> bool:
            return a == Sym("mypy_type") or (isinstance(a, App) and a.func.endswith("get_proper_type") and a.args == (Sym("mypy_type"),))
        if not (isinstance(inner, App) and inner.func == REC_V and inner.args and is_analysed(inner.args[0])):
            probs.append(f"the wrapped type is {inner!r}"[:120] + ", not the translation of the analysed type")
    key = f"{vkey}::Final[T]"
    if probs or not rets:
        col.bad("C05.CTOR-TABLE", key, repo.loc(VISITOR, vfi.node), "; ".join(dict.fromkeys(probs)) or "no path",
                "the type wrapped by Final[...] is translated from the unanalysed annotation instead of the type mypy analysed: `a: Final[list[Optional[int]]]` is emitted as `List<Optional>`, "
                "`b: Final[Optional[Item]]` as `Optional`, `c: Final[dict[str, tuple[int, str]]]` as `unknown`, while the same annotations without Final are translated correctly")
    else:
        col.ok("C05.CTOR-TABLE", key, repo.loc(VISITOR, rets[0].node), "Final[T] -> FinalType(translation of the analysed type of T)")
    # a type alias is transparent: mypy hands over a TypeAliasType (no ProperType) wherever an alias is used
    st_alias = {f"truthy:{Sym('mypy_type.is_recursive')!r}": False}
    it_a = ctx.interp(vfi)
    st0 = State({"self": Sym("self")})
    st0.facts.update(st_alias)
    outs = it_a.run_function(vfi, {"self": Sym("self"), "mypy_type": Sym("mypy_type", "TypeAliasType"), "unanalyzed_type": Const(None)}, st0)
    rets = [o for o in outs if o.kind == "return"]
    all_unknown = bool(rets) and all(isinstance(o.value, Obj) and o.value.cls == "sds.UnknownType" for o in rets)
    expands = any(isinstance(x, App) and ("get_proper_type" in x.func or "expand" in x.func or x.func.endswith("_expand_once")) for o in outs for e in o.effects for x in ([App(e.target, e.args)] if e.kind == "call" else []))
    key = f"{vkey}::TypeAliasType"
    if all_unknown or not rets:
        col.bad("C05.CTOR-TABLE", key, repo.loc(VISITOR, vfi.node), f"{sorted(only_obj(outs))}",
                "a use of a type alias (`IntOrStr = Union[int, str]; def f(a: IntOrStr)`, `Rows = list[dict[str, int]]`) reaches the translator as mypy's TypeAliasType, which no branch expands: "
                "every alias use is emitted as `unknown`, at every position and depth")
    else:
        col.ok("C05.CTOR-TABLE", key, repo.loc(VISITOR, outs[0].node), f"TypeAliasType is expanded before the dispatch ({'get_proper_type' if expands else 'other branch'}); kinds {sorted(only_obj(outs))[:4]}")
    # every other proper type class falls back to UnknownType (never raises)
    others = [c for c in ctx.lib.subclasses("ProperType") if c not in simple and c not in
              ("ProperType", "TypeVarType", "Instance", "AnyType", "UnboundType", "FunctionLike", "TypeVarLikeType")]
    for cls in others:
        outs = run_v(cls)
        got = only_obj(outs)
        key = f"{vkey}::{cls}"
        if got == {"sds.UnknownType"}:
            col.ok("C05.CTOR-TABLE", key, repo.loc(VISITOR, outs[0].node), f"{cls} -> UnknownType (fallback)", nontrivial=False)
        else:
            col.bad("C05.CTOR-TABLE", key, repo.loc(VISITOR, vfi.node), f"{sorted(got)}", f"mypy {cls} maps to {sorted(got)} instead of the UnknownType fallback")
    # RECURSE on the visitor side is part of the child checks above.

    # ------------------------------------------------------------------ POSITIONS
    vm = repo.module(VISITOR)
    sites = {"parameter": ("MyPyAstVisitor._parse_parameter_data", REC_V), "result": ("MyPyAstVisitor._parse_results", REC_V),
             "attribute": ("MyPyAstVisitor._create_attribute", REC_V),
             "render parameter": (f"{GENCLS}._create_parameter_string", REC_G), "render result": (f"{GENCLS}._create_result_string", REC_G),
             "render attribute": (f"{GENCLS}._create_class_attribute_string", REC_G), "render property": (f"{GENCLS}._create_property_function_string", REC_G),
             "render class type parameter": (f"{GENCLS}._create_class_string", REC_G), "render function type variable": (f"{GENCLS}._create_function_string", REC_G)}
    for pos, (qual, callee) in sites.items():
        mod = VISITOR if qual.startswith("MyPyAstVisitor") else GEN
        fi = repo.function(mod, qual)
        col.touched(fi)
        calls = [n for n in ast.walk(fi.node) if isinstance(n, ast.Call) and isinstance(n.func, ast.Attribute)
                 and isinstance(n.func.value, ast.Name) and n.func.value.id == "self" and f"self.{n.func.attr}" == callee]
        key = f"{mod}::{qual}::uses-translator"
        if calls:
            col.ok("C05.POSITIONS", key, repo.loc(mod, calls[0]), f"{pos}: {len(calls)} call(s) of {callee}")
        else:
            col.bad("C05.POSITIONS", key, repo.loc(mod, fi.node), f"no call of {callee}", f"the {pos} position no longer goes through {callee}: types there are translated differently or not at all")
    # an annotated attribute is translated whatever the annotation's kind (the callable exemption is meant for `f = some_function`)
    cafi = repo.function(VISITOR, "MyPyAstVisitor._create_attribute")
    var = Obj("Var", (("type", Sym("attr_type", "CallableType")), ("fullname", Const("pkg.mod.W.handler")), ("explicit_self_type", Const(False)), ("name", Const("handler"))))
    attr_expr = Obj("NameExpr", (("name", Const("handler")), ("fullname", Const("pkg.mod.W.handler")), ("node", var)))
    couts = ctx.interp(cafi).run_function(cafi, {"self": Sym("self"), "attribute": attr_expr, "unanalyzed_type": Sym("annotation", "UnboundType"), "is_static": Const(True)},
                                          visitor_state((parent_obj("Module"), parent_obj("Class"))))
    untyped = typed = 0
    for o in couts:
        if o.kind != "return" or not isinstance(o.value, Obj):
            continue
        t = o.value.get("type")
        if t == Const(None):
            untyped += 1
        elif isinstance(t, App) and t.func == REC_V:
            typed += 1
    key = f"{VISITOR}::MyPyAstVisitor._create_attribute::annotated-callable"
    if typed and not untyped:
        col.ok("C05.POSITIONS", key, repo.loc(VISITOR, cafi.node), "an attribute annotated with a callable type is translated like any other annotation")
    else:
        col.bad("C05.POSITIONS", key, repo.loc(VISITOR, cafi.node), f"paths with a translated type: {typed}, without a type: {untyped}",
                "an attribute whose annotation is a callable type gets no type: `handler: Callable[[int], str]` (class attribute, `self.cb: Callable[[int], str] = cb`, dataclass field) is emitted as "
                "`attr handler` with the 'no type information' marker, while the same annotation is translated as parameter, result, property and inside Optional[...] / list[...]")
    # a property whose annotation is a tuple has one result per element (C07); together they are a tuple, not alternatives
    prfi = repo.function(GEN, f"{GENCLS}._create_property_function_string")
    two = ListV((Obj("Result", (("type", Sym("R1.type")), ("name", Const("result_1")))), Obj("Result", (("type", Sym("R2.type")), ("name", Const("result_2"))))))
    fobj = Obj("Function", (("name", Sym("F.name")), ("docstring", Sym("F.docstring")), ("results", two)))
    st_p = gen_state()
    st_p.neq[repr(Sym("R1.type"))] = {Const(None)}
    st_p.neq[repr(Sym("R2.type"))] = {Const(None)}
    pouts = ctx.interp(prfi).run_function(prfi, {"self": Sym("self"), "function": fobj, "indentations": Const("")}, st_p)
    joined = set()
    for o in pouts:
        for e in o.effects:
            if e.kind == "call" and e.target == REC_G and e.args:
                a0 = e.args[0]
                if isinstance(a0, DictV):
                    kinds = [v for k, v in a0.items if k == Const("kind")]
                    joined |= {k.v if isinstance(k, Const) else repr(k) for k in kinds}
                for x in walk_av(a0):
                    if isinstance(x, Obj) and x.cls.split(".")[-1] in ("UnionType", "TupleType", "ListType"):
                        joined.add(x.cls.split(".")[-1])
    key = f"{GEN}::{GENCLS}._create_property_function_string::several-results"
    if joined == {"TupleType"}:
        col.ok("C05.POSITIONS", key, repo.loc(GEN, prfi.node), "the results of a property are joined as a tuple")
    else:
        col.bad("C05.POSITIONS", key, repo.loc(GEN, prfi.node), f"two results are joined as {sorted(joined) or 'nothing recognisable'}",
                f"a property annotated `-> tuple[int, str]` has two results (one per element); the generator joins them as {sorted(joined)}: the attribute is emitted as `union<Int, String>` "
                f"(`tuple[int, int]` even as a single `Int`) and without the tuple marker (C20), while a plain attribute with the same annotation is a `Tuple<Int, String>`")
    # ------------------------------------------------------------------ SAME-SUBJECT: the rendered type of an element is
    # the translator applied to *that element's* type dictionary (no cache / lookup keyed by type equality in between)
    from .c06 import KINDS, PA, param_obj
    from .common import find_loops, new_effects, run_body, sym_is

    def type_holes_ok(template: AV, subject: str) -> tuple[bool, str]:
        """Every translator application in the template is applied to <subject>.type's own to_dict; and the text
        after ': ' is such an application."""
        txt = render(template)
        m = re.search(r": (\{.*?\})(?: = |$)", txt, re.S)
        calls = apps(template, REC_G)
        if not calls:
            return False, f"no translator application in {txt[:120]!r}"
        for c in calls:
            a0 = c.args[0] if c.args else None
            if not (a0 is not None and any(isinstance(x, App) and x.func == ".to_dict" and x.args and mentions(x.args[0], f"{subject}.type") for x in walk_av(a0))):
                return False, f"translator applied to {a0!r}, not to {subject}.type.to_dict()"
        return True, ""

    pfi = repo.function(GEN, f"{GENCLS}._create_parameter_string")
    col.touched(pfi)
    pit = ctx.interp(pfi)
    pit.run_function(pfi, {"self": Sym("self"), "parameters": Sym("parameters"), "indentations": Sym("ind"), "is_instance_method": Const(False)}, gen_state())
    loops = find_loops(pit, pfi, lambda v: sym_is(v, "parameters"))
    key = f"{GEN}::{GENCLS}._create_parameter_string::type-of-same-parameter"
    if len(loops) != 1:
        col.bad("C05.POSITIONS", key, repo.loc(GEN, pfi.node), "loop not found", "parameter loop not found")
    else:
        node, _, _, entry = loops[0]
        probs = []
        n = 0
        for kind in KINDS[1:]:
            p = param_obj("P", assigned_by=EnumM(PA, kind))
            e = entry.clone()
            e.neq[repr(Sym("P.type"))] = {Const(None)}
            for o in run_body(pit, node, e, p):
                for ef in new_effects(o, entry):
                    if ef.kind == "mutate" and ef.target.endswith(".append"):
                        if o.fact("truthy:self._create_type_string(.to_dict(<P.type>))") is False:
                            continue
                        n += 1
                        okh, why = type_holes_ok(ef.args[0], "P")
                        if not okh:
                            probs.append(why)
        if probs or not n:
            col.bad("C05.POSITIONS", key, repo.loc(GEN, node), f"{probs[:2]}", f"a parameter's rendered type is not the translation of that parameter's own type: {(probs or ['no typed entry'])[0]}")
        else:
            col.ok("C05.POSITIONS", key, repo.loc(GEN, node), f"{n} typed entries: ': ' + translator(parameter.type.to_dict())")
    # attribute position
    afi = repo.function(GEN, f"{GENCLS}._create_class_attribute_string")
    ait = ctx.interp(afi)
    ait.run_function(afi, {"self": Sym("self"), "attributes": Sym("attributes"), "inner_indentations": Sym("ind")}, gen_state())
    aloops = find_loops(ait, afi, lambda v: sym_is(v, "attributes"))
    key = f"{GEN}::{GENCLS}._create_class_attribute_string::type-of-same-attribute"
    if len(aloops) == 1:
        node, _, _, entry = aloops[0]
        a = Obj("Attribute", (("is_public", Const(True)), ("type", Sym("A.type")), ("is_static", Sym("A.is_static")), ("name", Sym("A.name")), ("docstring", Sym("A.docstring"))))
        e = entry.clone()
        e.neq[repr(Sym("A.type"))] = {Const(None)}
        probs, n = [], 0
        for o in run_body(ait, node, e, a):
            for ef in new_effects(o, entry):
                if ef.kind == "mutate" and ef.target.endswith(".append") and o.fact("truthy:<A.type>") is not False \
                        and o.fact("truthy:self._create_type_string(.to_dict(<A.type>))") is not False:
                    n += 1
                    okh, why = type_holes_ok(ef.args[0], "A")
                    if not okh:
                        probs.append(why)
        if probs or not n:
            col.bad("C05.POSITIONS", key, repo.loc(GEN, node), f"{probs[:2]}", f"an attribute's rendered type is not the translation of its own type: {(probs or ['no typed entry'])[0]}")
        else:
            col.ok("C05.POSITIONS", key, repo.loc(GEN, node), f"{n} typed entries")
    # position-specific branch: analysed type arguments are replaced by the unanalysed ones only for explicitly annotated
    # class-level attributes (NameExpr); constructor-assigned attributes (MemberExpr) keep mypy's analysed arguments
    cfi = repo.function(VISITOR, "MyPyAstVisitor._create_attribute")
    col.touched(cfi)
    key = f"{VISITOR}::MyPyAstVisitor._create_attribute::args-rewrite-position"
    probs, n = [], 0
    for cls in ("NameExpr", "MemberExpr"):
        cit = ctx.interp(cfi)
        st = State({"self": Sym("self")})
        outs = cit.run_function(cfi, {"self": Sym("self"), "attribute": Sym("attribute", cls), "unanalyzed_type": Sym("unanalyzed_type"), "is_static": Sym("is_static")}, st)
        for o in outs:
            for ef in o.effects:
                if ef.kind == "store" and ef.target.endswith(".args"):
                    n += 1
                    if cls != "NameExpr":
                        probs.append(f"type arguments overwritten for a {cls} attribute")
                    elif not any(("is_inferred" in k and v is False) for k, v in ef.conds):
                        probs.append("type arguments overwritten without testing that the annotation is explicit (not node.is_inferred)")
    if probs:
        col.bad("C05.POSITIONS", key, repo.loc(VISITOR, cfi.node), f"{sorted(set(probs))}", f"{sorted(set(probs))[0]}: instance attributes are translated differently from the same annotation elsewhere")
    else:
        col.ok("C05.POSITIONS", key, repo.loc(VISITOR, cfi.node), f"{n} rewrite(s) of .args, all under NameExpr and explicit annotation")
    col.assume("agreement with an independent reference translation of arbitrary nested annotations is not decided "
               "(needs mypy's analysis of the annotation text); unanalyzed_type special cases are not decided")


def top_level_alternatives(ty: str) -> list[str]:
    """Members of a union type as printed by mypy, split at the top nesting level only."""
    out, depth, cur = [], 0, ""
    for ch in ty:
        if ch in "[(":
            depth += 1
        elif ch in "])":
            depth -= 1
        if ch == "|" and depth == 0:
            out.append(cur)
            cur = ""
        else:
            cur += ch
    out.append(cur)
    return out
