"""C06 — parameter lists are reproduced exactly."""
from __future__ import annotations

import ast
import re

from ..core.absint import AV, Alt, App, Const, DictV, EnumM, ListV, Obj, Outcome, Rep, State, StrT, Sym, walk_av
from ..core.ctx import API_MOD, GEN, HELPERS, VISITOR, Ctx
from ..core.report import Collector
from ..core.source import AnalysisError
from .common import GENCLS, apps, find_loops, fmt_facts, gen_state, mentions, new_effects, render, run_body, sym_is

PA = "ParameterAssignment"
KINDS = ["IMPLICIT", "POSITION_ONLY", "POSITION_OR_NAME", "POSITIONAL_VARARG", "NAME_ONLY", "NAMED_VARARG"]


def ref_argkind(kind: str, pos_only: bool, is_self: bool, is_cls: bool) -> str:
    # mypy marks arguments[0] of every non-static method as the receiver, also when it is variadic (`def call(*args, timeout=3)`): the
    # receiver is then one of the values of *args, the parameter itself stays part of the signature
    if (is_self or is_cls) and kind != "ARG_STAR":
        return "IMPLICIT"
    return {"ARG_POS": "POSITION_ONLY" if pos_only else "POSITION_OR_NAME",
            "ARG_OPT": "POSITION_ONLY" if pos_only else "POSITION_OR_NAME",
            "ARG_STAR": "POSITIONAL_VARARG", "ARG_NAMED": "NAME_ONLY", "ARG_NAMED_OPT": "NAME_ONLY",
            "ARG_STAR2": "NAMED_VARARG"}[kind]


def param_obj(tag: str, **f) -> Obj:
    base = {"name": Sym(f"{tag}.name"), "type": Sym(f"{tag}.type"), "default_value": Const(None),
            "is_optional": Const(False), "assigned_by": EnumM(PA, "POSITION_OR_NAME"), "docstring": Sym(f"{tag}.docstring"),
            "id": Sym(f"{tag}.id")}
    base.update(f)
    return Obj("Parameter", tuple(base.items()))


def check(ctx: Ctx, col: Collector, tier: str) -> None:
    repo = ctx.repo
    col.spec("C06.ARGKIND-TABLE", "the API JSON records the correct passing kind for each parameter",
             "specialisation of get_argument_kind over ArgKind x pos_only x is_self x is_cls (feasible combinations)", floor=22)
    col.spec("C06.ONE-PER-PARAM", "same length, same order, same Python names (analysis side)",
             "per-iteration path analysis of the argument loop in _parse_parameter_data", floor=4)
    col.spec("C06.EMIT-ONE-PER-PARAM", "same length, same order (generator side): one appended entry per non-receiver parameter",
             "per-iteration path analysis of the loop in _create_parameter_string", floor=3)
    col.spec("C06.RECEIVER", "the implicit receiver (and only it) is removed", "specialisation over is_method/is_static/"
             "is_class_method and unrolled 3-parameter lists", floor=6)
    col.spec("C06.DEFAULT-RENDER", "literal defaults are reproduced with the same value; optional iff default",
             "specialisation of the parameter loop body over default kind x optionality x passing kind", floor=40)
    col.spec("C06.LITERAL-VALUE", "literal initialisers map to their value; everything else to 'no default'",
             "specialisation of _get_parameter_type_and_default_value over all expression classes", floor=40)
    col.spec("C06.SERIALISE", "Parameter.to_dict writes the same-named fields", "abstract to_dict value", floor=5)

    # ------------------------------------------------------------------ ARGKIND-TABLE
    fi = repo.function(HELPERS, "get_argument_kind")
    col.touched(fi)
    it = ctx.interp(fi)
    argkinds = sorted(ctx.repo_enums.get("ArgKind", ()))
    if len(argkinds) < 6:
        raise AnalysisError("library model: ArgKind has fewer than 6 members")
    pname = fi.params()[0]
    for kind in argkinds:
        for po in (True, False):
            if po and kind not in ("ARG_POS", "ARG_OPT"):
                continue  # mypy sets pos_only only for positional arguments written before '/'
            for is_self, is_cls in ((False, False), (True, False), (False, True)):
                if (is_self or is_cls) and kind == "ARG_STAR2":
                    continue  # `def m(**kwargs)` in a class cannot be called on an instance: no receiver can be bound
                arg = Obj("Argument", (("kind", EnumM("ArgKind", kind)), ("pos_only", Const(po)),
                                       ("variable", Obj("Var", (("is_self", Const(is_self)), ("is_cls", Const(is_cls)))))))
                outs = it.run_function(fi, {pname: arg})
                want = ref_argkind(kind, po, is_self, is_cls)
                key = f"{HELPERS}::get_argument_kind::{kind},pos_only={po},self={is_self},cls={is_cls}"
                got = [(o.kind, repr(o.value)) for o in outs]
                if len(outs) == 1 and outs[0].kind == "return" and outs[0].value == EnumM(PA, want):
                    col.ok("C06.ARGKIND-TABLE", key, repo.loc(HELPERS, outs[0].node), f"-> {want}")
                else:
                    col.bad("C06.ARGKIND-TABLE", key, repo.loc(HELPERS, outs[0].node if outs else fi.node), f"got {got}, reference {want}",
                            f"get_argument_kind maps ({kind}, pos_only={po}, is_self={is_self}, is_cls={is_cls}) to {got} "
                            f"instead of {PA}.{want}")

    # ------------------------------------------------------------------ ONE-PER-PARAM (visitor)
    fi = repo.function(VISITOR, "MyPyAstVisitor._parse_parameter_data")
    col.touched(fi)
    it = ctx.interp(fi)
    st = State({"self": Sym("self")})
    outs = it.run_function(fi, {"self": Sym("self"), "node": Sym("node"), "function_id": Sym("function_id")}, st)
    loops = find_loops(it, fi, lambda v: sym_is(v, "node.arguments"))
    key0 = f"{VISITOR}::MyPyAstVisitor._parse_parameter_data"
    if len(loops) != 1:
        col.bad("C06.ONE-PER-PARAM", f"{key0}::loop", repo.loc(VISITOR, fi.node), f"{len(loops)} loops over node.arguments",
                "the parameter list is not built by exactly one loop over node.arguments")
    else:
        node, itv, elem, entry = loops[0]
        body = run_body(it, node, entry, elem)
        # accumulator = the returned list
        rets = [o for o in outs if o.kind == "return"]
        acc_names = set()
        for o in rets:
            for name, val in o.env.items():
                if val is o.value or (isinstance(val, ListV) and val == o.value and isinstance(o.value, ListV)):
                    acc_names.add(name)
        bad_paths = []
        appended: list[AV] = []
        for o in body:
            if o.kind == "raise":
                continue  # failure sites are C01's
            apps_ = [e for e in new_effects(o, entry) if e.kind == "mutate" and e.target.split(".")[0] in acc_names
                     and e.target.endswith(".append")]
            others = [e for e in new_effects(o, entry) if e.kind == "mutate" and e.target.split(".")[0] in acc_names
                      and not e.target.endswith(".append")]
            if len(apps_) != 1 or others or o.kind in ("continue", "break", "return"):
                bad_paths.append((o.kind, fmt_facts(o.facts), [repr(e) for e in apps_ + others]))
            for e in apps_:
                appended.append(e.args[0])
        if bad_paths:
            col.bad("C06.ONE-PER-PARAM", f"{key0}::one-append", repo.loc(VISITOR, node),
                    f"{len(bad_paths)} of {len(body)} paths: {bad_paths[:3]}",
                    "a path through the argument loop does not append exactly one Parameter (an argument is dropped, "
                    "duplicated, or the loop is left early)")
        else:
            col.ok("C06.ONE-PER-PARAM", f"{key0}::one-append", repo.loc(VISITOR, node),
                   f"{len(body)} paths through the loop body, each appends exactly one element to {sorted(acc_names)}")
        # field provenance
        elemp = elem.path if isinstance(elem, Sym) else "node.arguments[*]"
        probs = []
        for a in appended:
            if not isinstance(a, Obj) or a.cls != "Parameter":
                probs.append(f"appended value is not Parameter(...): {a!r}")
                continue
            nm = a.get("name")
            if not sym_is(nm, f"{elemp}.variable.name"):
                probs.append(f"name={nm!r} is not argument.variable.name")
            idv = a.get("id")
            if not (isinstance(idv, StrT) and idv.parts and idv.parts[0] == Sym("function_id") and idv.parts[-1] == nm
                    and "".join(p for p in idv.parts if isinstance(p, str)) == "/"):
                probs.append(f"id={idv!r} is not f'{{function_id}}/{{name}}'")
            ab = a.get("assigned_by")
            if not (isinstance(ab, App) and ab.func == "get_argument_kind" and ab.args and ab.args[0] == elem):
                probs.append(f"assigned_by={ab!r} is not get_argument_kind(argument)")
        if probs:
            col.bad("C06.ONE-PER-PARAM", f"{key0}::fields", repo.loc(VISITOR, node), "; ".join(dict.fromkeys(probs)),
                    "Parameter fields do not come from the argument being visited: " + "; ".join(list(dict.fromkeys(probs))[:2]))
        else:
            col.ok("C06.ONE-PER-PARAM", f"{key0}::fields", repo.loc(VISITOR, node),
                   f"{len(appended)} appended Parameter objects: name=argument.variable.name, id=function_id/name, assigned_by=get_argument_kind(argument)")
        # a literal default also gives the parameter its type when there is no hint; whether it does must not depend on the documentation: a parameter
        # that reaches enter_funcdef without a code type is overwritten (type, optionality *and default*) with what the docstring says
        infer = [x for x in ast.walk(fi.node) if isinstance(x, ast.Assign) and isinstance(x.value, ast.Call) and getattr(x.value.func, "id", "") == "mypy_expression_to_sds_type"
                 and x.value.args and ast.unparse(x.value.args[0]) == "initializer"]
        doc_names = {t.id for x in ast.walk(fi.node) if isinstance(x, ast.Assign) and "docstring_parser" in ast.unparse(x.value) for t in x.targets if isinstance(t, ast.Name)} | {"docstring"}
        # ... and everything computed from it
        grew = True
        while grew:
            grew = False
            for x in ast.walk(fi.node):
                if isinstance(x, (ast.Assign, ast.AnnAssign)) and x.value is not None and {n.id for n in ast.walk(x.value) if isinstance(n, ast.Name)} & doc_names:
                    for t in (x.targets if isinstance(x, ast.Assign) else [x.target]):
                        for n in ast.walk(t):
                            if isinstance(n, ast.Name) and n.id not in doc_names and n.id != "arguments":
                                doc_names.add(n.id)
                                grew = True
        probs_d = []
        for x in infer:
            cur, prev = repo.parent(x), x
            while cur is not None and cur is not fi.node:
                if isinstance(cur, ast.If) and any(prev is b for b in cur.body):
                    used = {n.id for n in ast.walk(cur.test) if isinstance(n, ast.Name)} & doc_names
                    if used:
                        probs_d.append(f"line {cur.lineno}: `{ast.unparse(cur.test)[:70]}` reads {sorted(used)}")
                prev, cur = cur, repo.parent(cur)
        keyd = f"{key0}::type-from-default-independent-of-docstring"
        if infer and not probs_d:
            col.ok("C06.ONE-PER-PARAM", keyd, repo.loc(VISITOR, infer[0]), "the type of an un-annotated parameter is inferred from its literal default whatever the docstring says")
        else:
            col.bad("C06.ONE-PER-PARAM", keyd, repo.loc(VISITOR, infer[0] if infer else fi.node), "; ".join(probs_d) or "inference from the default not found",
                    "whether an un-annotated parameter gets its type from its literal default depends on its documentation: a documented parameter (`x : float` for `def f(x=0.5)`) then has no code type, and "
                    "enter_funcdef replaces its default by the docstring's text (`'0.5'`, `'True'`, `\"'auto'\"` in the API JSON; `= True`, `= 'auto'` in the stub)")
        # order: the function returns the accumulator itself (no sort / reverse / filter after the loop)
        okret = all(isinstance(o.value, ListV) and o.value.open for o in rets if o.fact(f"loop@{node.lineno}:iter") is not False) and rets
        post_mut = []
        for o in rets:
            for e in o.effects:
                if e.kind == "mutate" and e.target.split(".")[0] in acc_names and not e.target.endswith(".append"):
                    post_mut.append(repr(e))
        if okret and not post_mut:
            col.ok("C06.ONE-PER-PARAM", f"{key0}::order", repo.loc(VISITOR, rets[0].node), "returns the append-only accumulator (source order)")
        else:
            col.bad("C06.ONE-PER-PARAM", f"{key0}::order", repo.loc(VISITOR, fi.node), f"returns {[repr(o.value)[:80] for o in rets]} mut={post_mut}",
                    "the parameter list is reordered or rebuilt after the loop")
        # an argument whose kind is optional but whose default expression is not in the tree (functions generated by mypy plugins:
        # the __init__ of a dataclass, of a NamedTuple ...) is still optional
        gen_arg = Obj("Argument", (("initializer", Const(None)), ("kind", EnumM("ArgKind", "ARG_OPT")), ("pos_only", Const(False)), ("type_annotation", Sym("A.type_annotation")),
                                   ("variable", Obj("Var", (("name", Sym("A.name")), ("type", Sym("A.type", "Instance")), ("is_self", Const(False)), ("is_cls", Const(False)))))))
        opt_vals = set()
        for o in run_body(it, node, entry.clone(), gen_arg):
            for e in new_effects(o, entry):
                if e.kind == "mutate" and e.target.endswith(".append") and e.args and isinstance(e.args[0], Obj) and e.args[0].cls == "Parameter":
                    opt_vals.add(repr(e.args[0].get("is_optional")))
        key = f"{key0}::is_optional::optional-kind-without-initializer"
        if opt_vals == {"True"}:
            col.ok("C06.ONE-PER-PARAM", key, repo.loc(VISITOR, node), "an argument of kind ARG_OPT without default expression is optional")
        else:
            col.bad("C06.ONE-PER-PARAM", key, repo.loc(VISITOR, node), f"is_optional = {sorted(opt_vals)} for kind ARG_OPT, initializer None",
                    "an argument that mypy marks optional (kind ARG_OPT) but whose default expression is not part of the tree - the fields of a dataclass with defaults in the generated "
                    "__init__ - is recorded as required: `retries: int = 3` becomes the required constructor parameter `retries: Int`")
        # is_optional truth table: value is not None or default is None
        probs = []
        for a in appended:
            if isinstance(a, Obj):
                dv, io = a.get("default_value"), a.get("is_optional")
                # is_optional is a Const on each path; default_value/is_none come from the helper's result
                pass
        # is_optional expression: evaluate `default_value is not None or default_is_none` symbolic: check by effects
        tt = []
        call = [n for n in ast.walk(node) if isinstance(n, ast.Call) and isinstance(n.func, ast.Name) and n.func.id == "Parameter"]
        for c in call:
            for kw in c.keywords:
                if kw.arg == "is_optional":
                    for dv in (Const(None), Const(3), Const("\"s\""), Obj("UnknownValue", ())):
                        for isn in (True, False):
                            names = sorted({x.id for x in ast.walk(kw.value) if isinstance(x, ast.Name)})
                            if len(names) != 2:
                                probs.append(f"is_optional expression uses {names}")
                                continue
                            # the variable that holds the tuple's first/second element
                            unpack = None
                            for x in ast.walk(node):
                                if isinstance(x, ast.Assign) and isinstance(x.targets[0], ast.Tuple) and isinstance(x.value, ast.Call) \
                                        and "default_value" in ast.unparse(x.value.func):
                                    unpack = [t.id for t in x.targets[0].elts if isinstance(t, ast.Name)]
                            if not unpack or set(unpack) != set(names):
                                probs.append("is_optional is not computed from the (default_value, default_is_none) pair")
                                continue
                            env = {unpack[0]: dv, unpack[1]: Const(isn)}
                            rs = it.cond(kw.value, State(env))
                            got = {t for t, _ in rs}
                            want = (dv != Const(None)) or isn
                            tt.append((repr(dv), isn, got, want))
                            if got != {want}:
                                probs.append(f"is_optional({dv!r}, is_none={isn}) = {got}, reference {want}")
        if probs or not tt:
            col.bad("C06.ONE-PER-PARAM", f"{key0}::is_optional", repo.loc(VISITOR, node), "; ".join(probs) or "no is_optional= keyword found",
                    "is_optional is not 'default value present or default is None': " + ("; ".join(probs[:2]) or "keyword missing"))
        else:
            col.ok("C06.ONE-PER-PARAM", f"{key0}::is_optional", repo.loc(VISITOR, node), f"truth table over (default, is_none): {tt}")

    # ------------------------------------------------------------------ generator side
    gfi = repo.function(GEN, f"{GENCLS}._create_parameter_string")
    col.touched(gfi)
    git = ctx.interp(gfi)
    base_args = {"self": Sym("self"), "parameters": Sym("parameters"), "indentations": Sym("ind")}
    git.run_function(gfi, {**base_args, "is_instance_method": Const(False)}, gen_state())
    gloops = find_loops(git, gfi, lambda v: sym_is(v, "parameters"))
    gkey = f"{GEN}::{GENCLS}._create_parameter_string"
    if len(gloops) != 1:
        col.bad("C06.EMIT-ONE-PER-PARAM", f"{gkey}::loop", repo.loc(GEN, gfi.node), f"{len(gloops)} loops over parameters",
                "parameters are not rendered by exactly one loop")
        return
    gnode, _, gelem, gentry = gloops[0]

    def body_for(p: Obj) -> list[Outcome]:
        e = gentry.clone()
        for _, v in p.fields:
            if isinstance(v, Sym) and v.path.endswith(".type"):
                e.neq[repr(v)] = {Const(None)}
        return run_body(git, gnode, e, p)

    def appends(o: Outcome) -> list:
        return [e for e in new_effects(o, gentry) if e.kind == "mutate" and e.target.endswith(".append")]

    # one append per iteration, whatever the parameter looks like (type present / absent)
    for tname, tval in (("typed", Sym("P.type")), ("untyped", Const(None))):
        bad = []
        n = 0
        for kind in KINDS:
            for opt in (True, False):
                p = param_obj("P", type=tval, assigned_by=EnumM(PA, kind), is_optional=Const(opt),
                              default_value=Sym("P.default_value") if opt else Const(None))
                for o in body_for(p):
                    n += 1
                    ap = appends(o)
                    if o.kind != "fall" or len(ap) != 1:
                        bad.append((kind, opt, o.kind, len(ap)))
                    elif not mentions(ap[0].args[0], "P.name"):
                        bad.append((kind, opt, "entry lacks the parameter's name"))
        k = f"{gkey}::one-append::{tname}"
        if bad:
            col.bad("C06.EMIT-ONE-PER-PARAM", k, repo.loc(GEN, gnode), f"{bad[:4]}",
                    f"a path through the parameter loop (with is_instance_method=False) does not append exactly one entry "
                    f"carrying the parameter's name: {bad[0]}")
        else:
            col.ok("C06.EMIT-ONE-PER-PARAM", k, repo.loc(GEN, gnode), f"{n} paths over 6 passing kinds x optionality: one append each")
    # order preserved: the joined list is the accumulator, no sort
    outs = git.run_function(gfi, {**base_args, "is_instance_method": Const(False)}, gen_state())
    srt = [repr(e) for o in outs for e in o.effects if e.kind == "mutate" and e.target.endswith((".sort", ".reverse", ".insert"))]
    reps = [x for o in outs if o.kind == "return" for x in walk_av(o.value) if isinstance(x, Rep)]
    if srt or not reps or any(any(isinstance(y, App) and y.func in ("sorted", "reversed", "set") for y in walk_av(r.sep)) for r in reps):
        col.bad("C06.EMIT-ONE-PER-PARAM", f"{gkey}::order", repo.loc(GEN, gfi.node), f"sort effects {srt}; repetitions {len(reps)}",
                "rendered parameters are reordered or not joined from the per-parameter entries")
    else:
        col.ok("C06.EMIT-ONE-PER-PARAM", f"{gkey}::order", repo.loc(GEN, gfi.node), "result joins the append-only list in iteration order")

    # ------------------------------------------------------------------ RECEIVER
    plist = ListV(tuple(param_obj(f"P{i}", type=Const(None)) for i in (1, 2, 3)))
    for flag in (True, False):
        outs = git.run_function(gfi, {**base_args, "parameters": plist, "is_instance_method": Const(flag)}, gen_state())
        present = set()
        order_ok = True
        for o in outs:
            txt = render(o.value)
            pos = [txt.find(f"<P{i}.name>") for i in (1, 2, 3)]
            present.add(tuple(p >= 0 for p in pos))
            shown = [p for p in pos if p >= 0]
            if shown != sorted(shown):
                order_ok = False
        want = {(not flag, True, True)}
        k = f"{gkey}::receiver::is_instance_method={flag}"
        if present == want and order_ok:
            col.ok("C06.RECEIVER", k, repo.loc(GEN, gnode), f"3-parameter list -> present {sorted(present)}, in order")
        else:
            col.bad("C06.RECEIVER", k, repo.loc(GEN, gnode), f"present={sorted(present)} order_ok={order_ok}, reference {sorted(want)}",
                    f"with is_instance_method={flag} the rendered list shows parameters {sorted(present)} of (P1,P2,P3); "
                    f"expected {sorted(want)} in source order")
    # flag passed by the callers
    ffi = repo.function(GEN, f"{GENCLS}._create_function_string")
    col.touched(ffi)
    for is_method in (True, False):
        for is_static in (True, False):
            for is_cm in (True, False):
                if is_static and is_cm:
                    continue
                fobj = Obj("Function", (("is_static", Const(is_static)), ("is_class_method", Const(is_cm)),
                                        ("parameters", Sym("F.parameters")), ("type_var_types", Const(None)),
                                        ("docstring", Sym("F.docstring")), ("name", Sym("F.name")), ("results", Sym("F.results"))))
                fit = ctx.interp(ffi)
                outs = fit.run_function(ffi, {"self": Sym("self"), "function": fobj, "indentations": Sym("ind"),
                                              "is_method": Const(is_method), "in_reexport_module": Const(True)}, gen_state())
                flags = set()
                for o in outs:
                    for e in o.effects:
                        if e.kind == "call" and e.target == "self._create_parameter_string":
                            v = dict(e.kwargs).get("is_instance_method", e.args[2] if len(e.args) > 2 else Const(False))
                            flags.add(v)
                            if not (dict(e.kwargs).get("parameters", e.args[0] if e.args else None) == Sym("F.parameters")):
                                flags.add(Const("wrong parameter list"))
                want = Const(is_method and not is_static)
                k = f"{GEN}::{GENCLS}._create_function_string::flag::method={is_method},static={is_static},classmethod={is_cm}"
                if flags == {want}:
                    col.ok("C06.RECEIVER", k, repo.loc(GEN, ffi.node), f"is_instance_method={want!r}")
                else:
                    col.bad("C06.RECEIVER", k, repo.loc(GEN, ffi.node), f"passes {flags}, reference {want!r}",
                            f"_create_function_string passes is_instance_method={sorted(map(repr, flags))} for is_method={is_method}, "
                            f"is_static={is_static}, is_class_method={is_cm}; the receiver is removed iff method and not static ({want!r})")
    cfi = repo.function(GEN, f"{GENCLS}._create_class_string")
    col.touched(cfi)
    found = []
    for n in ast.walk(cfi.node):
        if isinstance(n, ast.Call) and isinstance(n.func, ast.Attribute) and n.func.attr == "_create_parameter_string":
            kw = {k.arg: k.value for k in n.keywords}
            v = kw.get("is_instance_method", n.args[2] if len(n.args) > 2 else None)
            src = kw.get("parameters", n.args[0] if n.args else None)
            found.append((ast.unparse(v) if v is not None else "False", ast.unparse(src) if src is not None else "?"))
    k = f"{GEN}::{GENCLS}._create_class_string::flag::constructor"
    if found and all(f[0] == "True" and f[1].endswith("constructor.parameters") for f in found):
        col.ok("C06.RECEIVER", k, repo.loc(GEN, cfi.node), f"constructor parameters rendered with is_instance_method=True: {found}")
    else:
        col.bad("C06.RECEIVER", k, repo.loc(GEN, cfi.node), f"{found}", "the constructor's parameter list is not rendered with the receiver removed")

    # ------------------------------------------------------------------ DEFAULT-RENDER
    defaults = [("str", Const('"abc"'), '"abc"', None), ("True", Const(True), "true", None), ("False", Const(False), "false", None),
                ("None", Const(None), "null", None), ("UnknownValue", Obj("UnknownValue", ()), "unknown", "unknown value"),
                ("int", Const(3), "3", None), ("float", Const(1.5), "1.5", None), ("negint", Const(-7), "-7", None)]
    for dname, dval, want, marker in defaults:
        for kind in KINDS[1:]:
            for opt in (True, False):
                p = param_obj("P", assigned_by=EnumM(PA, kind), is_optional=Const(opt), default_value=dval)
                rendered = set()
                markers_ok = True
                for o in body_for(p):
                    ap = appends(o)
                    if len(ap) != 1:
                        continue
                    txt = render(ap[0].args[0])
                    m = re.search(r" = (.*)$", txt, re.S)
                    rendered.add(m.group(1) if m else None)
                    added = {e.args[0].v for e in new_effects(o, gentry) if e.kind == "mutate" and e.target.endswith("_current_todo_msgs.add")
                             and isinstance(e.args[0], Const)}
                    if marker and opt and marker not in added:
                        markers_ok = False
                exp = {want} if opt else {None}
                k = f"{gkey}::default::{dname},{kind},optional={opt}"
                if rendered == exp and markers_ok:
                    col.ok("C06.DEFAULT-RENDER", k, repo.loc(GEN, gnode), f"default {dval!r} -> {sorted(map(str, rendered))}")
                else:
                    col.bad("C06.DEFAULT-RENDER", k, repo.loc(GEN, gnode), f"rendered {rendered}, reference {exp}, marker ok={markers_ok}",
                            f"default value {dval!r} of an {'optional' if opt else 'required'} {kind} parameter is rendered as "
                            f"{sorted(map(str, rendered))}; expected {sorted(map(str, exp))}")
    # *args / **kwargs empty-container defaults
    for kind, dv, want in (("POSITIONAL_VARARG", Const("()"), "[]"), ("NAMED_VARARG", Const("{}"), "{}")):
        p = param_obj("P", assigned_by=EnumM(PA, kind), is_optional=Const(True), default_value=dv)
        rendered = set()
        for o in body_for(p):
            ap = appends(o)
            if len(ap) == 1:
                m = re.search(r" = (.*)$", render(ap[0].args[0]), re.S)
                rendered.add(m.group(1) if m else None)
        k = f"{gkey}::default::{kind},{dv.v}"
        if rendered == {want}:
            col.ok("C06.DEFAULT-RENDER", k, repo.loc(GEN, gnode), f"{dv.v} -> {want}")
        else:
            col.bad("C06.DEFAULT-RENDER", k, repo.loc(GEN, gnode), f"rendered {rendered}", f"{kind} default {dv.v} rendered as {rendered}, expected {want}")

    # ------------------------------------------------------------------ LITERAL-VALUE
    vfi = repo.function(VISITOR, "MyPyAstVisitor._get_parameter_type_and_default_value")
    col.touched(vfi)
    vit = ctx.interp(vfi, inline={"mypy_expression_to_python_value"})
    exprs = [c for c in ctx.lib.subclasses("Expression") if c not in ("Expression", "RefExpr", "TypeVarLikeExpr", "FakeExpression")]
    cases: list[tuple[str, AV, object]] = []
    for c in exprs:
        if c == "NameExpr":
            for nm, want in (("None", (Const(None), True)), ("True", (Const(True), False)), ("False", (Const(False), False)),
                             ("other", (Const(None), False))):
                cases.append((f"NameExpr:{nm}", Obj("NameExpr", (("name", Const(nm)),)), want))
        elif c == "IntExpr":
            cases.append((c, Obj(c, (("value", Sym("v", "int")),)), (Sym("v", "int"), False)))
        elif c == "FloatExpr":
            cases.append((c, Obj(c, (("value", Sym("v", "float")),)), (Sym("v", "float"), False)))
        elif c == "StrExpr":
            cases.append((c, Obj(c, (("value", Sym("v", "str")),)), ("quoted", False)))
        elif c == "UnaryExpr":
            cases.append((c, Obj(c, (("expr", Sym("operand")), ("op", Sym("op")))), "unary"))
        else:
            cases.append((c, Obj(c, ()), (Const(None), False)))
    for name, init, want in cases:
        outs = vit.run_function(vfi, {"self": Sym("self"), "initializer": init, "function_id": Sym("function_id")})
        k = f"{VISITOR}::MyPyAstVisitor._get_parameter_type_and_default_value::{name}"
        raises = [o for o in outs if o.kind == "raise"]
        vals = [o.value for o in outs if o.kind == "return"]
        ok = not raises and vals
        detail = ""
        if want == "unary":
            # recursion on the operand; results: signed number (int/float of f"{op}{value}") or UnknownValue
            for o in outs:
                if o.kind != "return":
                    continue
                v = o.value
                if not (isinstance(v, ListV) and len(v.items) == 2):
                    ok = False
                    continue
                first = v.items[0]
                if isinstance(first, Obj) and first.cls == "UnknownValue":
                    continue
                conv = None
                for fk, fv in o.facts:
                    if fv and fk.startswith("isinstance(") and fk.endswith(",int)"):
                        conv = "int"
                    if fv and fk.startswith("isinstance(") and fk.endswith(",float)"):
                        conv = "float"
                # the signed number is int/float (matching the operand's own class) of exactly f"{op}{value}"
                if isinstance(first, App) and first.func == conv and len(first.args) == 1 and isinstance(first.args[0], StrT) \
                        and len(first.args[0].parts) == 2 and first.args[0].parts[0] == Sym("op") \
                        and not isinstance(first.args[0].parts[1], str):
                    continue
                ok = False
                detail = f"signed {conv} default is computed as {first!r}, not {conv}(f'{{op}}{{value}}')"
            rec = [e for o in outs for e in o.effects if e.kind == "call" and e.target.endswith("_get_parameter_type_and_default_value")]
            if not rec or not all(e.args and e.args[0] == Sym("operand") for e in rec):
                ok = False
                detail = "no recursion on the operand"
        elif want[0] == "quoted":
            for v in vals:
                if not (isinstance(v, ListV) and len(v.items) == 2 and render(v.items[0]) == '"{<v:str>}"' and v.items[1] == Const(False)):
                    ok = False
                    detail = f"string default -> {v!r}"
        else:
            # a default that is no literal is not reproduced: 'no default' (today) and UnknownValue (what C20.DEFAULT-SOURCE asks for) both keep literal defaults exact
            unreproduced = name not in ("NameExpr:None", "NameExpr:True", "NameExpr:False", "IntExpr", "FloatExpr")
            for o in outs:
                if o.kind != "return":
                    continue
                v = o.value
                is_unknown = isinstance(v, ListV) and len(v.items) == 2 and isinstance(v.items[0], Obj) and v.items[0].cls == "UnknownValue" and v.items[1] == Const(False)
                if unreproduced and is_unknown:
                    continue
                # a float literal that overflows is inf: no value JSON or Safe-DS can hold; UnknownValue on exactly the non-finite path is the honest answer
                if name == "FloatExpr" and is_unknown and any(("isfinite" in k and fv is False) or (("isinf" in k or "isnan" in k) and fv is True) for k, fv in o.facts):
                    continue
                if not (isinstance(v, ListV) and len(v.items) == 2 and v.items[0] == want[0] and v.items[1] == Const(want[1])):
                    ok = False
                    detail = f"-> {v!r}, reference {want}"
        if raises:
            detail = f"raises {raises[0].exc}"
        if ok:
            col.ok("C06.LITERAL-VALUE", k, repo.loc(VISITOR, vfi.node), f"{name} -> {[repr(v) for v in vals][:2]}",
                   nontrivial=name.split(":")[0] in ("NameExpr", "IntExpr", "FloatExpr", "StrExpr", "UnaryExpr", "CallExpr"))
        else:
            col.bad("C06.LITERAL-VALUE", k, repo.loc(VISITOR, (raises[0].node if raises else vfi.node)), detail,
                    f"initializer class {name}: {detail}")

    # ------------------------------------------------------------------ SERIALISE
    sfi = repo.function(API_MOD, "Parameter.to_dict")
    col.touched(sfi)
    outs = ctx.interp(sfi).run_function(sfi, {"self": Sym("self")})
    for keyname, want_path in (("name", "self.name"), ("is_optional", "self.is_optional"), ("default_value", "self.default_value"),
                               ("assigned_by", "self.assigned_by"), ("id", "self.id"), ("type", "self.type")):
        vals = set()
        for o in outs:
            if isinstance(o.value, DictV):
                for kk, vv in o.value.items:
                    if kk == Const(keyname):
                        vals.add(vv)
        k = f"{API_MOD}::Parameter.to_dict::{keyname}"
        good = bool(vals) and any(mentions(v, want_path) for v in vals) and all(
            mentions(v, want_path) or (keyname == "default_value" and v == Const("UnknownValue"))
            or (keyname == "type" and v == Const(None)) for v in vals)
        if keyname in ("name", "is_optional", "id"):
            good = vals == {Sym(want_path)}
        if keyname == "assigned_by":
            good = vals == {Sym("self.assigned_by.name")}
        if good:
            col.ok("C06.SERIALISE", k, repo.loc(API_MOD, sfi.node), f"{keyname}: {sorted(map(repr, vals))}")
        else:
            col.bad("C06.SERIALISE", k, repo.loc(API_MOD, sfi.node), f"{keyname}: {sorted(map(repr, vals))}",
                    f"Parameter.to_dict writes {keyname!r} from {sorted(map(repr, vals))}, not from {want_path}")
    # the docstring may give a parameter its type (no hint, or the DOCSTRING preference); whether it is optional and what its default is stay what
    # the signature says
    efi2 = repo.function(VISITOR, "MyPyAstVisitor.enter_funcdef")
    col.touched(efi2)
    overrides = [n for n in ast.walk(efi2.node) if isinstance(n, ast.Call) and ast.unparse(n.func) in ("dataclasses.replace", "replace") and n.args and "parameter" in ast.unparse(n.args[0])]
    if not overrides:
        raise AnalysisError("enter_funcdef: the docstring override of a parameter (dataclasses.replace(parameter, ...)) was not found")
    for n in overrides:
        taken = sorted(k.arg for k in n.keywords if k.arg in ("is_optional", "default_value", "assigned_by", "name") and "docstring" in ast.unparse(k.value))
        key = f"{VISITOR}::MyPyAstVisitor.enter_funcdef::docstring-override-keeps-signature"
        (col.ok if not taken else col.bad)("C06.ONE-PER-PARAM", key, repo.loc(VISITOR, n), "the docstring override replaces the type only" if not taken else f"the override also sets {taken} from the docstring entry",
                                           *([] if not taken else [f"when a parameter takes its type from the docstring (no hint, or `-tsp docstring`) {taken} are replaced by the docstring entry's text as well: "
                                                                   "`def fit(solver: str = \"adam\")` documented `solver : str, default='adam'` is emitted `solver: String = 'adam'` (source text, no Safe-DS literal), "
                                                                   "`def fit(hidden=(100,))` documented `hidden : tuple, default=(100,)` is emitted `hidden: Tuple<> = (100,)`, and an un-annotated required parameter documented `default=5` becomes optional"]))
    from .shared import share
    share(ctx, col, "C13", {"C13.CACHE"}, "a parameter without an annotation takes its type, optionality and default from its docstring entry: the entry has to come from this function's own docstring, "
          "never from the docstring cached for the function analysed before")
    col.assume("numeric defaults are rendered by str() of an int/float (text equality with Python's repr is not decided)")
    col.assume("docstring-provided defaults under the DOCSTRING preference are not decided")
