"""C07 — results mirror the return annotation, or soundly cover inferred returns."""
from __future__ import annotations

import ast
import re

from ..core.absint import AV, Alt, App, Const, DictV, EnumM, ListV, Obj, Outcome, Rep, State, StrT, Sym, walk_av
from ..core.ctx import GEN, HELPERS, VISITOR, Ctx
from ..core.report import Collector
from ..core.source import AnalysisError
from .common import GENCLS, apps, find_loops, fmt_facts, gen_state, mentions, new_effects, render, run_body, sym_is

NONE_T = Obj("sds.NamedType", (("name", Const("None")), ("qname", Const("builtins.None"))))


def check(ctx: Ctx, col: Collector, tier: str) -> None:
    repo = ctx.repo
    lib = ctx.lib
    col.spec("C07.RETURN-FINDER", "inferred result types cover every return statement: the search descends every block of "
             "every compound statement", "dispatch totality against mypy's statement classes and their Block fields", floor=8)
    col.spec("C07.INFER-TABLE", "each literal return expression maps to its type", "specialisation of "
             "mypy_expression_to_sds_type over expression classes", floor=8)
    col.spec("C07.INFER-COLLECT", "every inferred type of every return statement is collected (none is dropped or merged away)",
             "per-iteration path analysis of the loop over return statements", floor=2)
    col.spec("C07.NONE-SUPPRESS", "'-> None' has no results; the suppression applies only when None is the whole result",
             "specialisation of _create_result_string over result-list shapes; _parse_results paths", floor=7)
    col.spec("C07.TUPLE-SPLIT", "annotated tuple: one result per element in order; otherwise exactly one result",
             "abstract interpretation of _parse_results", floor=3)
    col.spec("C07.COROUTINE", "the results of an `async def` mirror its annotation, not the Coroutine type mypy wraps around it", "library fact read from mypy's semanal.py + use of is_coroutine in _parse_results", floor=1)
    col.spec("C07.RESULT-NAMES", "results take the docstring's names, otherwise result_1, result_2, ... in order",
             "provenance of name=/id= at every Result(...) construction site", floor=6)
    col.spec("C07.NO-RESULT", "no annotation and nothing inferable -> no results", "path analysis of _parse_results", floor=1)

    # ------------------------------------------------------------------ RETURN-FINDER
    ffi = repo.function(HELPERS, "find_return_stmts_recursive")
    col.touched(ffi)
    pname = ffi.params()[0]
    stmt_classes = [c for c in lib.subclasses("Statement") if c not in ("Statement", "ImportBase")]
    for k in stmt_classes:
        blocks = lib.block_fields(k)
        if k == "Block":
            blocks = {"body": "list[Statement]"}
        if not blocks and k != "ReturnStmt":
            continue
        if k in ("FuncDef", "ClassDef", "Decorator", "OverloadedFuncDef"):
            continue  # nested definitions: their returns belong to another function
        it = ctx.interp(ffi)
        outs = it.run_function(ffi, {pname: ListV((Sym("stmt", k),))})
        key = f"{HELPERS}::find_return_stmts_recursive::{k}"
        if k == "ReturnStmt":
            good = all(o.kind == "return" and isinstance(o.value, ListV) and Sym("stmt", k) in o.value.items for o in outs) and outs
            (col.ok if good else col.bad)("C07.RETURN-FINDER", key, repo.loc(HELPERS, ffi.node), f"{[repr(o.value) for o in outs]}",
                                          *([] if good else ["a ReturnStmt is not added to the result list"]))
            continue
        probs = []
        for o in outs:
            if o.kind != "return":
                probs.append(f"{o.kind} {o.exc}")
                continue
            descended = set()
            for e in o.effects:
                if e.kind == "call" and e.target.endswith("find_return_stmts_recursive") and e.args:
                    for f in blocks:
                        if mentions(e.args[0], f"stmt.{f}"):
                            descended.add(f)
            # the recursion result must flow into the returned list
            for f in blocks:
                if f in descended:
                    continue
                # skipping is accepted only when the field was tested and found empty / None on this path
                if o.fact(f"truthy:<stmt.{f}>") is False:
                    continue
                probs.append(f"block field {f!r} ({blocks[f]}) is not searched" + (f" under {fmt_facts(o.facts)}" if o.facts else ""))
            used = apps(o.value, "find_return_stmts_recursive") + [x for x in walk_av(o.value) if isinstance(x, App) and x.func.endswith("find_return_stmts_recursive")]
            if descended and not used:
                probs.append("results of the nested search are discarded")
            # ... for every searched field: what the search of one block finds is not replaced by what another block holds
            for f in sorted(descended):
                if not any(any(mentions(a, f"stmt.{f}") for a in u.args) for u in used):
                    probs.append(f"the returns found in block field {f!r} do not reach the result" + (f" under {fmt_facts(o.facts)}" if o.facts else ""))
        if probs:
            col.bad("C07.RETURN-FINDER", key, repo.loc(HELPERS, ffi.node), "; ".join(dict.fromkeys(probs)),
                    f"{k}: {list(dict.fromkeys(probs))[0]} - a `return` there is invisible to return-type inference, so the inferred "
                    f"result type does not cover it")
        else:
            col.ok("C07.RETURN-FINDER", key, repo.loc(HELPERS, ffi.node), f"{k}: block fields {sorted(blocks)} searched on every path")

    # ------------------------------------------------------------------ INFER-TABLE
    efi = repo.function(HELPERS, "mypy_expression_to_sds_type")
    col.touched(efi)
    ep = efi.params()[0]
    table = {"IntExpr": ("int", "builtins.int"), "FloatExpr": ("float", "builtins.float"), "StrExpr": ("str", "builtins.str")}
    for k, (nm, qn) in table.items():
        outs = ctx.interp(efi).run_function(efi, {ep: Sym("expr", k)})
        key = f"{HELPERS}::mypy_expression_to_sds_type::{k}"
        good = len(outs) == 1 and outs[0].kind == "return" and isinstance(outs[0].value, Obj) and outs[0].value.cls == "sds.NamedType" \
            and outs[0].value.get("name") == Const(nm) and outs[0].value.get("qname") == Const(qn)
        (col.ok if good else col.bad)("C07.INFER-TABLE", key, repo.loc(HELPERS, efi.node), f"{[(o.kind, repr(o.value)) for o in outs]}",
                                      *([] if good else [f"a returned {k} literal is not inferred as {nm}"]))
    for nm, want in (("True", ("bool", Const("builtins.bool"))), ("False", ("bool", Const("builtins.bool"))), ("None", ("None", Sym("expr.fullname"))),
                     ("x", ("x", Sym("expr.fullname")))):
        st = State({})
        st.eq[repr(Sym("expr.name"))] = Const(nm)
        # a name mypy could bind has a non-empty fullname (an unbound one cannot be named as a type: C01.IMPORT-SOURCE)
        # ... but the constants True / False / None are keywords: in a block mypy does not analyse (`if sys.platform == "win32": return None`)
        # they stay unbound and are still what the function returns there
        if nm == "x":
            st.facts[f"truthy:{Sym('expr.fullname')!r}"] = True
            st.neq[repr(Sym("expr.fullname"))] = {Const("")}
        outs = ctx.interp(efi).run_function(efi, {ep: Sym("expr", "NameExpr")}, st)
        key = f"{HELPERS}::mypy_expression_to_sds_type::NameExpr:{nm}"
        def named_ok(o):
            return o.kind == "return" and isinstance(o.value, Obj) and o.value.cls == "sds.NamedType" and o.value.get("name") == Const(want[0]) and o.value.get("qname") == want[1]
        if nm == "x":
            # a variable's name is not its type (UnknownType); a class reference keeps its name
            good = bool(outs) and all(
                (named_ok(o) and not any(k.startswith("isinstance(<expr.node>") and v for k, v in o.facts))
                or (o.kind == "return" and isinstance(o.value, Obj) and o.value.cls == "sds.UnknownType" and any(k.startswith("isinstance(<expr.node>") and "Var" in k and v for k, v in o.facts))
                for o in outs) and any(named_ok(o) for o in outs) and any(isinstance(o.value, Obj) and o.value.cls == "sds.UnknownType" for o in outs)
        elif nm == "None":
            good = bool(outs) and all(o.kind == "return" and isinstance(o.value, Obj) and o.value.cls == "sds.NamedType" and o.value.get("name") == Const("None")
                                      and o.value.get("qname") in (Const("builtins.None"), Sym("expr.fullname")) for o in outs)
        else:
            good = len(outs) == 1 and named_ok(outs[0])
        (col.ok if good else col.bad)("C07.INFER-TABLE", key, repo.loc(HELPERS, efi.node), f"{[(o.kind, repr(o.value)) for o in outs]}",
                                      *([] if good else [(f"returned name {nm} is not inferred as {want[0]}" + (" on every path: in a block mypy leaves unanalysed (`if sys.platform == \"win32\": return None`) the name has no "
                                                                                                             "fullname, the literal becomes an unknown type and is dropped - `Int` instead of `Int?`, depending on the platform the tool runs on" if nm == "None" else "")) if nm != "x" else
                                                         "a returned variable (`x = a; return x`) is inferred as a class named like the variable instead of an unknown type"]))
    outs = ctx.interp(efi).run_function(efi, {ep: Sym("expr", "TupleExpr")})
    key = f"{HELPERS}::mypy_expression_to_sds_type::TupleExpr"
    good = len(outs) == 1 and isinstance(outs[0].value, Obj) and outs[0].value.cls == "sds.TupleType" and any(
        a.args and mentions(a.args[0], "expr.items") for a in apps(outs[0].value, "mypy_expression_to_sds_type"))
    (col.ok if good else col.bad)("C07.INFER-TABLE", key, repo.loc(HELPERS, efi.node), f"{[(o.kind, repr(o.value)) for o in outs]}",
                                  *([] if good else ["a returned tuple is not inferred element-wise"]))
    outs = ctx.interp(efi).run_function(efi, {ep: Sym("expr", "UnaryExpr")})
    key = f"{HELPERS}::mypy_expression_to_sds_type::UnaryExpr"
    good = len(outs) == 1 and isinstance(outs[0].value, App) and outs[0].value.func == "mypy_expression_to_sds_type" and outs[0].value.args == (Sym("expr.expr"),)
    (col.ok if good else col.bad)("C07.INFER-TABLE", key, repo.loc(HELPERS, efi.node), f"{[(o.kind, repr(o.value)) for o in outs]}",
                                  *([] if good else ["a signed literal is not inferred from its operand"]))

    # ------------------------------------------------------------------ INFER-COLLECT: what the collecting set identifies
    from ..core.ctx import TYPES_MOD
    tt = repo.module(TYPES_MOD).classes["TupleType"].methods.get("__eq__")
    if tt is None:
        raise AnalysisError("TupleType.__eq__ not found")
    col.touched(tt)
    eq_rets = [ast.unparse(n.value) for n in ast.walk(tt.node) if isinstance(n, ast.Return) and n.value is not None and "types" in ast.unparse(n.value)]
    unordered = [r for r in eq_rets if re.search(r"\b(Counter|frozenset|set|sorted)\(", r)]
    key = f"{TYPES_MOD}::TupleType.__eq__::element-order"
    if unordered or not eq_rets:
        col.bad("C07.INFER-COLLECT", key, repo.loc(TYPES_MOD, tt.node), f"TupleType.__eq__ returns `{(unordered or ['?'])[0][:80]}`",
                "inferred result types are collected in a set, and two tuple types whose elements are permutations of each other compare equal: `return 0, \"empty\"` and "
                "`return \"ok\", 1` yield the single result tuple (Int, String) - the second return statement is not covered")
    else:
        col.ok("C07.INFER-COLLECT", key, repo.loc(TYPES_MOD, tt.node), f"tuple types are compared element by element: {eq_rets[0][:80]}")

    # ------------------------------------------------------------------ INFER-COLLECT
    ifi = repo.function(VISITOR, "MyPyAstVisitor._infer_type_from_return_stmts")
    col.touched(ifi)
    iit = ctx.interp(ifi)
    iouts = iit.run_function(ifi, {"func_node": Sym("func_node")})
    rloops = find_loops(iit, ifi, lambda v: isinstance(v, App) and v.func == "find_return_stmts_recursive")
    key0 = f"{VISITOR}::MyPyAstVisitor._infer_type_from_return_stmts"
    if len(rloops) != 1:
        col.bad("C07.INFER-COLLECT", f"{key0}::loop", repo.loc(VISITOR, ifi.node), f"{len(rloops)} loops over the found return statements",
                "inference does not iterate the statements found by find_return_stmts_recursive(get_funcdef_definitions(func_node))")
    else:
        node, itv, elem, entry = rloops[0]
        # the searched statements are the function's own body
        src_ok = isinstance(itv, App) and itv.args and any(isinstance(x, Sym) and x.path == "func_node" for x in walk_av(itv.args[0]))
        (col.ok if src_ok else col.bad)("C07.INFER-COLLECT", f"{key0}::source", repo.loc(VISITOR, node), f"iterates {itv!r}",
                                        *([] if src_ok else ["the return statements searched are not those of the function's body"]))
        probs = []
        n = 0
        for cls in ("IntExpr", "TupleExpr", "NameExpr", "ConditionalExpr", "OpExpr"):
            e = entry.clone()
            ret = Obj("ReturnStmt", (("expr", Sym("rexpr", cls)),))
            for o in run_body(iit, node, e, ret):
                if o.kind == "raise":
                    continue
                eff = new_effects(o, entry)
                inferred = [x for x in eff if x.kind == "call" and x.target == "mypy_expression_to_sds_type"]
                adds = [x for x in eff if x.kind == "mutate" and x.target.endswith((".add", ".append"))]
                for inf in inferred:
                    n += 1
                    res = App("mypy_expression_to_sds_type", inf.args, inf.kwargs, inf.node.lineno)
                    accepted = any(k.startswith(f"isinstance({res!r},") and v for k, v in o.facts)
                    added = any(a.args and a.args[0] == res for a in adds)
                    if accepted and not added:
                        probs.append(f"type inferred at line {inf.node.lineno} is accepted but not added to the collection")
                others = [x for x in eff if x.kind in ("call", "store") and ("setdefault" in x.target or x.target.endswith("[]"))]
                if others:
                    probs.append(f"collection updated through {others[0].target} (keyed update can merge distinct types)")
        # every class of type the helper can return is accepted by the filter and collected
        iit2 = ctx.interp(ifi, inline={"mypy_expression_to_sds_type"})
        iit2.run_function(ifi, {"func_node": Sym("func_node")})
        rl2 = find_loops(iit2, ifi, lambda v: isinstance(v, App) and v.func == "find_return_stmts_recursive")
        if len(rl2) == 1:
            node2, _, _, entry2 = rl2[0]
            for cls, want in (("IntExpr", "sds.NamedType"), ("StrExpr", "sds.NamedType"), ("TupleExpr", "sds.TupleType")):
                ret = Obj("ReturnStmt", (("expr", Sym("rexpr", cls)),))
                for o in run_body(iit2, node2, entry2.clone(), ret):
                    if o.kind == "raise":
                        continue
                    adds = [x for x in new_effects(o, entry2) if x.kind == "mutate" and x.target.endswith((".add", ".append"))
                            and x.args and isinstance(x.args[0], Obj) and x.args[0].cls == want]
                    n += 1
                    if not adds:
                        probs.append(f"the {want.split('.')[1]} inferred for a returned {cls} is not added to the collection")
            # a conditional expression whose branch is again a conditional expression: every leaf is a value the function can return
            inner = Obj("ConditionalExpr", (("if_expr", Obj("StrExpr", (("value", Sym("s")),))), ("else_expr", Obj("FloatExpr", (("value", Sym("f")),)))))
            cond = Obj("ConditionalExpr", (("if_expr", Obj("IntExpr", (("value", Sym("i")),))), ("else_expr", inner)))
            leaves = set()
            for o in run_body(iit2, node2, entry2.clone(), Obj("ReturnStmt", (("expr", cond),))):
                if o.kind == "raise":
                    continue
                got = {x.args[0].get("name").v for x in new_effects(o, entry2) if x.kind == "mutate" and x.target.endswith((".add", ".append")) and x.args
                       and isinstance(x.args[0], Obj) and x.args[0].cls == "sds.NamedType" and isinstance(x.args[0].get("name"), Const)}
                leaves = leaves | got if not leaves else leaves & got if got else leaves
            keyn = f"{key0}::nested-conditional"
            if leaves >= {"int", "str", "float"}:
                col.ok("C07.INFER-COLLECT", keyn, repo.loc(VISITOR, node2), "the leaves of nested conditional expressions are all collected")
            else:
                col.bad("C07.INFER-COLLECT", keyn, repo.loc(VISITOR, node2), f"`return 1 if a else ('x' if b else 2.5)`: collected {sorted(leaves)}",
                        f"only the two branches of the outermost conditional expression are inferred: `return 1 if a else (\"x\" if b else 2.5)` collects {sorted(leaves)}, the inferred result type does not "
                        f"cover the values \"x\" and 2.5 the function can return")
        if probs or not n:
            col.bad("C07.INFER-COLLECT", f"{key0}::collect", repo.loc(VISITOR, node), f"{sorted(set(probs))[:3]}",
                    (sorted(set(probs)) or ["no inference call found in the loop"])[0])
        else:
            col.ok("C07.INFER-COLLECT", f"{key0}::collect", repo.loc(VISITOR, node), f"{n} inference sites: accepted types are added to the set")

    # ------------------------------------------------------------------ NONE-SUPPRESS (generator)
    rfi = repo.function(GEN, f"{GENCLS}._create_result_string")
    col.touched(rfi)
    TY = {"X": Obj("sds.NamedType", (("name", Const("int")), ("qname", Const("builtins.int")))),
          "Y": Obj("sds.NamedType", (("name", Const("str")), ("qname", Const("builtins.str"))))}
    X = lambda t: Obj("Result", (("type", TY[t]), ("name", Sym(f"{t}.name"))))  # noqa: E731
    N = Obj("Result", (("type", NONE_T), ("name", Sym("N.name"))))
    cases = [("[None]", (N,), "empty"), ("[None, X]", (N, X("X")), "empty"), ("[X]", (X("X"),), "one"), ("[X, Y]", (X("X"), X("Y")), "two"),
             ("[X, None]", (X("X"), N), "keeps X"), ("[]", (), "empty+marker")]
    for label, results, want in cases:
        rit = ctx.interp(rfi)
        st = gen_state()
        for t in ("X", "Y"):
            st.neq[repr(Sym(f"{t}.type"))] = {Const(None)}
        outs = rit.run_function(rfi, {"self": Sym("self"), "function_results": ListV(results)}, st)
        key = f"{GEN}::{GENCLS}._create_result_string::{label}"
        vals = {render(o.value) for o in outs if o.kind == "return"}
        probs = []
        for o in outs:
            if o.kind != "return":
                probs.append(f"{o.kind}")
                continue
            txt = render(o.value)
            typed = all(v for k, v in o.facts if k.startswith("truthy:self._create_type_string"))
            marker = any(e.kind == "mutate" and e.target.endswith("_current_todo_msgs.add") and e.args[0] == Const("result without type") for e in o.effects)
            if want == "empty" and (txt != "" or marker):
                probs.append(f"renders {txt!r} marker={marker}; a function annotated '-> None' must have no results and no marker")
            if want == "empty+marker" and (txt != "" or not marker):
                probs.append(f"renders {txt!r} marker={marker}")
            if not typed:
                continue
            if want == "one" and not re.fullmatch(r" -> \{[^{}]*<X\.name>[^{}]*\}: \{.*'builtins.int'.*\}", txt, re.S):
                probs.append(f"single result rendered as {txt!r}")
            if want == "two" and not (txt.startswith(" -> (") and txt.endswith(")") and 0 <= txt.find("<X.name>") < txt.find("<Y.name>")):
                probs.append(f"two results rendered as {txt!r}")
            if want == "keeps X" and "<X.name>" not in txt:
                probs.append(f"renders {txt!r}: the non-None result X is lost because a later tuple element is None")
        if probs:
            col.bad("C07.NONE-SUPPRESS", key, repo.loc(GEN, rfi.node), f"{sorted(set(probs))[:2]}", f"results {label}: {sorted(set(probs))[0]}")
        else:
            col.ok("C07.NONE-SUPPRESS", key, repo.loc(GEN, rfi.node), f"results {label} -> {sorted(vals)[:2]}")

    # ------------------------------------------------------------------ _parse_results: NONE / __init__ / NO-RESULT / TUPLE-SPLIT / NAMES
    pfi = repo.function(VISITOR, "MyPyAstVisitor._parse_results")
    col.touched(pfi)
    pit = ctx.interp(pfi)
    st = State({"self": Sym("self")})
    st.eq[repr(Sym("node.name"))] = Const("__init__")
    outs = pit.run_function(pfi, {"self": Sym("self"), "node": Sym("node", "FuncDef"), "function_id": Sym("function_id"), "result_docstrings": Sym("rdocs")}, st)
    key = f"{VISITOR}::MyPyAstVisitor._parse_results::__init__"
    good = len(outs) == 1 and outs[0].kind == "return" and outs[0].value == ListV(())
    (col.ok if good else col.bad)("C07.NONE-SUPPRESS", key, repo.loc(VISITOR, pfi.node), f"{[repr(o.value)[:60] for o in outs]}",
                                  *([] if good else ["a constructor gets results"]))
    st = State({"self": Sym("self")})
    st.neq[repr(Sym("node.name"))] = {Const("__init__")}
    pit = ctx.interp(pfi)
    outs = pit.run_function(pfi, {"self": Sym("self"), "node": Sym("node", "FuncDef"), "function_id": Sym("function_id"), "result_docstrings": Sym("rdocs")}, st)
    # paths where the annotated return type is mypy's NoneType
    none_paths = [o for o in outs if any(k.startswith("isinstance(<node.type.ret_type>") and "NoneType" in k and v for k, v in o.facts)]
    key = f"{VISITOR}::MyPyAstVisitor._parse_results::annotated-None"
    probs = []
    for o in none_paths:
        if o.kind != "return":
            probs.append(o.kind)
            continue
        rs = [x for x in walk_av(o.value) if isinstance(x, Obj) and x.cls == "Result"]
        tys = {repr(r.get("type")) for r in rs}
        if not rs or tys != {repr(NONE_T)}:
            probs.append(f"results {tys}")
    if probs or not none_paths:
        col.bad("C07.NONE-SUPPRESS", key, repo.loc(VISITOR, pfi.node), f"{probs[:2]} paths={len(none_paths)}", "an annotated '-> None' is not represented by the single none-typed result that the generator suppresses")
    else:
        col.ok("C07.NONE-SUPPRESS", key, repo.loc(VISITOR, pfi.node), f"{len(none_paths)} paths: '-> None' -> Result(type=None type)")
    # NO-RESULT: ret_type None -> []
    empty = [o for o in outs if o.kind == "return" and o.value == ListV(())]
    key = f"{VISITOR}::MyPyAstVisitor._parse_results::no-result"
    if empty:
        col.ok("C07.NO-RESULT", key, repo.loc(VISITOR, empty[0].node), f"{len(empty)} paths return [] (no annotation and nothing inferred)")
    else:
        col.bad("C07.NO-RESULT", key, repo.loc(VISITOR, pfi.node), "no path returns []", "a function without annotation and inferable return still gets results")
    # TUPLE-SPLIT and RESULT-NAMES on the constructed Result objects
    results = []
    for o in outs:
        if o.kind == "return":
            for x in walk_av(o.value):
                if isinstance(x, Obj) and x.cls == "Result":
                    results.append((x, o))
    key = f"{VISITOR}::MyPyAstVisitor._parse_results::result-types"
    probs = []
    for r, o in results:
        t = r.get("type")
        if t == NONE_T:
            continue
        if not (isinstance(t, (Sym, App)) and ("return_results" in repr(t) or "ret_type" in repr(t) or ".types" in repr(t) or "mypy_type_to_abstract_type" in repr(t)
                                              or "_infer_type" in repr(t) or "elem" in repr(t))):
            probs.append(f"type={t!r}")
    (col.ok if results and not probs else col.bad)("C07.TUPLE-SPLIT", key, repo.loc(VISITOR, pfi.node), f"{len(results)} Result constructions; {probs[:2]}",
                                                    *([] if results and not probs else ["a result's type is not an element of the translated return type"]))
    # one result per element: loops over return_results append exactly one Result
    ploops = [n for n in ast.walk(pfi.node) if isinstance(n, ast.For) and id(n) in pit.loops]
    for n in ploops:
        itv, elem, entry = pit.loops[id(n)][0]
        if sym_is(itv, "rdocs") or (isinstance(itv, App) and itv.func in ("list", "tuple", "reversed", "sorted", "enumerate") and itv.args and sym_is(itv.args[0], "rdocs")):
            continue  # the inner search for a matching docstring, not a loop over result types
        body = run_body(pit, n, entry, elem)
        bad = []
        for o in body:
            # appends of results (other lists, e.g. a record of matched docstring entries, do not count)
            aps = [e for e in new_effects(o, entry) if e.kind == "mutate" and e.target.endswith(".append") and e.args and isinstance(e.args[0], Obj) and e.args[0].cls == "Result"]
            if o.kind != "fall" or len(aps) != 1:
                bad.append((o.kind, len(aps)))
        key = f"{VISITOR}::MyPyAstVisitor._parse_results::one-result-per-element::{ast.unparse(n.iter)[:30]}"
        (col.ok if not bad else col.bad)("C07.TUPLE-SPLIT", key, repo.loc(VISITOR, n), f"{len(body)} paths; {bad[:2]}",
                                         *([] if not bad else ["a tuple element does not produce exactly one result"]))

    # RESULT-NAMES at every Result(...) construction site of the visitor
    vm = repo.module(VISITOR)
    nsites = 0
    for fi in vm.functions.values():
        for n in ast.walk(fi.node):
            if isinstance(n, ast.Call) and isinstance(n.func, ast.Name) and n.func.id == "Result":
                nsites += 1
                kw = {k.arg: k.value for k in n.keywords}
                name_e, id_e = kw.get("name"), kw.get("id")
                key = f"{VISITOR}::{fi.qualname}::Result@{ast.unparse(name_e) if name_e is not None else '?'}"
                probs = []
                if name_e is None or id_e is None:
                    probs.append("name=/id= missing")
                else:
                    # name: <docstring>.name or next(<name generator>)
                    names_in_name = {x.id for x in ast.walk(name_e) if isinstance(x, ast.Name)}
                    # find the defining assignment(s) of the variable in the function
                    defs = []
                    for x in ast.walk(fi.node):
                        if isinstance(x, ast.Assign) and any(isinstance(t, ast.Name) and t.id in names_in_name for t in x.targets):
                            defs.append(x.value)
                    okname = False
                    for d in defs or [name_e]:
                        src = ast.unparse(d)
                        if isinstance(d, ast.BoolOp) and isinstance(d.op, ast.Or) and src.count(".name") >= 1 and "next(" in src:
                            okname = True
                        elif isinstance(d, ast.IfExp) and ".name" in src and "next(" in src:
                            okname = True
                        elif isinstance(d, ast.IfExp) and ".name" in src and re.search(r"f'result_\{\w+ \+ [1-9]\d*\}'", src):
                            okname = True  # positional numbering from 1: result_{index + 1}
                        else:
                            okname = False
                            probs.append(f"name comes from `{src}` - not `<docstring>.name or next(name_generator)`")
                            break
                    # id ends with the same name
                    if not (isinstance(id_e, ast.JoinedStr) and len(id_e.values) >= 2 and isinstance(id_e.values[-1], ast.FormattedValue)
                            and {x.id for x in ast.walk(id_e.values[-1]) if isinstance(x, ast.Name)} == names_in_name):
                        probs.append(f"id `{ast.unparse(id_e)}` does not end in the result's name")
                if probs:
                    col.bad("C07.RESULT-NAMES", key, repo.loc(VISITOR, n), "; ".join(probs), f"{fi.qualname}: {probs[0]}")
                else:
                    col.ok("C07.RESULT-NAMES", key, repo.loc(VISITOR, n), "name = docstring name or next(generator); id ends with it")
    # `async def f() -> T`: mypy replaces the function's return type by typing.Coroutine[Any, Any, T] (read from the installed semanal.py);
    # the results have to mirror the annotation T
    from ..core.libmodel import lib_function
    wraps = any(isinstance(x, ast.Constant) and x.value == "typing.Coroutine" for x in ast.walk(lib_function("mypy/semanal.py", "SemanticAnalyzer.analyze_func_def")))
    if not wraps:
        raise AnalysisError("mypy's analyze_func_def no longer wraps coroutine return types in typing.Coroutine; re-triage C07.COROUTINE")
    # position of the annotated type among the wrapper's type arguments, read from the library source: named_type_or_none("typing.Coroutine", [any, any, ret_type])
    lib_fn = lib_function("mypy/semanal.py", "SemanticAnalyzer.analyze_func_def")
    ret_pos = None
    for x in ast.walk(lib_fn):
        if isinstance(x, ast.Call) and x.args and isinstance(x.args[0], ast.Constant) and x.args[0].value == "typing.Coroutine" and len(x.args) > 1 and isinstance(x.args[1], ast.List):
            ret_pos = next((i for i, el in enumerate(x.args[1].elts) if "ret_type" in ast.unparse(el)), None)
    if ret_pos is None:
        raise AnalysisError("position of the return type in mypy's Coroutine wrapper not found; re-triage C07.COROUTINE")
    unwrap_idx = []
    for x in ast.walk(pfi.node):
        if isinstance(x, ast.Assign) and isinstance(x.value, ast.Subscript) and isinstance(x.value.value, ast.Attribute) and x.value.value.attr == "args":
            try:
                idx_val = ast.literal_eval(x.value.slice)
            except Exception:  # noqa: BLE001
                continue
            if not isinstance(idx_val, int):
                continue
            cur, guarded = repo.parent(x), False
            while cur is not None and cur is not pfi.node:
                if isinstance(cur, ast.If) and ("is_coroutine" in ast.unparse(cur.test) or "Coroutine" in ast.unparse(cur.test)):
                    guarded = True
                cur = repo.parent(cur)
            if guarded:
                unwrap_idx.append(idx_val)
    src_pr = ast.unparse(pfi.node)
    unwraps = bool(unwrap_idx) and all(i in (ret_pos, ret_pos - 3) for i in unwrap_idx)
    key = f"{VISITOR}::MyPyAstVisitor._parse_results::coroutine-return-type"
    (col.ok if unwraps else col.bad)("C07.COROUTINE", key, repo.loc(VISITOR, pfi.node), f"the coroutine wrapper mypy puts around the return type of an `async def` is taken off (type argument {ret_pos})" if unwraps
                                     else ("node.type.ret_type is translated as it is" if not unwrap_idx else f"type argument {unwrap_idx} is taken, mypy puts the annotation at position {ret_pos}"),
                                     *([] if unwraps else ["for `async def` mypy's function type has the return type typing.Coroutine[Any, Any, T]; _parse_results translates that instead of the annotation: "
                                                           "`async def f() -> list[int]` gets the result `Coroutine<Any, Any, List<Int>>` and `async def g() -> None` gets a result at all"]))
    # when docstring entries are matched to results by their type, an entry names at most one result (two results of one type would otherwise
    # share a name and an id)
    def entry_names_one_result(fi, qual: str, listname: str, example: str) -> None:
        searches = []
        for outer in ast.walk(fi.node):
            if isinstance(outer, ast.For):
                for inner in ast.walk(outer):
                    if isinstance(inner, ast.For) and inner is not outer and ast.unparse(inner.iter) == listname and any(isinstance(b, ast.Break) for b in ast.walk(inner)):
                        searches.append((outer, inner))
        # the innermost enclosing loop is the loop over the results
        searches = [(o, i) for o, i in searches if not any(o2 is not o and i2 is i and any(x is o2 for x in ast.walk(o)) for o2, i2 in searches)]
        for outer, inner in searches:
            consumed = []
            for x in ast.walk(outer):
                if isinstance(x, ast.Call) and isinstance(x.func, ast.Attribute) and x.func.attr in ("remove", "pop") and ast.unparse(x.func.value) == listname:
                    consumed.append(f"line {x.lineno}: `{ast.unparse(x)[:50]}`")
                if isinstance(x, ast.Call) and isinstance(x.func, ast.Attribute) and x.func.attr in ("add", "append") and isinstance(x.func.value, ast.Name):
                    coll = x.func.value.id
                    tests = [c for c in ast.walk(inner) if isinstance(c, (ast.Compare, ast.Call)) and coll in {n.id for n in ast.walk(c) if isinstance(n, ast.Name)}
                             and (isinstance(c, ast.Call) and getattr(c.func, "id", "") in ("any", "all") or isinstance(c, ast.Compare) and any(isinstance(o, (ast.In, ast.NotIn, ast.Is, ast.IsNot)) for o in c.ops))]
                    if tests and coll not in ("all_results", "inferred_results"):
                        consumed.append(f"matched entries are recorded in `{coll}` and excluded by `{ast.unparse(tests[0])[:50]}`")
            key = f"{VISITOR}::MyPyAstVisitor.{qual}::docstring-entry-names-one-result"
            if consumed:
                col.ok("C07.RESULT-NAMES", key, repo.loc(VISITOR, inner), consumed[0])
            else:
                col.bad("C07.RESULT-NAMES", key, repo.loc(VISITOR, inner), f"search loop over {listname} (line {inner.lineno}) inside the loop over the results (line {outer.lineno}); a matched entry stays available",
                        f"entries of the docstring are matched to results by type and a matched entry can be matched again: {example} - two results share one name and one id "
                        f"(the stub declares the name twice, the API JSON lists the id twice)")
        if len(searches) > 1:
            raise AnalysisError(f"more than one docstring search loop in {qual}; re-triage")
    entry_names_one_result(pfi, "_parse_results", "result_docstrings", "`def f() -> tuple[int, int, str]` with numpydoc Returns `count : int` and `name : str` gives the results (count, count, name)")
    cifi = repo.function(VISITOR, "MyPyAstVisitor._create_inferred_results")
    col.touched(cifi)
    entry_names_one_result(cifi, "_create_inferred_results", "docstrings", "`return 0, 0` / `return 3, 4` without annotation and numpydoc Returns `rows : int`, `cols : int` gives the results (rows, rows)")
    # the generator counts from 1
    gfi = repo.function(VISITOR, "result_name_generator")
    col.touched(gfi)
    key = f"{VISITOR}::result_name_generator::starts-at-1"
    good = False
    for n in ast.walk(gfi.node):
        if isinstance(n, ast.For) and isinstance(n.iter, ast.Call) and getattr(n.iter.func, "id", "") == "range" and n.iter.args \
                and isinstance(n.iter.args[0], ast.Constant) and n.iter.args[0].value == 1 and len(n.iter.args) >= 2:
            ys = [y for y in ast.walk(n) if isinstance(y, ast.Yield)]
            if ys and isinstance(ys[0].value, ast.JoinedStr) and ys[0].value.values and isinstance(ys[0].value.values[0], ast.Constant) \
                    and ys[0].value.values[0].value == "result_":
                good = True
    (col.ok if good else col.bad)("C07.RESULT-NAMES", key, repo.loc(VISITOR, gfi.node), "yields f'result_{x}' for x in range(1, …)" if good else "shape not recognised",
                                  *([] if good else ["generated result names do not start at result_1"]))
    col.assume("grouping of mixed tuple/non-tuple inferred returns and docstring-name matching by hash(type) are value-level and not decided")
    from .shared import share
    share(ctx, col, "C05", {"C05.UNION-NORMAL"}, "a result whose annotation is a union is rendered with all members of the union")
    share(ctx, col, "C05", {"C05.CTOR-TABLE"}, "the results of an annotated function are the elements of the tuple type its annotation is translated to: only a fixed-length tuple annotation "
          "has several results (a NamedTuple class is one result, a tuple of any length is one result)", key_filter=lambda o: "::TupleType" in o.key or "::Instance:tuple" in o.key)
