"""C08 — output is a deterministic function of package contents and options."""
from __future__ import annotations

import ast
import re

from ..core.absint import App, Const, DictV, ListV, Sym, walk_av
from ..core.ctx import API_MOD, CLI, GETAPI, Ctx
from ..core.mypyfacts import MypyFacts
from ..core.report import Collector
from ..core.source import AnalysisError, FuncInfo

UNORDERED = re.compile(r"^(builtins\.)?(set|frozenset)\[")
AMBIENT_CALLS = {"time.time", "time.perf_counter", "time.monotonic", "datetime.now", "datetime.today", "datetime.utcnow", "random.random", "random.choice", "random.shuffle", "random.randint",
                 "os.getcwd", "Path.cwd", "os.getpid", "uuid.uuid4", "uuid.uuid1", "os.urandom", "id", "os.environ.get", "os.getenv", "getpass.getuser", "socket.gethostname", "tempfile.mkdtemp"}
PIPELINE_PREFIXES = ("api_analyzer/", "stubs_generator/", "docstring_parsing/", "_helpers.py")


def is_unordered(t: str | None) -> bool:
    return bool(t) and bool(UNORDERED.match(t.replace("typing.", "")))


def names_in(e: ast.AST) -> set[str]:
    return {x.id for x in ast.walk(e) if isinstance(x, ast.Name)}


def sorted_after(fnode: ast.AST, var: str, line: int) -> int | None:
    """Line of the first statement after `line` that puts `var` into sorted order: `var.sort(...)` or `var = sorted(var, ...)`."""
    hits = []
    for m in ast.walk(fnode):
        if isinstance(m, ast.Call) and isinstance(m.func, ast.Attribute) and m.func.attr == "sort" and ast.unparse(m.func.value) == var and m.lineno > line:
            hits.append(m.lineno)
        if isinstance(m, ast.Assign) and len(m.targets) == 1 and ast.unparse(m.targets[0]) == var and isinstance(m.value, ast.Call) and getattr(m.value.func, "id", "") == "sorted" \
                and m.value.args and ast.unparse(m.value.args[0]) == var and m.lineno > line:
            hits.append(m.lineno)
    return min(hits) if hits else None


def loop_body_order_sensitivity(repo, fi: FuncInfo, loop: ast.For) -> list[str]:
    """Why the result of this loop can depend on the iteration order (empty = order-insensitive by construction)."""
    reasons = []
    tvars = names_in(loop.target)
    # variables that (transitively) depend on the loop variable inside the body
    dep = set(tvars)
    changed = True
    while changed:
        changed = False
        for n in ast.walk(loop):
            if isinstance(n, ast.Assign) and names_in(n.value) & dep:
                for t in n.targets:
                    for x in ast.walk(t):
                        if isinstance(x, ast.Name) and x.id not in dep:
                            dep.add(x.id)
                            changed = True
            if isinstance(n, ast.For) and n is not loop and names_in(n.iter) & dep:
                for x in ast.walk(n.target):
                    if isinstance(x, ast.Name) and x.id not in dep:
                        dep.add(x.id)
                        changed = True
    assigned_before = {t.id for n in ast.walk(fi.node) if isinstance(n, (ast.Assign, ast.AnnAssign)) and getattr(n, "lineno", 0) < loop.lineno
                       for t in (n.targets if isinstance(n, ast.Assign) else [n.target]) if isinstance(t, ast.Name)}
    for n in ast.walk(loop):
        if n is loop:
            continue
        if isinstance(n, ast.Break):
            # only a break of *this* loop ends the set iteration early
            cur = repo.parent(n)
            while cur is not None and not isinstance(cur, (ast.For, ast.While)):
                cur = repo.parent(cur)
            if cur is not loop:
                continue
            reasons.append(f"line {n.lineno}: `break` - the first matching element wins")
        if isinstance(n, ast.Return) and n.value is not None and not isinstance(n.value, ast.Constant):
            if names_in(n.value) & dep:
                reasons.append(f"line {n.lineno}: returns a value of the first matching element")
        if isinstance(n, (ast.Yield, ast.YieldFrom)):
            reasons.append(f"line {n.lineno}: yields in iteration order")
        if isinstance(n, ast.Assign):
            for t in n.targets:
                if isinstance(t, ast.Name) and t.id in assigned_before and t.id not in tvars and names_in(n.value) & dep:
                    reasons.append(f"line {n.lineno}: `{t.id}` keeps a value chosen by iteration order (first/last match, ties)")
        if isinstance(n, ast.AugAssign) and isinstance(n.target, ast.Name) and names_in(n.value) & dep and isinstance(n.op, ast.Add):
            reasons.append(f"line {n.lineno}: `{n.target.id} +=` accumulates in iteration order")
        if isinstance(n, ast.Call) and isinstance(n.func, ast.Attribute) and n.func.attr in ("append", "extend", "insert") and any(names_in(a) & dep for a in n.args):
            lst = ast.unparse(n.func.value)
            # accepted when the list is sorted after the loop and before any other use
            sorted_later = False
            for m in ast.walk(fi.node):
                if isinstance(m, ast.Call) and isinstance(m.func, ast.Attribute) and m.func.attr == "sort" and ast.unparse(m.func.value) == lst and m.lineno > loop.end_lineno:
                    sorted_later = True
                if isinstance(m, ast.Call) and getattr(m.func, "id", "") == "sorted" and m.args and ast.unparse(m.args[0]) == lst and m.lineno > loop.end_lineno:
                    sorted_later = True
            if not sorted_later:
                reasons.append(f"line {n.lineno}: `{lst}.{n.func.attr}` collects in iteration order and is not sorted afterwards")
    return reasons


def _kw_given(name: str):
    """The keyword is passed, and not as None or as the ambient value itself."""
    def test(fi: FuncInfo, call: ast.Call) -> bool:
        for k in call.keywords:
            if k.arg == name:
                src = ast.unparse(k.value)
                return not (isinstance(k.value, ast.Constant) and k.value.value is None) and "sys.path" not in src and "getcwd" not in src and "os.curdir" not in src
        return False
    return test


def _has_string_arg(prefix: str):
    def test(fi: FuncInfo, call: ast.Call) -> bool:
        exprs = list(call.args)
        for a in call.args:
            if isinstance(a, ast.Name):
                exprs += [x.value for x in ast.walk(fi.node) if isinstance(x, ast.Assign) and any(isinstance(t, ast.Name) and t.id == a.id for t in x.targets)]
        return any(isinstance(c, ast.Constant) and isinstance(c.value, str) and c.value.startswith(prefix) for e in exprs for c in ast.walk(e))
    return test


# (library file, library function, ambient expression it reads, (module prefix, callee), what pins it, test on the repository's call)
AMBIENT_LIBRARY_ENTRIES = [
    ("_griffe/finder.py", "ModuleFinder.__init__", "sys.path", ("griffe", "load"), "an explicit search_paths argument", _kw_given("search_paths")),
    ("mypy/config_parser.py", "_find_config_file", "os.getcwd()", ("mypy", "process_options"), "a --config-file option", _has_string_arg("--config-file")),
    # mypy always puts the working directory at the front of the module search path; no argument of build() turns that off
    ("mypy/modulefinder.py", "compute_search_paths", "os.getcwd()", ("mypy", "build"), "an argument that keeps the working directory out of the module search path (mypy offers none)", lambda fi, call: False),
]


def check(ctx: Ctx, col: Collector, tier: str) -> None:
    repo = ctx.repo
    col.spec("C08.UNORDERED-ITER", "the output does not change with the string-hash seed: every iteration over a set is order-insensitive by construction or passes a sort first",
             "typed discovery of set-typed iterables (mypy) + order-sensitivity classification of each use", floor=10)
    col.spec("C08.SORT-KEYS", "sort barriers distinguish the elements they order (no hash-order ties)", "key functions of every sort applied to values that come from sets", floor=4)
    col.spec("C08.SORTED-SERIALISE", "the API JSON lists are sorted by id", "abstract value of API.to_dict", floor=8)
    col.spec("C08.AMBIENT", "the output does not depend on time, randomness, working directory or environment", "inventory of ambient reads in pipeline code", floor=1)
    col.spec("C08.PATH-SPELLING", "the spelling of source and output paths does not matter", "paths are resolved at the CLI boundary and nowhere re-derived from the arguments", floor=1)
    col.spec("C08.FS-ENUM", "the output does not change with the order in which the file system enumerates files", "uses of glob/iterdir/listdir results", floor=2)

    mf = MypyFacts(repo)
    col.trust("mypy (the repository's own dependency) expression types")
    nsites = 0
    for rel, mi in repo.modules.items():
        if not rel.startswith(PIPELINE_PREFIXES):
            continue
        for fi in mi.functions.values():
            for n in ast.walk(fi.node):
                # ---- loops and comprehensions over sets
                if isinstance(n, ast.For) and is_unordered(mf.type_of(rel, n.iter)):
                    nsites += 1
                    col.touched(fi)
                    reasons = loop_body_order_sensitivity(repo, fi, n)
                    key = f"{rel}::{fi.qualname}::for {ast.unparse(n.target)} in {ast.unparse(n.iter)[:50]}"
                    if reasons:
                        col.bad("C08.UNORDERED-ITER", key, repo.loc(rel, n), f"iterable type {mf.type_of(rel, n.iter)}; {reasons}",
                                f"{fi.qualname} iterates a set ({ast.unparse(n.iter)[:40]}) and its result depends on the iteration order: {reasons[0]} - the output changes with PYTHONHASHSEED")
                    else:
                        col.ok("C08.UNORDERED-ITER", key, repo.loc(rel, n), f"iterable type {mf.type_of(rel, n.iter)}; body is order-insensitive (set adds / constant returns / sorted afterwards)")
                if isinstance(n, (ast.ListComp, ast.GeneratorExp, ast.DictComp)) and any(is_unordered(mf.type_of(rel, g.iter)) for g in n.generators):
                    nsites += 1
                    col.touched(fi)
                    par = repo.parent(n)
                    gpar = repo.parent(par) if par is not None else None
                    ok_ctx = None
                    if isinstance(par, ast.Call) and getattr(par.func, "id", "") in ("sorted", "set", "frozenset", "any", "all", "sum", "len", "min", "max"):
                        ok_ctx = f"consumed by {par.func.id}()"
                    if isinstance(par, ast.Assign) and len(par.targets) == 1 and isinstance(par.targets[0], ast.Name):
                        nm = par.targets[0].id
                        nxt_sort = sorted_after(fi.node, nm, n.lineno)
                        if nxt_sort:
                            ok_ctx = f"assigned to {nm}, which is sorted at line {nxt_sort} before use"
                    key = f"{rel}::{fi.qualname}::comprehension over {ast.unparse(n.generators[0].iter)[:50]}"
                    if ok_ctx:
                        col.ok("C08.UNORDERED-ITER", key, repo.loc(rel, n), ok_ctx)
                    else:
                        col.bad("C08.UNORDERED-ITER", key, repo.loc(rel, n), f"`{ast.unparse(n)[:80]}` builds an ordered result from a set",
                                f"{fi.qualname} builds an ordered sequence from a set without sorting it: the output changes with PYTHONHASHSEED")
                # ---- conversions / order-revealing calls on sets
                if isinstance(n, ast.Call):
                    fn = n.func
                    nm = getattr(fn, "id", None)
                    arg0 = n.args[0] if n.args else None
                    site = None
                    if nm in ("list", "tuple", "next", "iter", "min", "max", "enumerate", "zip") and arg0 is not None and is_unordered(mf.type_of(rel, arg0)):
                        site = (nm, arg0)
                    if isinstance(fn, ast.Attribute) and fn.attr == "join" and arg0 is not None and is_unordered(mf.type_of(rel, arg0)):
                        site = ("join", arg0)
                    if isinstance(fn, ast.Attribute) and fn.attr == "pop" and not n.args and is_unordered(mf.type_of(rel, fn.value)):
                        site = ("pop", fn.value)
                    if site is None:
                        continue
                    nsites += 1
                    col.touched(fi)
                    kind, src = site
                    key = f"{rel}::{fi.qualname}::{kind}({ast.unparse(src)[:40]})"
                    ok_ctx = None
                    par = repo.parent(n)
                    if kind in ("min", "max"):
                        ok_ctx = "min/max of a set (order independent up to ties of equal elements)"
                    if kind in ("list", "tuple") and isinstance(par, ast.Assign) and isinstance(par.targets[0], ast.Name):
                        v = par.targets[0].id
                        srt = sorted_after(fi.node, v, n.lineno)
                        if srt:
                            ok_ctx = f"{v} is sorted at line {srt} before use"
                    if kind in ("list", "tuple") and isinstance(par, ast.Return):
                        # the callers must sort: check every call site of this function
                        callers_ok, ncall = True, 0
                        for m2 in repo.modules.values():
                            for f2 in m2.functions.values():
                                for c in ast.walk(f2.node):
                                    if isinstance(c, ast.Call) and (getattr(c.func, "attr", None) == fi.name or getattr(c.func, "id", None) == fi.name):
                                        ncall += 1
                                        p2 = repo.parent(c)
                                        v = p2.targets[0].id if isinstance(p2, ast.Assign) and isinstance(p2.targets[0], ast.Name) else None
                                        direct = isinstance(p2, ast.Call) and getattr(p2.func, "id", "") == "sorted"
                                        if not direct and (v is None or sorted_after(f2.node, v, c.lineno) is None):
                                            callers_ok = False
                        if ncall and callers_ok:
                            ok_ctx = f"returned unsorted, but each of the {ncall} callers sorts the result before use"
                    if kind == "pop" and isinstance(fn.value, ast.Call):
                        inner = ast.unparse(fn.value)
                        guard = [c for c in ast.walk(fi.node) if isinstance(c, ast.If) and re.search(r"len\(\w+\) == 1", ast.unparse(c.test)) and any(x is n for x in ast.walk(c))]
                        if guard:
                            ok_ctx = "pop() of a copy of a one-element set (guarded by len == 1)"
                    if ok_ctx:
                        col.ok("C08.UNORDERED-ITER", key, repo.loc(rel, n), ok_ctx)
                    else:
                        col.bad("C08.UNORDERED-ITER", key, repo.loc(rel, n), f"`{ast.unparse(n)[:80]}`",
                                f"{fi.qualname} turns a set into an ordered value ({kind}) without a sort barrier: the output changes with PYTHONHASHSEED")
    if nsites < 10:
        raise AnalysisError(f"only {nsites} set-typed iteration sites found (typed discovery failed?)")

    # ------------------------------------------------------------------ SORT-KEYS
    nk = 0
    for rel, mi in repo.modules.items():
        if not rel.startswith(PIPELINE_PREFIXES):
            continue
        for fi in mi.functions.values():
            for n in ast.walk(fi.node):
                is_sort = isinstance(n, ast.Call) and ((isinstance(n.func, ast.Attribute) and n.func.attr == "sort") or getattr(n.func, "id", "") == "sorted")
                if not is_sort:
                    continue
                kw = {k.arg: k.value for k in n.keywords}
                if "key" not in kw:
                    nk += 1
                    col.ok("C08.SORT-KEYS", f"{rel}::{fi.qualname}::sort::{ast.unparse(n)[:50]}", repo.loc(rel, n), "natural order of the elements themselves (a total order on strings/tuples)", nontrivial=False)
                    continue
                nk += 1
                col.touched(fi)
                k = kw["key"]
                body = k.body if isinstance(k, ast.Lambda) else k
                src = ast.unparse(body)
                arg = k.args.args[0].arg if isinstance(k, ast.Lambda) and k.args.args else None
                identifying = bool(re.fullmatch(rf"{arg}\.(id|name)", src)) if arg else False
                # tuple keys ending in a full serialisation of the element are identifying as well
                if arg and isinstance(body, ast.Tuple) and any(re.search(rf"str\({arg}(\.to_dict\(\))?\)|{arg}\.id\b", ast.unparse(e)) for e in body.elts):
                    identifying = True
                if arg and isinstance(body, ast.Tuple) and all(re.fullmatch(rf"{arg}\[\d\]( or '')?", ast.unparse(e)) for e in body.elts):
                    identifying = True
                key = f"{rel}::{fi.qualname}::sort-key::{src[:60]}"
                if identifying:
                    col.ok("C08.SORT-KEYS", key, repo.loc(rel, n), f"key `{src[:60]}` identifies the element")
                else:
                    col.bad("C08.SORT-KEYS", key, repo.loc(rel, n), f"key `{src[:80]}`",
                            f"{fi.qualname} sorts by `{src[:60]}`, which does not distinguish all elements: elements with equal keys keep the order of the set they came from (hash seed dependent)")
    if nk < 4:
        raise AnalysisError("sort sites not found")

    # ------------------------------------------------------------------ SORTED-SERIALISE
    tfi = repo.function(API_MOD, "API.to_dict")
    col.touched(tfi)
    outs = ctx.interp(tfi).run_function(tfi, {"self": Sym("self")})
    d = outs[0].value if outs and isinstance(outs[0].value, DictV) else None
    for kk, vv in (d.items if d else ()):
        if isinstance(vv, ListV):
            srt = [x for x in walk_av(vv) if isinstance(x, App) and x.func == "sorted"]
            good = bool(srt) and isinstance(dict(srt[0].kwargs).get("key"), App) and re.fullmatch(r"\w+\.id", dict(srt[0].kwargs)["key"].args[0].v or "") is not None
            (col.ok if good else col.bad)("C08.SORTED-SERIALISE", f"{API_MOD}::API.to_dict::{kk.v}", repo.loc(API_MOD, tfi.node), f"{kk.v}: sorted(..., key=id)" if good else f"{vv!r}"[:120],
                                          *([] if good else [f"top-level list {kk.v!r} of the API JSON is not sorted by id: its order follows dict insertion order (file enumeration order)"]))

    # ------------------------------------------------------------------ AMBIENT
    found = []
    for rel, mi in repo.modules.items():
        for fi in mi.functions.values():
            for n in ast.walk(fi.node):
                if isinstance(n, ast.Call):
                    src = ast.unparse(n.func)
                    if src in AMBIENT_CALLS or (src == "hash" and False):
                        found.append((rel, fi, n, src))
                if isinstance(n, ast.Attribute) and ast.unparse(n) in ("os.environ", "sys.argv") and rel not in ("main.py",):
                    found.append((rel, fi, n, ast.unparse(n)))
    accepted = {("main.py", "main", "time.time"): "elapsed time printed to stdout only"}
    for rel, fi, n, src in found:
        key = f"{rel}::{fi.qualname}::ambient::{src}"
        if (rel, fi.qualname, src) in accepted:
            col.ok("C08.AMBIENT", key, repo.loc(rel, n), f"{src}: {accepted[(rel, fi.qualname, src)]}")
        else:
            col.bad("C08.AMBIENT", key, repo.loc(rel, n), f"{src} in {fi.qualname}", f"{fi.qualname} reads ambient state ({src}); the output is no longer a function of the package contents and options")
    # hash() results may only be compared for equality
    for rel, mi in repo.modules.items():
        for fi in mi.functions.values():
            for n in ast.walk(fi.node):
                if isinstance(n, ast.Call) and getattr(n.func, "id", "") == "hash" and not fi.name.startswith("__hash__"):
                    par = repo.parent(n)
                    good = isinstance(par, ast.Compare) and all(isinstance(o, (ast.Eq, ast.NotEq)) for o in par.ops)
                    key = f"{rel}::{fi.qualname}::hash::{ast.unparse(n)[:40]}"
                    (col.ok if good else col.bad)("C08.AMBIENT", key, repo.loc(rel, n), "hash(...) only compared for equality" if good else f"`{ast.unparse(par)[:60]}`",
                                                  *([] if good else [f"{fi.qualname} uses a hash value (seed dependent) for more than an equality test"]))
    # library entry points that consult ambient state unless an argument pins it (facts read from the installed library sources)
    from ..core.libmodel import reads_ambient
    for lib_file, lib_fn, ambient, callee, pin_desc, pinned in AMBIENT_LIBRARY_ENTRIES:
        if not reads_ambient(lib_file, lib_fn, ambient):
            raise AnalysisError(f"{lib_fn} in {lib_file} no longer reads {ambient}; re-triage the library entry {callee}")
        sites = []
        for rel, mi in repo.modules.items():
            for fi in mi.functions.values():
                for n in ast.walk(fi.node):
                    if isinstance(n, ast.Call) and (getattr(n.func, "attr", None) or getattr(n.func, "id", None)) == callee[1] \
                            and (mi.imports.get(n.func.id, ("", None))[0].startswith(callee[0]) if isinstance(n.func, ast.Name)
                                 else mi.imports.get(getattr(n.func.value, "id", ""), ("", None))[0].startswith(callee[0]) or (mi.imports.get(getattr(n.func.value, "id", ""), ("", None))[1] or "").startswith(callee[0].split(".")[-1])):
                        sites.append((rel, fi, n))
        if not sites:
            raise AnalysisError(f"no call of {callee[0]}.{callee[1]} found")
        for rel, fi, n in sites:
            col.touched(fi)
            key = f"{rel}::{fi.qualname}::ambient::{callee[1]}"
            if pinned(fi, n):
                col.ok("C08.AMBIENT", key, repo.loc(rel, n), f"{callee[1]}: {pin_desc} is given, so {lib_fn} does not fall back on {ambient}")
            else:
                col.bad("C08.AMBIENT", key, repo.loc(rel, n), f"`{ast.unparse(n)[:70]}` without {pin_desc}; {lib_fn} ({lib_file}) then reads {ambient}",
                        f"{fi.qualname} calls {callee[1]} without {pin_desc}: the library then consults {ambient} ({lib_fn}), so the same package and options give different output from a different working directory")
    col.ok("C08.AMBIENT", "package::importlib.metadata", "src/safeds_stubgen/api_analyzer/_package_metadata.py", "distribution/version are read from the installed environment by design (outside the dimensions the property enumerates)", nontrivial=False)

    # ------------------------------------------------------------------ PATH-SPELLING
    cfi = repo.function(CLI, "cli")
    col.touched(cfi)
    src = ast.unparse(cfi.node).replace(" ", "")
    good = "src_dir_path=args.src.resolve()" in src and "out_dir_path=args.out.resolve()" in src
    uses = [n.lineno for n in ast.walk(cfi.node) if isinstance(n, ast.Attribute) and n.attr in ("src", "out") and isinstance(n.value, ast.Name) and n.value.id == "args"
            and not (isinstance(repo.parent(n), ast.Attribute) and repo.parent(n).attr == "resolve")]
    (col.ok if good and not uses else col.bad)("C08.PATH-SPELLING", f"{CLI}::cli::resolve", repo.loc(CLI, cfi.node), "args.src / args.out are only used through .resolve()" if good and not uses else f"unresolved uses at {uses}",
                                               *([] if good and not uses else ["the source or output path is used unresolved: relative/absolute/trailing-slash spellings give different outputs"]))

    # ------------------------------------------------------------------ FS-ENUM
    enum_sites = []
    for rel, mi in repo.modules.items():
        for fi in mi.functions.values():
            for n in ast.walk(fi.node):
                if isinstance(n, ast.Call) and isinstance(n.func, ast.Attribute) and (n.func.attr in ("glob", "rglob", "iterdir") or (
                        n.func.attr in ("listdir", "walk", "scandir") and ast.unparse(n.func.value) == "os")):
                    enum_sites.append((rel, fi, n))
    for rel, fi, n in enum_sites:
        col.touched(fi)
        par = repo.parent(n)
        key = f"{rel}::{fi.qualname}::{ast.unparse(n)[:50]}"
        if isinstance(par, ast.Call) and getattr(par.func, "id", "") == "sorted":
            col.ok("C08.FS-ENUM", key, repo.loc(rel, n), "enumeration result is sorted before use")
        elif fi.qualname != "_get_nearest_init_dirs" and (isinstance(par, ast.Assign) or (isinstance(par, ast.Call) and getattr(par.func, "id", "") in ("list", "tuple") and isinstance(repo.parent(par), ast.Assign))):
            # bound to a local that is sorted in place before it is walked
            asg = par if isinstance(par, ast.Assign) else repo.parent(par)
            nm = asg.targets[0].id if len(asg.targets) == 1 and isinstance(asg.targets[0], ast.Name) else None
            srt = sorted_after(fi.node, nm, asg.lineno) if nm else None
            first_use = min((x.lineno for x in ast.walk(fi.node) if isinstance(x, ast.Name) and x.id == nm and isinstance(x.ctx, ast.Load) and x.lineno > asg.lineno
                             and not (isinstance(repo.parent(x), ast.Attribute) and repo.parent(x).attr == "sort")), default=None) if nm else None
            if srt is not None and (first_use is None or srt <= first_use):
                col.ok("C08.FS-ENUM", key, repo.loc(rel, n), f"enumeration result is bound to `{nm}` and sorted (line {srt}) before its first use")
            else:
                col.bad("C08.FS-ENUM", key, repo.loc(rel, n), f"`{ast.unparse(n)[:60]}` bound to `{nm}`", f"{fi.qualname} uses a file-system enumeration whose order is not fixed")
        elif fi.qualname == "_get_nearest_init_dirs":
            # accepted form: the complete enumeration feeds a minimum-depth selection (the *set* of shallowest directories does not depend on the
            # order), and the caller uses the result only when it has exactly one element.  Checked: the enumeration is only ever walked completely.
            asg = par if isinstance(par, ast.Assign) else repo.parent(par)
            nm = asg.targets[0].id if isinstance(asg, ast.Assign) and len(asg.targets) == 1 and isinstance(asg.targets[0], ast.Name) else None
            partial = []
            for x in ast.walk(fi.node):
                if isinstance(x, ast.Name) and x.id == nm and isinstance(x.ctx, ast.Load):
                    px = repo.parent(x)
                    whole = (isinstance(px, (ast.For, ast.comprehension)) and px.iter is x) or (isinstance(px, ast.Call) and getattr(px.func, "id", "") in ("len", "sorted", "set", "frozenset", "bool")) \
                        or isinstance(px, (ast.UnaryOp, ast.If, ast.BoolOp, ast.While)) or (isinstance(px, ast.Compare) and all(isinstance(o, (ast.Eq, ast.NotEq, ast.Is, ast.IsNot)) for o in px.ops))
                    if not whole:
                        partial.append(f"line {x.lineno}: `{ast.unparse(px)[:50]}`")
            loops = [x for x in ast.walk(fi.node) if isinstance(x, ast.For) and isinstance(x.iter, ast.Name) and x.iter.id == nm]
            early = [y.lineno for lp in loops for y in ast.walk(lp) if isinstance(y, (ast.Break, ast.Return))]
            cfi2 = repo.function(rel, "get_api")
            uses = [x for x in ast.walk(cfi2.node) if isinstance(x, ast.Call) and getattr(x.func, "id", "") == "_get_nearest_init_dirs"]
            res_names = {repo.parent(u).targets[0].id for u in uses if isinstance(repo.parent(u), ast.Assign) and isinstance(repo.parent(u).targets[0], ast.Name)}
            unguarded = []
            for x in ast.walk(cfi2.node):
                if isinstance(x, ast.Subscript) and isinstance(x.value, ast.Name) and x.value.id in res_names:
                    cur, ok_guard = repo.parent(x), False
                    while cur is not None and cur is not cfi2.node:
                        if isinstance(cur, ast.If) and ast.unparse(cur.test).replace(" ", "") in (f"len({x.value.id})==1", f"1==len({x.value.id})"):
                            ok_guard = True
                        cur = repo.parent(cur)
                    if not ok_guard:
                        unguarded.append(x.lineno)
            if nm and not partial and not early and uses and not unguarded:
                col.ok("C08.FS-ENUM", key, repo.loc(rel, n), f"`{nm}` is only walked completely (minimum-depth selection: the set of shallowest directories is order independent); "
                                                             f"the caller indexes the result only under `len(...) == 1`")
            else:
                why = (partial or [f"early exit at line {e}" for e in early] or [f"result indexed without the single-element guard at line {u}" for u in unguarded] or ["shape not recognised"])[0]
                col.bad("C08.FS-ENUM", key, repo.loc(rel, n), why,
                        f"{fi.qualname}: the result depends on which entry the file system lists first ({why}): with a source directory that is no package itself, the nearest package is chosen by enumeration order")
        else:
            col.bad("C08.FS-ENUM", key, repo.loc(rel, n), f"`{ast.unparse(n)[:60]}`", f"{fi.qualname} uses a file-system enumeration whose order is not fixed")
    if len(enum_sites) < 2:
        raise AnalysisError("file enumeration sites not found")
    from .shared import share
    share(ctx, col, "C16", {"C16.STATE-RESET"}, "repeated generations and the order in which modules are generated must not matter")
    share(ctx, col, "C10", {"C10.WRITE-MODE"}, "a repeated run into the same output directory leaves the same files")
    col.assume("equality of two runs is relational and is not decided; determinism of mypy and griffe themselves is assumed")
