"""C09 — naming conversion renames consistently and keeps Python names recoverable."""
from __future__ import annotations

import ast
import re

from ..core.absint import AV, Alt, App, Const, EnumM, ListV, Obj, Outcome, Rep, State, StrT, Sym, holes, walk_av
from ..core.ctx import GEN, GENSTUBS, GHELPER, Ctx
from ..core.report import Collector
from ..core.source import AnalysisError
from .common import GENCLS, find_loops, fmt_facts, gen_state, new_effects, render, run_body, sym_is
from .emitmodel import ANNOT, CONV, ESC, EmitModel, holes_ctx

NC = "NamingConvention"


def pipeline_of(h: AV) -> tuple[tuple, AV]:
    """(ordered wrapper description, origin)"""
    chain = []
    while isinstance(h, App) and h.func in (ESC, CONV) and h.args:
        if h.func == CONV:
            kw = dict(h.kwargs)
            icn = kw.get("is_class_name", h.args[2] if len(h.args) > 2 else Const(False))
            chain.append(f"convert[{'class' if icn == Const(True) else 'other'}]")
        else:
            chain.append("escape")
        h = h.args[0]
    return tuple(chain), h


def check(ctx: Ctx, col: Collector, tier: str) -> None:
    repo = ctx.repo
    col.spec("C09.OFF-IDENTITY", "with naming conversion off every identifier is emitted verbatim", "specialisation of the conversion function for the PYTHON convention", floor=2)
    col.spec("C09.CONVERT-SHAPE", "class names are rendered in UpperCamelCase and all other names in lowerCamelCase: the converter capitalises every part (all but the first for non-class names) "
             "and leaves only '_' untouched", "symbolic result of the conversion function per mode: identity exits and capitalisation of the joined parts", floor=4)
    col.spec("C09.LOOKUP-SPELLING", "a name is looked up in a table of rendered names under the spelling the table stores: both settings then take the same branches and differ in names only",
             "wrapper chains (conversion, escaping) of the operands of membership tests on the generator's name tables vs. the chains of the values stored there", floor=2)
    col.spec("C09.FLAG-SLICE", "nothing else in the stubs changes with the flag", "forward slice of convert_identifiers / naming_convention", floor=15)
    col.spec("C09.ANNOT-IFF-DIFF", "a Python-name / Python-module annotation carrying the original is attached exactly when the rendered name differs",
             "per-path comparison of the annotation hole with the fact 'converted == original' at every declaration site", floor=9)
    col.spec("C09.ROLE-PIPELINE", "one identifier is rendered the same way wherever it is declared, imported or referenced",
             "comparison of the wrapper pipelines of all emission sites of one role", floor=8)
    col.spec("C09.CLASS-MODE", "class names are rendered in UpperCamelCase, everything else in lowerCamelCase", "is_class_name argument per site role", floor=8)

    cfi = repo.function(GHELPER, CONV)
    col.touched(cfi)
    # ------------------------------------------------------------------ OFF-IDENTITY
    for icn in (True, False):
        outs = ctx.interp(cfi).run_function(cfi, {"name": Sym("name"), "naming_convention": EnumM(NC, "PYTHON"), "is_class_name": Const(icn)})
        def unchanged(o):  # the parameter itself, or the constant the path has established the parameter to be equal to
            return o.value == Sym("name") or (isinstance(o.value, Const) and any(v and k in (f"{o.value!r}==<name>", f"<name>=={o.value!r}") for k, v in o.facts))
        good = outs and all(o.kind == "return" and unchanged(o) for o in outs)
        key = f"{GHELPER}::{CONV}::PYTHON,is_class_name={icn}"
        (col.ok if good else col.bad)("C09.OFF-IDENTITY", key, repo.loc(GHELPER, cfi.node), f"{[(o.kind, repr(o.value)[:60]) for o in outs]}",
                                      *([] if good else ["with the PYTHON convention the conversion does not return its argument unchanged on every path"]))

    # ------------------------------------------------------------------ CONVERT-SHAPE
    for icn in (True, False):
        outs = ctx.interp(cfi).run_function(cfi, {"name": Sym("name"), "naming_convention": EnumM(NC, "SAFE_DS"), "is_class_name": Const(icn)})
        rets = [o for o in outs if o.kind == "return"]
        # a path that tests the joined parts for emptiness and returns '' is not feasible: names without a letter take the identity exit (checked
        # below as `covers_all`), every other name has a non-empty part
        def empty_join(o) -> bool:
            return o.value == Const("") and any(fv is False and k.startswith("truthy:") and "Rep[" in k and not k.startswith("truthy:.strip(<name>") for k, fv in o.facts)
        infeasible = [o for o in rets if empty_join(o)]
        rets = [o for o in rets if not empty_join(o)]
        outs = [o for o in outs if not empty_join(o)]
        # (1) the only names that leave the conversion untouched consist of underscores only (no letter to capitalise): the path
        #     established name == "_" or that stripping the underscores leaves nothing
        def only_underscores(o) -> bool:
            return any((v and k in ("'_'==<name>", "<name>=='_'")) or (not v and k == "truthy:.strip(<name>, '_')") or (v and k in ("''==.strip(<name>, '_')", ".strip(<name>, '_')==''"))
                       for k, v in o.facts)
        verbatim = [o for o in rets if (o.value == Sym("name") or isinstance(o.value, Const)) and not only_underscores(o)]
        key = f"{GHELPER}::{CONV}::SAFE_DS,is_class_name={icn}::identity-exits"
        # every name without a letter must take the identity exit ("__" would otherwise be converted to the empty identifier)
        covers_all = any((o.value == Sym("name") or isinstance(o.value, Const)) and any((not v and k == "truthy:.strip(<name>, '_')") or (v and k in ("''==.strip(<name>, '_')", ".strip(<name>, '_')==''"))
                                                                                    for k, v in o.facts) for o in rets)
        if infeasible and not covers_all:
            rets, outs = rets + infeasible, outs + infeasible
            verbatim = verbatim + infeasible
        if not covers_all and not verbatim and len(rets) == len(outs):
            col.bad("C09.CONVERT-SHAPE", key, repo.loc(GHELPER, cfi.node), "no identity exit for names that consist of underscores only",
                    f"{CONV}(is_class_name={icn}) converts a name that consists of underscores only (`__`, `___`) like any other name: nothing is left after the underscores are removed, "
                    f"so the declaration is emitted with an empty identifier and the stub does not parse")
        elif verbatim or len(rets) != len(outs):
            col.bad("C09.CONVERT-SHAPE", key, repo.loc(GHELPER, cfi.node), f"{[(repr(o.value)[:40], fmt_facts(o.facts)[:80]) for o in verbatim][:3]}",
                    f"with naming conversion on, {CONV}(is_class_name={icn}) returns its argument unchanged on a path that has not established name == '_' "
                    f"({fmt_facts(verbatim[0].facts)[:100] if verbatim else 'raise'}): such names keep their Python spelling (e.g. a one-letter class stays lower case)")
        else:
            col.ok("C09.CONVERT-SHAPE", key, repo.loc(GHELPER, cfi.node), f"{len(rets)} paths; the only verbatim return is for names that consist of underscores only")
        # (2) every '_'-separated part is capitalised, except the first part of a non-class name
        shape_bad = []
        for o in rets:
            if isinstance(o.value, Const) or (o.value == Sym("name") and only_underscores(o)):
                continue
            hs = holes(o.value)
            raw = [h for h in hs if not any(isinstance(x, App) and x.func == ".upper" for x in walk_av(h))]
            want_raw = 0 if icn else 1
            if len(raw) != want_raw or not hs:
                shape_bad.append((render(o.value)[:80], len(raw)))
        key = f"{GHELPER}::{CONV}::SAFE_DS,is_class_name={icn}::parts-capitalised"
        if shape_bad:
            col.bad("C09.CONVERT-SHAPE", key, repo.loc(GHELPER, cfi.node), f"{shape_bad[:2]}",
                    f"{CONV}(is_class_name={icn}): the converted name has {shape_bad[0][1]} part(s) that are not capitalised; {'UpperCamelCase capitalises every part' if icn else 'lowerCamelCase keeps exactly the first part'}")
        else:
            col.ok("C09.CONVERT-SHAPE", key, repo.loc(GHELPER, cfi.node), "every part is joined with its first character upper-cased" + ("" if icn else ", the first part is kept"))

        # (3) the leading underscores are removed: what follows may start with a digit (`_1`, `_2nd`), which is no identifier
        conv = [o for o in rets if not (isinstance(o.value, Const) or (o.value == Sym("name") and only_underscores(o)))]
        def looks_at_first_char(k: str) -> bool:
            if re.search(r"\.isidentifier\(|re\.(match|fullmatch)\(", k):
                return True
            m = re.search(r"\.(isdigit|isalpha|isdecimal|isnumeric)\((.*)\)\s*$", k)
            if not m:
                return False
            arg = m.group(2)
            # the tested operand is the first character: X[0] or X[:1]
            return bool(re.search(r"^\[\]\(.*, 0\)$", arg) or re.search(r"^slice\(.*, (None|0), 1\)$", arg))
        tested = [o for o in conv if any(looks_at_first_char(k) for k, _ in o.facts)]
        key = f"{GHELPER}::{CONV}::SAFE_DS,is_class_name={icn}::digit-after-underscores"
        if conv and len(tested) == len(conv):
            col.ok("C09.CONVERT-SHAPE", key, repo.loc(GHELPER, cfi.node), f"all {len(conv)} converting paths test the first character that is left")
        else:
            col.bad("C09.CONVERT-SHAPE", key, repo.loc(GHELPER, cfi.node), f"{len(conv) - len(tested)} of {len(conv)} converting paths never look at the first remaining character",
                    f"{CONV}(is_class_name={icn}) removes the leading underscores without looking at what follows: `_1`, `_2nd`, `_3d` become `1`, `2nd`, `3d` - "
                    f"`def polygon(_1: int)` is emitted as `@PythonName(\"_1\") 1: Int` and `class Version(Enum): _1 = 1` as the variant `1`, which are no identifiers (C02)")

    # ------------------------------------------------------------------ FLAG-SLICE
    gm = repo.module(GEN)
    n_uses = 0
    for fi in gm.functions.values():
        for n in ast.walk(fi.node):
            if isinstance(n, ast.Attribute) and n.attr == "naming_convention" and isinstance(n.value, ast.Name) and n.value.id == "self":
                if isinstance(n.ctx, ast.Store):
                    # the only definition: SAFE_DS if convert_identifiers else PYTHON
                    par = repo.parent(n)
                    src = ast.unparse(par.value) if isinstance(par, ast.Assign) else ""
                    good = bool(re.fullmatch(r"NamingConvention\.SAFE_DS if convert_identifiers else NamingConvention\.PYTHON", src))
                    (col.ok if good else col.bad)("C09.FLAG-SLICE", f"{GEN}::{fi.qualname}::definition", repo.loc(GEN, n), src or "not an assignment",
                                                  *([] if good else ["naming_convention is not 'SAFE_DS if convert_identifiers else PYTHON'"]))
                    continue
                n_uses += 1
                par = repo.parent(n)
                okuse = isinstance(par, ast.Call) and getattr(par.func, "id", "") == CONV and (
                    (len(par.args) > 1 and par.args[1] is n) or any(k.arg == "naming_convention" and k.value is n for k in par.keywords))
                key = f"{GEN}::{fi.qualname}::use::{ast.unparse(par)[:70] if par is not None else '?'}"
                if okuse:
                    col.ok("C09.FLAG-SLICE", key, repo.loc(GEN, n), "passed as the convention argument of the name conversion")
                else:
                    col.bad("C09.FLAG-SLICE", key, repo.loc(GEN, n), f"used in `{ast.unparse(par)[:80]}`",
                            f"{fi.qualname} consults the naming convention outside a call of {CONV}: the flag can change more than converted names")
    for n in ast.walk(gm.tree):
        if isinstance(n, ast.Name) and n.id == "convert_identifiers" and isinstance(n.ctx, ast.Load):
            par = repo.parent(n)
            if not isinstance(par, ast.IfExp):
                col.bad("C09.FLAG-SLICE", f"{GEN}::convert_identifiers@{n.lineno}", repo.loc(GEN, n), "extra use", "convert_identifiers is used for something else than selecting the naming convention")
    sm = repo.module(GENSTUBS)
    for fi in sm.functions.values():
        col.touched(fi)
        for n in ast.walk(fi.node):
            if isinstance(n, ast.Name) and n.id == "naming_convention" and isinstance(n.ctx, ast.Load):
                par = repo.parent(n)
                callee = getattr(par.func, "id", "") if isinstance(par, ast.Call) else ""
                okuse = isinstance(par, ast.Call) and (callee == CONV or callee.startswith("_create_outside_package_class"))
                key = f"{GENSTUBS}::{fi.qualname}::use::{ast.unparse(par)[:60] if par is not None else '?'}"
                (col.ok if okuse else col.bad)("C09.FLAG-SLICE", key, repo.loc(GENSTUBS, n), f"`{ast.unparse(par)[:80]}`",
                                               *([] if okuse else [f"{fi.qualname} uses the naming convention outside the name conversion"]))
    # inside the conversion the convention is only compared with PYTHON
    bad = []
    for n in ast.walk(cfi.node):
        if isinstance(n, ast.Name) and n.id == "naming_convention" and isinstance(n.ctx, ast.Load):
            par = repo.parent(n)
            if not (isinstance(par, ast.Compare) and "NamingConvention.PYTHON" in ast.unparse(par)):
                bad.append(n.lineno)
    (col.ok if not bad else col.bad)("C09.FLAG-SLICE", f"{GHELPER}::{CONV}::compared-with-PYTHON", repo.loc(GHELPER, cfi.node), "only compared with NamingConvention.PYTHON" if not bad else f"lines {bad}",
                                     *([] if not bad else ["the conversion uses the convention for more than the PYTHON test"]))
    if n_uses < 15:
        raise AnalysisError(f"only {n_uses} uses of self.naming_convention found")

    # ------------------------------------------------------------------ ANNOT-IFF-DIFF
    em = EmitModel(ctx)

    def annot_check(fname: str, mod: str, label: str, paths: list[tuple[tuple, list[AV]]], origin_pred, pymodule: bool = False) -> None:
        """paths: (facts, output values).  For the origin N: annotation present <=> fact 'N == convert(N)' is False."""
        probs = []
        n = 0
        for facts, values in paths:
            origins = set()
            annots = set()
            for v in values:
                for x in walk_av(v):
                    if isinstance(x, App) and x.func == CONV and x.args and origin_pred(x.args[0]):
                        origins.add(repr(x.args[0]))
                    if isinstance(x, App) and x.func == ANNOT and x.args and origin_pred(x.args[0]):
                        annots.add(repr(x.args[0]))
                if pymodule:
                    txt = render(v)
                    if "@PythonModule(" in txt:
                        annots.add("@PythonModule")
            if pymodule and not any("package " in render(v) for v in values):
                continue  # text appended to an existing placeholder stub has no header
            for o in origins if not pymodule else ["path"]:
                cmp_facts = [(k, val) for k, val in facts if "==" in k and f"{CONV}(" in k and (pymodule or o in k)]
                if not cmp_facts:
                    probs.append("the annotation does not depend on a comparison of the converted with the original name")
                    continue
                n += 1
                k, val = cmp_facts[-1]
                if ESC in k:
                    probs.append("the comparison is made after keyword escaping (an escaped keyword always differs)")
                has = (o in annots) if not pymodule else bool(annots)
                if has != (val is False):
                    probs.append(f"annotation present={has} although converted==original is {val}")
        key = f"{mod}::{fname}::annotation::{label}"
        site = repo.loc(mod, em.funcs[fname].node)
        if probs or not n:
            col.bad("C09.ANNOT-IFF-DIFF", key, site, "; ".join(sorted(set(probs))) or "site not found",
                    f"{fname} ({label}): {(sorted(set(probs)) or ['no conversion of this name found'])[0]}")
        else:
            col.ok("C09.ANNOT-IFF-DIFF", key, site, f"{n} paths: annotation iff converted != original, compared before escaping")

    def fn_paths(fname: str) -> list[tuple[tuple, list[AV]]]:
        res = []
        for o in em.runs[fname]:
            if o.kind == "return":
                vals = list(o.value.items) if isinstance(o.value, ListV) and o.value.kind == "tuple" else [o.value]
                vals += [e.args[0] for e in o.effects if e.kind == "call" and e.target.endswith(".write") and e.args]
                res.append((o.facts, vals))
        return res

    def loop_paths(fname: str, itpred, elem: AV, args: dict) -> list[tuple[tuple, list[AV]]]:
        fi = em.funcs[fname]
        it = ctx.interp(fi)
        it.run_function(fi, args, gen_state())
        loops = find_loops(it, fi, itpred)
        if len(loops) != 1:
            return []
        node, _, el, entry = loops[0]
        res = []
        for o in run_body(it, node, entry.clone(), elem if elem is not None else el):
            vals = [e.args[0] for e in new_effects(o, entry) if e.kind == "mutate" and e.target.endswith(".append")]
            for name, v in o.env.items():
                if isinstance(v, StrT) and entry.env.get(name) != v:
                    vals.append(v)
            if vals:
                res.append((o.facts, vals))
        return res

    annot_check("_create_class_string", GEN, "class", fn_paths("_create_class_string"), lambda a: sym_is(a, "class_.name"))
    annot_check("_create_function_string", GEN, "function", fn_paths("_create_function_string"), lambda a: sym_is(a, "function.name"))
    annot_check("_create_property_function_string", GEN, "property", fn_paths("_create_property_function_string"), lambda a: sym_is(a, "function.name"))
    annot_check("_create_outside_package_class_text", GENSTUBS, "foreign class", fn_paths("_create_outside_package_class_text"), lambda a: sym_is(a, "class_name"))
    annot_check("_create_class_attribute_string", GEN, "attribute",
                loop_paths("_create_class_attribute_string", lambda v: sym_is(v, "attributes"),
                           Obj("Attribute", (("is_public", Const(True)), ("type", Const(None)), ("is_static", Const(False)), ("name", Sym("A.name")), ("docstring", Sym("A.docstring")))),
                           {"self": Sym("self"), "attributes": Sym("attributes"), "inner_indentations": Sym("ind")}),
                lambda a: sym_is(a, "A.name"))
    from .c06 import param_obj
    annot_check("_create_parameter_string", GEN, "parameter",
                loop_paths("_create_parameter_string", lambda v: sym_is(v, "parameters"), param_obj("P", type=Const(None)),
                           {"self": Sym("self"), "parameters": Sym("parameters"), "indentations": Sym("ind"), "is_instance_method": Const(False)}),
                lambda a: sym_is(a, "P.name"))
    annot_check("_create_enum_string", GEN, "enum member",
                loop_paths("_create_enum_string", lambda v: isinstance(v, Sym) and v.path.endswith("instances"), Obj("EnumInstance", (("name", Sym("E.name")),)),
                           {"self": Sym("self"), "enum_data": Sym("enum_data")}),
                lambda a: sym_is(a, "E.name"))
    annot_check("_create_module_string", GEN, "module path", fn_paths("_create_module_string"), lambda a: True, pymodule=True)
    # the re-export module header is built inside a nested loop: analyse the innermost loop body
    rfi = em.funcs["create_reexport_module_strings"]
    rit = ctx.interp(rfi)
    rit.run_function(rfi, {"self": Sym("self"), "out_path": Sym("out_path")}, gen_state())
    inner = [(n, *rit.loops[id(n)][0]) for n in ast.walk(rfi.node) if isinstance(n, ast.For) and id(n) in rit.loops and not any(isinstance(x, ast.For) and x is not n for x in ast.walk(n))]
    rp = []
    for node, itv, el, entry in inner:
        for o in run_body(rit, node, entry.clone(), el):
            vals = [v for name, v in o.env.items() if isinstance(v, StrT) and entry.env.get(name) != v]
            if vals:
                rp.append((o.facts, vals))
    annot_check("create_reexport_module_strings", GEN, "re-export module path", rp, lambda a: True, pymodule=True)
    annot_check("_create_outside_package_class", GENSTUBS, "foreign module path", fn_paths("_create_outside_package_class"), lambda a: True, pymodule=True)

    # ------------------------------------------------------------------ ROLE-PIPELINE / CLASS-MODE
    sites: dict[str, dict[str, tuple]] = {}  # role -> site label -> pipeline

    def record(role: str, label: str, h: AV) -> None:
        pipe, _ = pipeline_of(h)
        sites.setdefault(role, {}).setdefault(label, set()).add(pipe)

    for t in em.templates:
        fname = em.name_of(t.fi)
        for h, before, after in holes_ctx(t.value):
            pipe, origin = pipeline_of(h)
            o = repr(origin)
            if fname == "_create_class_string" and sym_is(origin, "class_.name"):
                record("class name", "declaration", h)
            elif fname == "_create_outside_package_class_text" and sym_is(origin, "class_name"):
                record("class name", "placeholder declaration", h)
            elif fname == "_create_imports_string" and o.startswith("[](import_.split"):
                record("class name", "import", h)
            elif fname == "_create_type_string" and sym_is(origin, "type_data['name']"):
                kinds = {v for k, v in t.facts if False}
                is_tv = any(ESC in repr(h) and CONV in repr(h) for _ in [0]) and "TypeVarType" in "".join(k for k, v in t.facts)
                record("type variable" if _is_typevar_template(t) else "class name", "type reference" if not _is_typevar_template(t) else "reference", h)
            elif fname == "_create_class_string" and "superclasses" in o:
                record("class name", "superclass reference", h)
            elif fname == "_create_class_string" and "type_parameters" in o and o.endswith(".name>"):
                record("type variable", "class declaration", h)
            elif fname == "_create_class_string" and "type_var_types" in o:
                record("type variable", "constructor declaration", h)
            elif fname == "_create_function_string" and "type_var_types" in o and o.endswith(".name>"):
                record("type variable", "function declaration", h)
            elif fname == "_create_function_string" and sym_is(origin, "function.name"):
                record("function name", "declaration", h)
            elif fname == "_create_property_function_string" and sym_is(origin, "function.name"):
                record("function name", "property declaration", h)
            elif fname == "_create_parameter_string" and o.endswith("[*].name>") and h is not None and isinstance(h, App) and h.func != ANNOT:
                record("parameter name", "declaration", h)
            elif fname == "_create_sds_docstring" and "parameter" in o and o.endswith(".name>"):
                record("parameter name", "@param line", h)
            elif fname == "_create_result_string" and o.endswith("[*].name>"):
                record("result name", "declaration", h)
    for role, by_site in sites.items():
        ref = None
        for label in ("declaration", "class declaration"):
            if label in by_site:
                ref = by_site[label]
        for label, pipes in by_site.items():
            key = f"{GEN}::role::{role}::{label}"
            conv = {p for pipe in pipes for p in pipe if p.startswith("convert")}
            want_mode = "convert[class]" if role == "class name" else "convert[other]"
            if label.startswith("@param"):
                good = conv == {want_mode}
                (col.ok if good else col.bad)("C09.ROLE-PIPELINE", key, repo.loc(GEN, None), f"pipelines {sorted(pipes)}", *([] if good else [f"{role} in the {label} is converted differently from its declaration"]))
                continue
            strip = lambda ps: {tuple(x for x in p if x != "escape") for p in ps}  # noqa: E731
            if ref is not None and strip(pipes) == strip(ref) and conv == {want_mode}:
                col.ok("C09.ROLE-PIPELINE", key, repo.loc(GEN, None), f"pipeline {sorted(pipes)} = declaration pipeline")
            else:
                col.bad("C09.ROLE-PIPELINE", key, repo.loc(GEN, None), f"pipeline {sorted(pipes)}; declaration uses {sorted(ref) if ref else None}",
                        f"the {role} is rendered through {sorted(pipes)} at the {label} but through {sorted(ref) if ref else '?'} where it is declared: "
                        f"with naming conversion on, the two spellings differ (the reference does not resolve)")
            mkey = f"{GEN}::mode::{role}::{label}"
            if conv and conv != {want_mode}:
                col.bad("C09.CLASS-MODE", mkey, repo.loc(GEN, None), f"{sorted(conv)}", f"{role} at the {label} is converted with {sorted(conv)}, expected {want_mode}")
            elif conv:
                col.ok("C09.CLASS-MODE", mkey, repo.loc(GEN, None), f"{sorted(conv)}")
    # ------------------------------------------------------------------ LOOKUP-SPELLING
    TABLE = "self.class_generics"
    cfi2 = repo.function(GEN, f"{GENCLS}._create_class_string")
    col.touched(cfi2)
    cit2 = ctx.interp(cfi2)
    couts = cit2.run_function(cfi2, {"self": Sym("self"), "class_": Sym("class_"), "class_indentation": Sym("ind")}, gen_state())

    def chain_of(text: str) -> tuple[str, ...]:
        return tuple(x for x, f in (("convert", CONV + "("), ("escape", ESC + "(")) if f in text)

    stored: dict[tuple[str, ...], str] = {}
    for o in couts:
        for e in o.effects:
            if e.kind == "mutate" and e.target == f"{TABLE}.append" and e.args:
                for h in (holes(e.args[0]) if isinstance(e.args[0], StrT) else [e.args[0]]):
                    if "name>" in repr(h):
                        stored.setdefault(chain_of(repr(h)), repr(h)[:90])
    if not stored:
        raise AnalysisError("no writer of the class type-parameter table found")
    ffi2 = repo.function(GEN, f"{GENCLS}._create_function_string")
    col.touched(ffi2)
    fit2 = ctx.interp(ffi2)
    st2 = gen_state()
    st2.env[TABLE] = Sym(TABLE)
    fit2.run_function(ffi2, {"self": Sym("self"), "function": Sym("function"), "indentations": Sym("ind"), "is_method": Const(True)}, st2)
    tl = find_loops(fit2, ffi2, lambda v: "type_var_types" in repr(v))
    if len(tl) != 1:
        raise AnalysisError("type variable loop of _create_function_string not found")
    tnode, _, _, tentry = tl[0]
    operands = set()
    for o in run_body(fit2, tnode, tentry.clone(), Sym("TV")):
        for k, _v in list(o.facts)[len(tentry.facts):]:
            if k.endswith(f" in <{TABLE}>"):
                operands.add(k[: -len(f" in <{TABLE}>")])
    if not operands:
        raise AnalysisError("no lookup in the class type-parameter table found in _create_function_string")
    full = ("convert", "escape")
    for opnd in sorted(operands):
        w = chain_of(opnd)
        key = f"{GEN}::{GENCLS}._create_function_string::lookup in {TABLE}"
        if w == full and full in stored:
            col.ok("C09.LOOKUP-SPELLING", key, repo.loc(GEN, tnode), f"a method's type variable is looked up as {list(w)}({opnd[-30:]}); the class declaration stores {sorted(map(list, stored))}")
        else:
            col.bad("C09.LOOKUP-SPELLING", key, repo.loc(GEN, tnode), f"looked up as `{opnd[:80]}` ({list(w) or 'raw Python name'}); stored spellings {sorted(map(list, stored))}",
                    f"a method's type variable is looked up in the class's type-parameter table under a spelling ({list(w) or 'the raw Python name'}) that differs from the converted and escaped "
                    f"spelling the class declaration stores: with naming conversion on the lookup fails for names the conversion changes (`_T`), so methods re-declare the class's type "
                    f"parameter only under that setting")
    # the constructor's type variables are stored without conversion: reported by C09.ROLE-PIPELINE (type variable::constructor declaration)
    col.ok("C09.LOOKUP-SPELLING", f"{GEN}::{GENCLS}._create_class_string::stored spellings", repo.loc(GEN, cfi2.node), f"writers of {TABLE}: {sorted(stored.values())}", nontrivial=True)

    col.extra["roles"] = {r: {l: sorted(map(str, p)) for l, p in s.items()} for r, s in sites.items()}
    from .shared import share
    share(ctx, col, "C17", {"C17.FILTER"}, "the same declarations are shown under both settings: the inherited-member filter compares Python names")
    from .shared import share
    share(ctx, col, "C17", {"C17.OWN-FIRST"}, "what a class records as its own member names does not depend on the naming convention (the emitted spelling is never compared with Python names)",
          key_filter=lambda o: "own-names-recorded" in o.key)
    col.assume("the string algorithm of the conversion (UpperCamel/lowerCamel for all identifiers) is a function over arbitrary strings and is not decided")


def _is_typevar_template(t) -> bool:
    return any("'TypeVarType'" in k for k, v in t.facts if v) or (isinstance(t.value, App) and t.value.func == ESC and CONV in repr(t.value) and "type_data['name']" in repr(t.value))
