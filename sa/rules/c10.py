"""C10 — stub files are laid out by module path inside the output directory."""
from __future__ import annotations

import ast
import re

from ..core.absint import AV, Alt, App, Const, ListV, Obj, Outcome, Rep, State, StrT, Sym, walk_av
from ..core.ctx import API_MOD, CLI, GEN, GENSTUBS, Ctx
from ..core.report import Collector
from ..core.source import AnalysisError
from .common import GENCLS, find_loops, fmt_facts, gen_state, mentions, new_effects, render, run_body, sym_is

FS_WRITERS = {"open", "touch", "mkdir", "makedirs", "write_text", "write_bytes", "unlink", "rmdir", "rmtree", "symlink_to", "dump", "copy", "copyfile", "move"}


def rooted(v: AV, root: str, allow_parent_of: bool = True) -> tuple[bool, str]:
    """Is the path value built from <root> only by '/'-joins, Path(...) wrappers, joinpath, and the accepted
    'drop the last segment' forms?  Returns (ok, explanation)."""
    if isinstance(v, Sym):
        if v.path == root or v.path.startswith(root + "[") or v.path in (root + ".parent",):
            return True, "root"
        return False, f"{v!r} is not derived from {root}"
    if isinstance(v, App):
        if v.func in ("Path", "call:Path") and len(v.args) == 1:
            a = v.args[0]
            # Path("/".join(X.parts[:-1]))  == X.parent
            if isinstance(a, StrT) and len(a.parts) == 1 and isinstance(a.parts[0], Rep) and a.parts[0].sep == Const("/"):
                alts = a.parts[0].alts
                if len(alts) == 1 and isinstance(alts[0], App) and alts[0].func == "elem" and isinstance(alts[0].args[0], App) and alts[0].args[0].func == "slice":
                    sl = alts[0].args[0]
                    base, lo, hi = sl.args
                    if lo == Const(None) and hi == Const(-1) and isinstance(base, (Sym, App)):
                        inner = base.args[0] if isinstance(base, App) and base.func == ".parts" and base.args else (Sym(base.path[:-6]) if isinstance(base, Sym) and base.path.endswith(".parts") else None)
                        if inner is not None:
                            return rooted(inner, root)
                return False, f"path rebuilt from parts in an unrecognised way: {a!r}"
            return rooted(a, root)
        if v.func == "Div" and len(v.args) == 2:
            return rooted(v.args[0], root)
        if v.func in (".joinpath",) and v.args:
            return rooted(v.args[0], root)
        if v.func == ".parent" and v.args:
            return rooted(v.args[0], root)
        if v.func == "with":
            return rooted(v.args[0], root)
        if v.func == ".open" and v.args:
            return rooted(v.args[0], root)
        return False, f"{v.func}(...) is not a '/'-join of {root}"
    if isinstance(v, Alt):
        rs = [rooted(a, root) for a in v.alts]
        bad = [r for r in rs if not r[0]]
        return (not bad, bad[0][1] if bad else "all alternatives rooted")
    return False, f"{v!r}"


def check(ctx: Ctx, col: Collector, tier: str) -> None:
    repo = ctx.repo
    col.spec("C10.WRITE-SINKS", "every file the tool writes lies inside the requested output directory", "inventory of file-system write calls; provenance of each written path", floor=8)
    col.spec("C10.API-NAME", "the API inventory is '<source-directory-name>__api.json' in the output directory", "template of the path handed to API.to_json_file", floor=1)
    col.spec("C10.SAME-ORIGIN", "a stub's directory spells the module path its header announces; the base name is the module without leading underscores",
             "both derive from one value / one pure call with identical arguments", floor=4)
    col.spec("C10.WRITE-MODE", "two different texts are never written to one path: module stubs are (over)written once; a placeholder file is created on the first class of a "
             "module in this run and appended to afterwards", "specialisation of the placeholder writer over (first creation, file exists); threading of the created-paths set", floor=5)

    # ------------------------------------------------------------------ WRITE-SINKS inventory
    expected_owners = {(API_MOD, "ensure_file_exists"), (API_MOD, "API.to_json_file"), (GENSTUBS, "create_stub_files"), (GENSTUBS, "_create_outside_package_class")}
    sinks = []
    for mi in repo.modules.values():
        for fi in mi.functions.values():
            for n in ast.walk(fi.node):
                if isinstance(n, ast.Call):
                    nm = n.func.attr if isinstance(n.func, ast.Attribute) else getattr(n.func, "id", "")
                    if nm in FS_WRITERS:
                        if nm == "open":
                            mode = n.args[0] if isinstance(n.func, ast.Attribute) and n.args else (n.args[1] if len(n.args) > 1 else None)
                            if not (isinstance(mode, ast.Constant) and isinstance(mode.value, str) and set(mode.value) & set("wax+")):
                                if not any(k.arg == "mode" for k in n.keywords):
                                    if mode is None:
                                        continue  # read-only open
                        if nm in ("replace", "remove") and not (isinstance(n.func, ast.Attribute) and "path" in ast.unparse(n.func.value).lower()):
                            continue  # str.replace / list.remove
                        if nm == "dump" and "json" not in ast.unparse(n.func):
                            continue
                        sinks.append((mi.rel, fi, n, nm))
    for rel, fi, n, nm in sinks:
        key = f"{rel}::{fi.qualname}::{nm}::{ast.unparse(n.func)[:40]}"
        col.touched(fi)
        if (rel, fi.qualname) in expected_owners:
            col.ok("C10.WRITE-SINKS", key, repo.loc(rel, n), f"file-system write `{ast.unparse(n)[:70]}` in a designated writer")
        else:
            col.bad("C10.WRITE-SINKS", key, repo.loc(rel, n), f"`{ast.unparse(n)[:90]}`", f"{fi.qualname} writes to the file system; only the API-file writer and the two stub writers may")
    # provenance of written paths
    sfi = repo.function(GENSTUBS, "create_stub_files")
    sit = ctx.interp(sfi)
    souts = sit.run_function(sfi, {"stubs_generator": Sym("stubs_generator"), "stubs_data": Sym("stubs_data"), "out_path": Sym("out_path")})
    probs = []
    nsink = 0
    for o in souts:
        for e in o.effects:
            if e.kind == "call" and e.target.split(".")[-1] in ("open", "touch", "mkdir"):
                recv_node = e.node.func.value if isinstance(e.node.func, ast.Attribute) else None
                if recv_node is None:
                    continue
                # value of the receiver: re-evaluate from the effect's recorded call (receiver is not stored): use env names
                name = ast.unparse(recv_node)
                val = o.env.get(name)
                if val is None and isinstance(recv_node, ast.Call):
                    continue
                if val is None:
                    continue
                nsink += 1
                okp, why = rooted(val, "stubs_data[*][0]")
                if not okp:
                    probs.append(f"{name} at line {e.node.lineno}: {why}")
    key = f"{GENSTUBS}::create_stub_files::paths-rooted-at-stub-dir"
    (col.ok if nsink and not probs else col.bad)("C10.WRITE-SINKS", key, repo.loc(GENSTUBS, sfi.node),
                                                 f"{nsink} written paths are the stub directory (or its parent for package modules) joined with the file name" if nsink and not probs else "; ".join(sorted(set(probs))) or "no sink",
                                                 *([] if nsink and not probs else [f"a stub file path is not derived from the directory computed for it: {(sorted(set(probs)) or ['no sink found'])[0]}"]))
    # the stub directories themselves: out_path / <module id>
    gfi = repo.function(GENSTUBS, "generate_stub_data")
    gouts = ctx.interp(gfi).run_function(gfi, {"stubs_generator": Sym("stubs_generator"), "out_path": Sym("out_path")})
    dirs = []
    for o in gouts:
        for x in walk_av(o.value):
            if isinstance(x, ListV) and x.kind == "tuple" and len(x.items) == 4:
                dirs.append(x.items[0])
    probs = [why for d in dirs for okp, why in [rooted(d, "out_path")] if not okp]
    (col.ok if dirs and not probs else col.bad)("C10.WRITE-SINKS", f"{GENSTUBS}::generate_stub_data::dir-rooted-at-out", repo.loc(GENSTUBS, gfi.node),
                                                f"{len(dirs)} stub directories = out_path / <module id>" if dirs and not probs else "; ".join(sorted(set(probs))) or "no tuple",
                                                *([] if dirs and not probs else ["a module stub directory is not out_path / <module id>"]))
    rfi = repo.function(GEN, f"{GENCLS}.create_reexport_module_strings")
    routs = ctx.interp(rfi).run_function(rfi, {"self": Sym("self"), "out_path": Sym("out_path")}, gen_state({"self.reexport_modules": Sym("self.reexport_modules")}))
    rdirs = [x.items[0] for o in routs for x in walk_av(o.value) if isinstance(x, ListV) and x.kind == "tuple" and len(x.items) == 4]
    probs = [why for d in rdirs for okp, why in [rooted(d, "out_path")] if not okp]
    (col.ok if rdirs and not probs else col.bad)("C10.WRITE-SINKS", f"{GEN}::{GENCLS}.create_reexport_module_strings::dir-rooted-at-out", repo.loc(GEN, rfi.node),
                                                 f"{len(rdirs)} re-export stub directories = out_path / <module id>" if rdirs and not probs else "; ".join(sorted(set(probs))) or "no tuple",
                                                 *([] if rdirs and not probs else ["a re-export stub directory is not out_path / <module id>"]))
    pfi = repo.function(GENSTUBS, "_create_outside_package_class")
    pouts = ctx.interp(pfi).run_function(pfi, {"class_path": Sym("class_path"), "out_path": Sym("out_path"), "naming_convention": Sym("nc"), "created_module_paths": Sym("created")})
    probs, n = [], 0
    for o in pouts:
        for name in ("module_dir", "file_path"):
            v = o.env.get(name)
            if v is not None:
                n += 1
                okp, why = rooted(v, "out_path")
                if not okp:
                    probs.append(f"{name}: {why}")
    (col.ok if n and not probs else col.bad)("C10.WRITE-SINKS", f"{GENSTUBS}::_create_outside_package_class::paths-rooted-at-out", repo.loc(GENSTUBS, pfi.node),
                                             "placeholder directory and file are out_path / <module path> [/ <module>.sdsstub]" if n and not probs else "; ".join(sorted(set(probs))),
                                             *([] if n and not probs else ["a placeholder stub path is not rooted at the output directory"]))

    # ------------------------------------------------------------------ API-NAME
    cfi = repo.function(CLI, "_run_stub_generator")
    col.touched(cfi)
    couts = ctx.interp(cfi).run_function(cfi, {"src_dir_path": Sym("src"), "out_dir_path": Sym("out")})
    paths = {repr(e.args[0]) for o in couts for e in o.effects if e.kind == "call" and e.target.endswith(".to_json_file") and e.args}
    # the whole name of the source directory (Path.name; Path.stem would cut a name like 'mylib-2.31.0' at its last dot)
    good = len(paths) == 1 and all(re.fullmatch(r"\.joinpath\(<out>, f'\{<src\.name>\}__api\.json'\)|Div\(<out>, f'\{<src\.name>\}__api\.json'\)", p) for p in paths)
    (col.ok if good else col.bad)("C10.API-NAME", f"{CLI}::_run_stub_generator::api-file", repo.loc(CLI, cfi.node), f"{sorted(paths)}",
                                  *([] if good else [f"the API file path is {sorted(paths)}, not out / '<source-directory-name>__api.json'"]))
    resolved = repo.function(CLI, "cli")
    src = ast.unparse(resolved.node).replace(" ", "")
    good = "src_dir_path=args.src.resolve()" in src and "out_dir_path=args.out.resolve()" in src
    (col.ok if good else col.bad)("C10.API-NAME", f"{CLI}::cli::paths-resolved", repo.loc(CLI, resolved.node), "src and out are resolve()d at the CLI boundary" if good else "not resolved",
                                  *([] if good else ["the source/output paths are not resolved before use: relative spellings change the output location or the API file name"]))

    # ------------------------------------------------------------------ SAME-ORIGIN
    mfi = repo.function(GEN, f"{GENCLS}._create_module_string")

    def reexport_call_shapes(fi) -> set[str]:
        res = set()
        for n in ast.walk(fi.node):
            if isinstance(n, ast.Call) and getattr(n.func, "id", "") == "_get_shortest_public_reexport":
                kw = {}
                for k in n.keywords:
                    # the arguments are compared by value on a sample module (`".".join(id.split("/"))` and `id.replace("/", ".")` are the same argument)
                    mod = Obj("Module", (("name", Const("utils")), ("id", Const("pkg/sub/utils"))))
                    api = Obj("API", (("reexport_map", Sym("api.reexport_map")),))
                    st = State({"module": mod, "api": api, "self": Sym("self"), "self.api": api, "stubs_generator": Sym("self"), "stubs_generator.api": api})
                    try:
                        vals = {repr(v) for v, _ in ctx.interp(fi).eval(k.value, st)}
                    except Exception:  # noqa: BLE001
                        vals = set()
                    kw[k.arg] = sorted(vals)[0] if len(vals) == 1 else ast.unparse(k.value).replace("stubs_generator.", "self.").replace("self.api", "api")
                res.add(repr(sorted(kw.items())))
        return res
    a, b = reexport_call_shapes(mfi), reexport_call_shapes(gfi)
    good = len(a) == 1 and a == b
    (col.ok if good else col.bad)("C10.SAME-ORIGIN", f"{GENSTUBS}::generate_stub_data::same-shortest-path-call", repo.loc(GENSTUBS, gfi.node),
                                  f"directory and header both use _get_shortest_public_reexport with {sorted(a)}" if good else f"header: {sorted(a)}; directory: {sorted(b)}",
                                  *([] if good else ["the stub directory and the package header are computed by different shortest-re-export queries"]))
    # module id fallback = package_info returned by the generator with '.' -> '/'
    ids = set()
    for o in gouts:
        for x in walk_av(o.value):
            if isinstance(x, ListV) and x.kind == "tuple" and len(x.items) == 4:
                ids.add(repr(x.items[0]))
    good = any("stubs_generator" in i and ".replace(" in i for i in ids)
    (col.ok if good else col.bad)("C10.SAME-ORIGIN", f"{GENSTUBS}::generate_stub_data::dir-from-announced-package", repo.loc(GENSTUBS, gfi.node),
                                  "without a re-export the directory is the announced package path with '.' replaced by '/'" if good else f"{sorted(ids)[:2]}",
                                  *([] if good else ["the stub directory is not derived from the package path the generator announces"]))
    # file name
    names = set()
    for o in souts:
        for e in o.effects:
            if e.kind == "call" and e.target.endswith(".open"):
                v = o.env.get("file_path")
                if v is not None:
                    names.add(repr(v))
    good = bool(names) and all(re.search(r"f'\{\.lstrip\(<stubs_data\[\*\]\[1\]>, '_'\)\}\.sdsstub'", n_) for n_ in names)
    (col.ok if good else col.bad)("C10.SAME-ORIGIN", f"{GENSTUBS}::create_stub_files::file-name", repo.loc(GENSTUBS, sfi.node),
                                  "file name = module name without leading underscores + '.sdsstub'" if good else f"{sorted(names)[:2]}",
                                  *([] if good else ["the stub file name is not '<module name without leading underscores>.sdsstub'"]))
    # package modules drop exactly the last segment
    pk = set()
    for o in souts:
        v = o.env.get("corrected_module_dir")
        if v is not None:
            pk.add(repr(v))
    good = any("slice(<stubs_data[*][0].parts>, None, -1)" in p or "<stubs_data[*][0].parent>" in p for p in pk) and any("<stubs_data[*][0]>" in p for p in pk) and not any(
        re.search(r"slice\(<stubs_data\[\*\]\[0\]\.parts>, (?!None, -1)", p) or ".anchor" in p for p in pk)
    (col.ok if good else col.bad)("C10.SAME-ORIGIN", f"{GENSTUBS}::create_stub_files::package-module-dir", repo.loc(GENSTUBS, sfi.node),
                                  "package modules use the directory without its last segment, other modules the directory itself" if good else f"{sorted(pk)}",
                                  *([] if good else ["the directory correction for re-export (package) modules is not 'drop exactly the last segment'"]))
    # re-export header and directory use the same module id
    heads = set()
    for o in routs:
        for x in walk_av(o.value):
            if isinstance(x, ListV) and x.kind == "tuple" and len(x.items) == 4:
                d, _, text, _ = x.items
                heads.add(("self._get_module_id()" in repr(d), "self._get_module_id()" in repr(text)))
    good = heads == {(True, True)}
    (col.ok if good else col.bad)("C10.SAME-ORIGIN", f"{GEN}::{GENCLS}.create_reexport_module_strings::same-module-id", repo.loc(GEN, rfi.node),
                                  "directory and package header of a re-export stub derive from the same _get_module_id() value" if good else f"{heads}",
                                  *([] if good else ["directory and header of a re-export stub derive from different values"]))

    # ------------------------------------------------------------------ WRITE-MODE
    col.touched(pfi)
    for first in (True, False):
        created = ListV(() if first else (Const("lib/mod"),), False, "set")
        it = ctx.interp(pfi)
        outs = it.run_function(pfi, {"class_path": Const("lib.mod.Cls"), "out_path": Sym("out_path"), "naming_convention": Sym("nc"), "created_module_paths": created})
        for exists in (True, False):
            modes = set()
            headers = set()
            for o in outs:
                ex = [v for k, v in o.facts if "exists" in k]
                if ex and ex[-1] != exists:
                    continue
                for e in o.effects:
                    if e.kind == "call" and e.target.endswith(".open") and e.args:
                        modes.add(e.args[0].v if isinstance(e.args[0], Const) else repr(e.args[0]))
                    if e.kind == "call" and e.target.endswith(".write") and e.args:
                        headers.add("package " in render(e.args[0]))
            want_mode = "w" if (first or not exists) else "a"
            key = f"{GENSTUBS}::_create_outside_package_class::mode::first={first},exists={exists}"
            if modes == {want_mode} and headers == {want_mode == "w"}:
                col.ok("C10.WRITE-MODE", key, repo.loc(GENSTUBS, pfi.node), f"open({want_mode!r}), header written={want_mode == 'w'}")
            else:
                col.bad("C10.WRITE-MODE", key, repo.loc(GENSTUBS, pfi.node), f"modes {sorted(modes)}, header {sorted(headers)}; reference mode {want_mode!r}",
                        f"placeholder stub (first class of its module in this run={first}, file already exists={exists}) is opened with {sorted(modes)} / header={sorted(headers)}; "
                        f"expected mode {want_mode!r}: " + ("a file left by an earlier run must be overwritten, not appended to" if first else "classes of one module must be appended, not overwrite each other"))
        # the module path is recorded in the returned set
        good = bool(outs) and all(o.kind == "return" and isinstance(o.value, ListV) and Const("lib/mod") in o.value.items for o in outs)
        (col.ok if good else col.bad)("C10.WRITE-MODE", f"{GENSTUBS}::_create_outside_package_class::records-path::first={first}", repo.loc(GENSTUBS, pfi.node),
                                      "the module path is a member of the returned created-paths set" if good else f"{[repr(o.value)[:60] for o in outs][:2]}",
                                      *([] if good else ["the created module path is not recorded, so the next class of the module overwrites the file"]))
    # threading of the set through the caller's loop
    ploops = find_loops(sit, sfi, lambda v: "classes_outside_package" in repr(v))
    good = False
    if len(ploops) == 1:
        node, itv, el, entry = ploops[0]
        init = entry.env.get("created_module_paths")
        body = run_body(sit, node, entry.clone(), el)
        good = isinstance(init, ListV) and not init.items and not init.open and bool(body)
        for o in body:
            calls = [e for e in new_effects(o, entry) if e.kind == "call" and e.target == "_create_outside_package_class"]
            if len(calls) != 1 or calls[0].args[-1] != init or not (isinstance(o.env.get("created_module_paths"), App) and o.env["created_module_paths"].func == "_create_outside_package_class"):
                good = False
    (col.ok if good else col.bad)("C10.WRITE-MODE", f"{GENSTUBS}::create_stub_files::created-paths-threaded", repo.loc(GENSTUBS, sfi.node),
                                  "the created-paths set holds nothing but paths written in this run and each call receives the set returned by the previous call" if good else "threading not recognised",
                                  *([] if good else ["the set of already created placeholder files is not threaded from one class to the next (files are overwritten or appended wrongly)"]))
    # the module stubs written in this run are registered in the same set, so that a placeholder never truncates one of them
    mloops = find_loops(sit, sfi, lambda v: sym_is(v, "stubs_data"))
    registered = False
    if len(mloops) == 1:
        mnode, _, mel, mentry = mloops[0]
        # both kinds of stub can have the path of a placeholder stub (<dir>/<dir name>.sdsstub): the stub of a module, and the stub of a
        # re-exported declaration that is named like the re-exporting package
        per_kind = {}
        unconditional = []
        for is_pkg in (False, True):
            el = ListV((Sym("module_dir"), Sym("module_name"), Sym("module_text"), Const(is_pkg)), kind="tuple")
            per_kind[is_pkg] = False
            for o in run_body(sit, mnode, mentry.clone(), el):
                adds = [e for e in new_effects(o, mentry) if e.kind in ("mutate", "call") and e.target == "created_module_paths.add"]
                if adds and any("out_path" in repr(a.args[0]) for a in adds if a.args):
                    per_kind[is_pkg] = True
                for a in adds:
                    # registering a directory says "the file <dir>/<dir name>.sdsstub was written in this run": only true when the written file has that name
                    if not any(v and ".stem" in k and ".name" in k and "==" in k for k, v in a.conds):
                        unconditional.append(a)
        registered = all(per_kind.values())
        okc = not unconditional
        (col.ok if okc else col.bad)("C10.WRITE-MODE", f"{GENSTUBS}::create_stub_files::registration-names-the-written-file", repo.loc(GENSTUBS, unconditional[0].node if unconditional else sfi.node),
                                     "a directory is registered only when the file written into it is <dir>/<dir name>.sdsstub" if okc else f"`{ast.unparse(unconditional[0].node)[:70]}` is not under a test that the written file is named like its directory",
                                     *([] if okc else ["a directory is registered as 'its placeholder file was written in this run' for every stub written into it (e.g. the stub of a re-exported declaration): the placeholder "
                                                       "stub of that directory, left by an earlier run, is then appended to instead of rewritten - a second run into the same output directory declares the placeholder classes twice"]))
    (col.ok if registered else col.bad)("C10.WRITE-MODE", f"{GENSTUBS}::create_stub_files::module-stubs-registered", repo.loc(GENSTUBS, sfi.node),
                                        "the path of a written module stub (relative to the output directory) is added to the created-paths set the placeholder writer consults" if registered
                                        else "no registration of module stub paths",
                                        *([] if registered else ["the stub of a module is not registered as written: the placeholder stub of something taken for a class of another package (a NewType declared "
                                                                 "in that module) has the same path, is opened with 'w' and replaces the module's declarations"]))
    # a module that a package re-exports as a whole is written under that package: the look-up has to identify the module, not only its last name
    # (two sub-packages with a module `utils` each would otherwise be written to one path)
    gsd = repo.function(GENSTUBS, "generate_stub_data")
    col.touched(gsd)
    reloc = [n for n in ast.walk(gsd.node) if isinstance(n, ast.Call) and getattr(n.func, "id", "") == "_get_shortest_public_reexport"
             and any(k.arg == "is_module" and isinstance(k.value, ast.Constant) and k.value.value is True for k in n.keywords)]
    for n in reloc:
        qn = next((k.value for k in n.keywords if k.arg == "qname"), None)
        identifies = qn is not None and not isinstance(qn, ast.Constant) and any(isinstance(x, ast.Attribute) and x.attr in ("id", "qname", "fullname") for x in ast.walk(qn))
        (col.ok if identifies else col.bad)("C10.WRITE-MODE", f"{GENSTUBS}::generate_stub_data::module-relocation-names-the-module", repo.loc(GENSTUBS, n),
                                            "the relocation look-up receives the module's id" if identifies else f"qname={ast.unparse(qn) if qn is not None else None}: the module is looked up by its last name only",
                                            *([] if identifies else ["a module re-exported as a whole is identified by its bare name: with `pkg/a/__init__.py: from . import utils`, `pkg/a/utils.py` and "
                                                                     "`pkg/b/utils.py` both stubs are written to pkg/a/utils.sdsstub - the functions of pkg.a.utils are lost and those of pkg.b.utils appear under `package pkg.a`"]))

    # module stubs are opened "w"
    modes = {e.args[0].v for o in souts for e in o.effects if e.kind == "call" and e.target.endswith(".open") and e.args and isinstance(e.args[0], Const)}
    (col.ok if modes == {"w"} else col.bad)("C10.WRITE-MODE", f"{GENSTUBS}::create_stub_files::module-stub-mode", repo.loc(GENSTUBS, sfi.node), f"module stubs opened with {sorted(modes)}",
                                            *([] if modes == {"w"} else ["module stubs are not opened in write mode: a second run appends to the first run's files"]))
    col.assume("that two different modules never map to one path, and the segment spelling for re-exported declarations, are string arithmetic over arbitrary ids and not decided")
    col.extra["ambient_writes_observed"] = "mypy.build creates .mypy_cache in the working directory (third-party side effect, outside the property's files)"
