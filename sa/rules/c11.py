"""C11 — every referenced class is declared or imported, and every import resolves."""
from __future__ import annotations

import ast
import builtins as _pybuiltins
import re

from ..core.absint import AV, Alt, App, Const, DictV, ListV, Obj, Outcome, Rep, State, StrT, Sym, walk_av
from ..core.ctx import GEN, GENSTUBS, Ctx
from ..core.report import Collector
from ..core.source import AnalysisError
from .c05 import run_type_string
from .common import GENCLS, find_loops, fmt_facts, gen_state, mentions, new_effects, render, run_body, sym_is
from .emitmodel import CONV, ESC, EmitModel, holes_ctx

ADD = "self._add_to_imports"


def _norm_key(lam: ast.Lambda, id_forms: tuple[str, ...], alias_forms: tuple[str, ...]) -> tuple[str, ...]:
    """Sort key as a tuple of components over ID, alias components dropped."""
    arg = lam.args.args[0].arg
    body = lam.body
    comps = body.elts if isinstance(body, ast.Tuple) else [body]
    out = []
    for c in comps:
        t = ast.unparse(c)
        for f in alias_forms:
            t = t.replace(f.format(a=arg), "ALIAS")
        for f in id_forms:
            t = t.replace(f.format(a=arg), "ID")
        if "ALIAS" in t and "ID" not in t:
            continue
        out.append(t)
    return tuple(out)


def move_import_agreement(ctx: Ctx, col: Collector) -> None:
    from ..core.ctx import GHELPER, VISITOR
    repo = ctx.repo
    RULE = "C11.MOVE-IMPORT-AGREE"
    mfi = repo.function(GEN, f"{GENCLS}._has_node_shorter_reexport")
    sfi = repo.function(GHELPER, "_get_shortest_public_reexport")
    col.touched(mfi)
    col.touched(sfi)

    def argmin_loop(fi, over_pred):
        for n in ast.walk(fi.node):
            if isinstance(n, ast.For) and over_pred(n.iter):
                cmps = [c for c in ast.walk(n) if isinstance(c, ast.Compare) and len(c.ops) == 1 and isinstance(c.ops[0], (ast.Lt, ast.LtE, ast.Gt, ast.GtE)) and "len(" in ast.unparse(c)]
                return n, cmps
        return None, []
    mloop, mcmps = argmin_loop(mfi, lambda it: "reexported_by" in ast.unparse(it))
    sloop, scmps = argmin_loop(sfi, lambda it: "module_ids" in ast.unparse(it))
    # the import side may also select with min(candidates, key=lambda it: (depth, id, alias)): min keeps the first minimal entry, so it is the
    # argmin loop over the candidates sorted by the rest of the key - provided the first component counts path segments like the move does
    smin = None
    if sloop is None:
        for n in ast.walk(sfi.node):
            if isinstance(n, ast.Call) and getattr(n.func, "id", "") == "min" and n.args and "module_ids" in ast.unparse(n.args[0]):
                lam = next((k.value for k in n.keywords if k.arg == "key" and isinstance(k.value, ast.Lambda)), None)
                if lam is not None and isinstance(lam.body, ast.Tuple) and len(lam.body.elts) >= 2:
                    smin = (n, lam)
    if mloop is None or len(mcmps) != 1 or (smin is None and (sloop is None or len(scmps) != 1)):
        raise AnalysisError("the two shortest-re-export selections were not found (loop over node.reexported_by / over module_ids with one depth comparison, or min() with a key)")
    if smin is not None:
        n, lam = smin
        first = ast.unparse(lam.body.elts[0])
        counts_segments = any(t in first for t in (".split('/')", '.split("/")', ".count('/')", '.count("/")'))
        (col.ok if counts_segments else col.bad)(RULE, f"{sfi.module}::{sfi.qualname}::first-of-minimal-depth", repo.loc(sfi.module, n), f"min() ranks by `{first}`",
                                                 *([] if counts_segments else [f"{sfi.qualname} ranks the re-exporting packages by `{first}`, which is not the number of path segments the move compares: "
                                                                               f"for a class re-exported by `plot_pkg/core` and `plot_pkg/io` the stub is written into package plot_pkg.core (first of minimal depth) "
                                                                               f"while imports name plot_pkg.io (shortest string); no stub declares that package"]))
    # (1) both keep the first entry of minimal depth (strict comparison)
    for label, fi, c in (("move", mfi, mcmps[0]),) + ((("import", sfi, scmps[0]),) if smin is None else ()):
        strict = isinstance(c.ops[0], (ast.Lt, ast.Gt))
        (col.ok if strict else col.bad)(RULE, f"{fi.module}::{fi.qualname}::first-of-minimal-depth", repo.loc(fi.module, c), f"`{ast.unparse(c)[:70]}`",
                                        *([] if strict else [f"{fi.qualname} replaces its candidate on equal depth (`{ast.unparse(c)[:60]}`): among re-exporting packages of the same depth it keeps the last one "
                                                             f"while the other selection keeps the first; the declaration is declared in one package and imported from another"]))
    # (2) both walk their candidates in the same order
    skey = None
    if smin is not None:
        rest = ast.Lambda(args=smin[1].args, body=ast.Tuple(elts=smin[1].body.elts[1:], ctx=ast.Load()))
        skey = _norm_key(rest, ("{a}[0]",), ("{a}[1]",))
    elif isinstance(sloop.iter, ast.Call) and getattr(sloop.iter.func, "id", "") == "sorted":
        lam = next((k.value for k in sloop.iter.keywords if k.arg == "key" and isinstance(k.value, ast.Lambda)), None)
        skey = _norm_key(lam, ("{a}[0]",), ("{a}[1]",)) if lam else ("ID", "ALIAS")
    mkeys = []
    vm = repo.module(VISITOR)
    for fi in vm.functions.values():
        for n in ast.walk(fi.node):
            lam = None
            if isinstance(n, ast.Call) and isinstance(n.func, ast.Attribute) and n.func.attr == "sort" and "reexported_by" in ast.unparse(n.func.value):
                lam = next((k.value for k in n.keywords if k.arg == "key" and isinstance(k.value, ast.Lambda)), None)
                mkeys.append((fi, n, _norm_key(lam, ("{a}.id",), ()) if lam else ("?",)))
            elif isinstance(n, ast.Call) and getattr(n.func, "id", "") == "sorted" and n.args and "reexported_by" in ast.unparse(n.args[0]):
                lam = next((k.value for k in n.keywords if k.arg == "key" and isinstance(k.value, ast.Lambda)), None)
                mkeys.append((fi, n, _norm_key(lam, ("{a}.id",), ()) if lam else ("?",)))
    if not mkeys or skey is None:
        raise AnalysisError("the order of node.reexported_by / of the import candidates is not established by a sort with a key")
    # (3) the import is redirected to a re-exporting package only when the declaration is moved there: the move needs a strictly shorter path
    afi = repo.function(GEN, f"{GENCLS}._add_to_imports")
    col.touched(afi)
    redirects = [n for n in ast.walk(afi.node) if isinstance(n, ast.If) and any(isinstance(x, ast.Assign) and "shortest_qname" in ast.unparse(x.value) for x in n.body)]
    if len(redirects) != 1:
        raise AnalysisError(f"{len(redirects)} redirections of an import to the shortest re-export found in _add_to_imports, 1 expected")
    depth_tested = any(isinstance(c, ast.Compare) and "len(" in ast.unparse(c) for c in ast.walk(redirects[0].test))
    (col.ok if depth_tested else col.bad)(RULE, f"{GEN}::{GENCLS}._add_to_imports::redirect-only-if-shorter", repo.loc(GEN, redirects[0]), f"`if {ast.unparse(redirects[0].test)[:60]}:`",
                                          *([] if depth_tested else ["an import is redirected to the shortest re-exporting package whenever there is one, while the declaration is only moved to a package whose path is "
                                                                     "strictly shorter than its module's: `mypkg/api/__init__.py: from ..impl import Thing` keeps `class Thing` in `mypkg.impl` but other stubs say "
                                                                     "`from mypkg.api import Thing`"]))
    # (4) the same kinds of declarations are moved and redirected
    redirected = set()
    for n in ast.walk(afi.node):
        if isinstance(n, ast.For) and any(x is redirects[0] for x in ast.walk(n)):
            redirected |= {k for k in ("classes", "enums", "functions") if f"self.api.{k}" in ast.unparse(n.iter)}
    moved = set()
    gm = repo.module(GEN)
    for fi in gm.functions.values():
        for n in ast.walk(fi.node):
            if isinstance(n, ast.Call) and ast.unparse(n.func) == "self._has_node_shorter_reexport":
                # the emitters decide for the declaration they are about to render
                moved |= {k for k, pat in (("classes", "_create_class_string"), ("enums", "_create_enum_string"), ("functions", "_create_function_string")) if fi.qualname.endswith(pat)}
    only_redirected = sorted(redirected - moved)
    (col.ok if not only_redirected else col.bad)(RULE, f"{GEN}::{GENCLS}._add_to_imports::kinds-moved-and-redirected", repo.loc(GEN, afi.node), f"moved: {sorted(moved)}; imports redirected for: {sorted(redirected)}",
                                                 *([] if not only_redirected else [f"imports of {only_redirected} are redirected to the re-exporting package although {only_redirected} are never moved there: "
                                                                                   f"`mypkg/__init__.py: from .colors import Color` (an Enum) keeps `enum Color` in `mypkg.colors` but other stubs say `from mypkg import Color`"]))
    # (5) both selections choose among the same candidates
    same_source = "reexported_by" in ast.unparse(sfi.node) or any("reexported_by" in ast.unparse(a) for n in ast.walk(afi.node) if isinstance(n, ast.Call) and getattr(n.func, "id", "") == "_get_shortest_public_reexport"
                                                                  for a in list(n.args) + [k.value for k in n.keywords])
    (col.ok if same_source else col.bad)(RULE, f"{GHELPER}::_get_shortest_public_reexport::same-candidates", repo.loc(GHELPER, sfi.node),
                                         "the import candidates are the declaration's own re-exporters" if same_source else "move: node.reexported_by (path-based look-up of the qualified name); import: name matching over api.reexport_map",
                                         *([] if same_source else ["the package a declaration is moved to is chosen among `node.reexported_by` (re-export keys found along its qualified name), the package its imports name among all "
                                                                   "re-export keys that match its *name*: for a chained re-export (`mypkg/__init__: from .sub import Widget`, `mypkg/sub/__init__: from ._widget import Widget`) "
                                                                   "the class is declared in `mypkg.sub` and imported `from mypkg import Widget`"]))
    # (6) "defined in this module" suppresses the import; a declaration that was moved to a re-exporting package is not declared here any more
    consults_move = any(t in ast.unparse(afi.node) for t in ("reexported_by", "_has_node_shorter_reexport", "reexport_modules"))
    (col.ok if consults_move else col.bad)(RULE, f"{GEN}::{GENCLS}._add_to_imports::same-module-suppression-knows-the-move", repo.loc(GEN, afi.node),
                                           "the same-module test looks at where the declaration was written" if consults_move else "the import is suppressed for every qualified name below the current module id; the move is not consulted",
                                           *([] if consults_move else ["a class that is moved to a re-exporting package is still treated as 'declared here' by its defining module: `mypkg/sub/__init__.py: from mypkg.sub.deep.impl import Node` "
                                                                       "moves `class Node` to package mypkg.sub, and `class Tree: root: Node` in mypkg/sub/deep/impl.py uses Node without declaring or importing it"]))
    # (7) a module that is relocated as a whole (`from .core import gears`) takes its classes with it
    from ..core.ctx import GENSTUBS as _GS
    gsd = repo.function(_GS, "generate_stub_data")
    relocates_modules = any(isinstance(n, ast.Call) and getattr(n.func, "id", "") == "_get_shortest_public_reexport" and any(k.arg == "is_module" and isinstance(k.value, ast.Constant) and k.value.value is True for k in n.keywords)
                            for n in ast.walk(gsd.node))
    imports_follow = any(isinstance(n, ast.Call) and getattr(n.func, "id", "") == "_get_shortest_public_reexport" and any(k.arg == "is_module" and not (isinstance(k.value, ast.Constant) and k.value.value is False) for k in n.keywords)
                         for n in ast.walk(afi.node))
    good7 = (not relocates_modules) or imports_follow
    (col.ok if good7 else col.bad)(RULE, f"{GEN}::{GENCLS}._add_to_imports::module-relocation-reflected", repo.loc(GEN, afi.node),
                                   "imports follow relocated modules" if good7 else "generate_stub_data relocates whole modules (is_module=True); _add_to_imports only asks for re-exported classes (is_module=False)",
                                   *([] if good7 else ["the stub of a module re-exported as a whole (`mypkg/__init__.py: from .core import gears`) is written as `package mypkg` (mypkg/gears.sdsstub), while imports of its "
                                                       "classes keep the module path (`from mypkg.core.gears import Gear`): no stub declares package mypkg.core.gears"]))
    for fi, n, k in mkeys:
        same = k == skey
        (col.ok if same else col.bad)(RULE, f"{VISITOR}::{fi.qualname}::reexported_by-order", repo.loc(VISITOR, n), f"re-exporters ordered by {k}; import candidates ordered by {skey}",
                                      *([] if same else [f"{fi.qualname} orders the re-exporting modules of a declaration by {k}, while _get_shortest_public_reexport walks its candidates ordered by {skey}: for a "
                                                         f"declaration re-exported by two packages of the same depth the stub is written into one package and the imports name the other"]))


def check(ctx: Ctx, col: Collector, tier: str) -> None:
    repo = ctx.repo
    col.spec("C11.REF-IMPORT", "every class name used as a type or superclass registers an import for the same class on that path",
             "must-call analysis per type kind / superclass branch", floor=4)
    col.spec("C11.EXEMPT-MAP", "names exempt from import bookkeeping are exactly those rendered as Safe-DS built-ins",
             "specialisation of _add_to_imports and of the leaf table over Python's builtin class names", floor=1)
    col.spec("C11.SAME-MODULE", "an import is suppressed only for classes defined in the current module (segment-exact comparison)",
             "specialisation of _add_to_imports over module-path relations", floor=4)
    col.spec("C11.FOREIGN-PAIR", "a class of another library is imported and gets a placeholder stub", "paired effects on every path of _add_to_imports; one placeholder per member", floor=2)
    col.spec("C11.EMITTED-TARGET", "an import (and the type or superclass reference it serves) names a class that some stub declares: classes the generator does not emit are not imported, "
             "and the package part of an import is a module path", "emission guards of the class loops vs. the flags the import bookkeeping consults; shape of the registered qualified name for nested classes", floor=3)
    col.spec("C11.IMPORT-PATH", "the package an import names is spelled like the package line of the stub that declares it",
             "comparison of the conversion applied to module paths at the four sites", floor=4)
    col.spec("C11.MOVE-IMPORT-AGREE", "the package a re-exported declaration is moved to and the package its imports name are chosen by two procedures that make the same choice: "
             "both take the first entry of minimal depth of a sequence ordered by the same key", "cross-check of the two argmin loops: comparison operator, iteration order (sort keys)", floor=3)
    col.spec("C11.IMPORT-RENDER", "every registered import becomes one import line", "shape of _create_imports_string", floor=2)
    move_import_agreement(ctx, col)

    gfi = repo.function(GEN, f"{GENCLS}._create_type_string")
    col.touched(gfi)
    # ------------------------------------------------------------------ REF-IMPORT
    for kind in ("NamedType", "NamedSequenceType"):
        outs = run_type_string(ctx, kind)
        probs = []
        n = 0
        for o in outs:
            if o.kind != "return":
                continue
            refs = [x for x in walk_av(o.value) if isinstance(x, Sym) and x.path == "type_data['name']"]
            if not refs:
                continue  # builtin leaf
            n += 1
            imps = [e for e in o.effects if e.kind == "call" and e.target == ADD]
            if not any(e.args and e.args[0] == Sym("type_data['qname']") for e in imps):
                probs.append(f"the class name is emitted but no import is registered for type_data['qname'] ({fmt_facts(o.facts)[:80]})")
        key = f"{GEN}::{GENCLS}._create_type_string::{kind}::import"
        (col.ok if n and not probs else col.bad)("C11.REF-IMPORT", key, repo.loc(GEN, gfi.node), f"{n} paths emit the class name, each after _add_to_imports(type_data['qname'])" if n and not probs else "; ".join(sorted(set(probs))) or "no path",
                                                 *([] if n and not probs else [f"{kind}: {(sorted(set(probs)) or ['no path emits the class name'])[0]}"]))
    cfi = repo.function(GEN, f"{GENCLS}._create_class_string")
    col.touched(cfi)
    cit = ctx.interp(cfi, inline={"is_internal"})
    cobj = Obj("Class", (("is_abstract", Const(False)), ("constructor", Const(None)), ("type_parameters", ListV(())), ("name", Sym("C.name")), ("attributes", ListV(())),
                         ("classes", ListV(())), ("methods", ListV(())), ("superclasses", ListV((Const("other.mod.Base"),))), ("docstring", Sym("C.docstring"))))
    outs = cit.run_function(cfi, {"self": Sym("self"), "class_": cobj, "class_indentation": Const(""), "in_reexport_module": Const(True)}, gen_state())
    good = bool(outs) and all(any(e.kind == "call" and e.target == ADD and e.args == (Const("other.mod.Base"),) for e in o.effects) for o in outs if o.kind == "return" and "Base" in render(o.value))
    (col.ok if good else col.bad)("C11.REF-IMPORT", f"{GEN}::{GENCLS}._create_class_string::superclass::import", repo.loc(GEN, cfi.node),
                                  "a public superclass named in 'sub' is registered for import with its qualified name" if good else "superclass named without import",
                                  *([] if good else ["a superclass is named in the 'sub' clause without registering an import for it"]))
    # type-variable bounds and type parameters go through the translator (so their classes are imported too)
    ffi = repo.function(GEN, f"{GENCLS}._create_function_string")
    fouts = ctx.interp(ffi).run_function(ffi, {"self": Sym("self"), "function": Sym("function"), "indentations": Const(""), "is_method": Const(True)}, gen_state())
    good = any(e.kind == "call" and e.target == "self._create_type_string" and "upper_bound" in repr(e.args[0]) for o in fouts for e in o.effects)
    (col.ok if good else col.bad)("C11.REF-IMPORT", f"{GEN}::{GENCLS}._create_function_string::type-variable-bound", repo.loc(GEN, ffi.node),
                                  "bounds of type variables are rendered by the translator (which registers imports)" if good else "bound rendered otherwise",
                                  *([] if good else ["the bound of a type variable is not rendered through the translator, so its class is not imported"]))

    # ------------------------------------------------------------------ EXEMPT-MAP
    afi = repo.function(GEN, f"{GENCLS}._add_to_imports")
    col.touched(afi)
    leaf_consts = set()
    for nm in ("int", "str", "bool", "float", "None"):
        for o in run_type_string(ctx, "NamedType", {repr(Sym("type_data['name']")): Const(nm)}):
            if o.kind == "return" and isinstance(o.value, Const):
                leaf_consts.add(nm)
    builtin_classes = sorted(n for n in dir(_pybuiltins) if isinstance(getattr(_pybuiltins, n), type) and not issubclass(getattr(_pybuiltins, n), BaseException) and n[0].islower())
    exempt_untranslated = []
    for nm in builtin_classes + ["None"]:
        outs = ctx.interp(afi, inline={"_get_module_id"}).run_function(afi, {"self": Sym("self"), "import_qname": Const(f"builtins.{nm}")}, gen_state({"self.module_id": Const("pkg/mod"), "self.currently_creating_reexport_data": Const(False)}))
        exempt = bool(outs) and all(not any(e.kind == "mutate" and "imports" in e.target or e.kind == "mutate" and "outside" in e.target for e in o.effects) and o.kind != "raise" for o in outs)
        if exempt and nm not in leaf_consts:
            exempt_untranslated.append(nm)
    key = f"{GEN}::{GENCLS}._add_to_imports::builtins-exempt-vs-translated"
    # names that the analyzer maps to containers before they reach the generator never arrive as NamedType
    mapped_elsewhere = {"list", "set", "dict", "tuple", "frozenset"}
    leftovers = [n for n in exempt_untranslated if n not in mapped_elsewhere]
    if leftovers:
        col.bad("C11.EXEMPT-MAP", key, repo.loc(GEN, afi.node), f"exempt from imports: every builtins.*; translated to Safe-DS built-ins: {sorted(leaf_consts)}; exempt but emitted under their Python name: {leftovers}",
                f"builtin classes {leftovers[:6]}… are exempt from import bookkeeping but are not translated to a Safe-DS built-in: e.g. 'q: bytes' is emitted as a bare 'bytes' that is neither declared nor imported")
    else:
        col.ok("C11.EXEMPT-MAP", key, repo.loc(GEN, afi.node), f"exempt names are the translated ones {sorted(leaf_consts)}")

    # ------------------------------------------------------------------ SAME-MODULE
    def imports_for(module_id: str, qname: str) -> tuple[set[bool], set[bool]]:
        it = ctx.interp(afi, inline={"_get_module_id"})
        st = gen_state({"self.module_id": Const(module_id), "self.currently_creating_reexport_data": Const(False), "self.module_imports": ListV((), False, "set"),
                        "self.classes_outside_package": ListV((), False, "set")})
        st.env["self.api"] = Obj("API", (("classes", ListV(())), ("enums", ListV(())), ("reexport_map", Sym("self.api.reexport_map"))))
        outs = it.run_function(afi, {"self": Sym("self"), "import_qname": Const(qname)}, st)
        imported = {any(e.kind == "mutate" and e.target.endswith("module_imports.add") for e in o.effects) for o in outs if o.kind != "raise"}
        return imported, {o.kind == "raise" for o in outs}

    cases = [("k1/util", "k1.util.Foo", False, "class of the current module"), ("k1/util", "k1.util.Outer.Inner", False, "nested class of the current module"),
             ("k1/util", "k1.util_extra.Foo", True, "class of a module whose name starts with the current module's name"),
             ("k1/util", "x.k1.util.Foo", True, "class of a different package whose path contains the current module's path"),
             ("k1/util", "k1.other.Foo", True, "class of a sibling module"), ("util", "k1.util.Foo", True, "class of a longer path ending in the current module's name")]
    for module_id, qname, want, desc in cases:
        imported, raised = imports_for(module_id, qname)
        key = f"{GEN}::{GENCLS}._add_to_imports::same-module::{module_id}<-{qname}"
        if imported == {want}:
            col.ok("C11.SAME-MODULE", key, repo.loc(GEN, afi.node), f"{desc}: import registered = {want}")
        else:
            col.bad("C11.SAME-MODULE", key, repo.loc(GEN, afi.node), f"import registered = {sorted(imported)}, reference {want}",
                    f"module {module_id.replace('/', '.')} referencing {qname} ({desc}): import registered = {sorted(imported)}, expected {want}")

    # the stub of a re-exported element (module_id = the re-exporting package, reexport_module_id = package/Element) holds that element only
    it = ctx.interp(afi, inline={"_get_module_id", "_is_path_connected_to_class"})
    st = gen_state({"self.module_id": Const("rootpkg"), "self.reexport_module_id": Const("rootpkg/Table"), "self.currently_creating_reexport_data": Const(True),
                    "self.module_imports": ListV((), False, "set"), "self.classes_outside_package": ListV((), False, "set")})
    st.env["self.api"] = Obj("API", (("classes", ListV((Const("rootpkg/sub/shapes/Shape"),))), ("enums", ListV(())), ("reexport_map", DictV(()))))
    it.summaries[("_get_shortest_public_reexport", "*")] = ListV((Const(""), Const("")))  # the class is not re-exported anywhere
    outs = it.run_function(afi, {"self": Sym("self"), "import_qname": Const("rootpkg.sub.shapes.Shape")}, st)
    imported = {any(e.kind == "mutate" and e.target.endswith("module_imports.add") for e in o.effects) for o in outs if o.kind != "raise"}
    key = f"{GEN}::{GENCLS}._add_to_imports::same-module::re-exported element rootpkg/Table<-rootpkg.sub.shapes.Shape"
    if imported == {True}:
        col.ok("C11.SAME-MODULE", key, repo.loc(GEN, afi.node), "a class of a sub-package referenced from the stub of a re-exported element: import registered")
    else:
        col.bad("C11.SAME-MODULE", key, repo.loc(GEN, afi.node), f"import registered = {sorted(imported)}, reference True",
                "in the stub of an element re-exported by package rootpkg, a class of rootpkg.sub.shapes is treated as 'defined in the current module' "
                "(the comparison uses the id of the whole re-exporting package): it is referenced without an import")

    # ------------------------------------------------------------------ FOREIGN-PAIR
    it = ctx.interp(afi, inline={"_get_module_id"})
    st = gen_state({"self.module_id": Const("pkg/mod"), "self.currently_creating_reexport_data": Const(False), "self.module_imports": ListV((), False, "set"),
                    "self.classes_outside_package": ListV((), False, "set")})
    st.env["self.api"] = Obj("API", (("classes", ListV(())), ("enums", ListV(())), ("reexport_map", Sym("self.api.reexport_map"))))
    outs = it.run_function(afi, {"self": Sym("self"), "import_qname": Const("otherlib.sub.Thing")}, st)
    probs = []
    for o in outs:
        imp = [e.args[0] for e in o.effects if e.kind == "mutate" and e.target.endswith("module_imports.add")]
        out = [e.args[0] for e in o.effects if e.kind == "mutate" and e.target.endswith("classes_outside_package.add")]
        if o.kind == "raise" or imp != [Const("otherlib.sub.Thing")] or out != imp:
            probs.append(f"{o.kind}: imports {imp}, placeholders {out}")
    (col.ok if outs and not probs else col.bad)("C11.FOREIGN-PAIR", f"{GEN}::{GENCLS}._add_to_imports::foreign-class", repo.loc(GEN, afi.node),
                                                "a class not found in the package is added to the imports and to the placeholder set with the same qualified name" if outs and not probs else "; ".join(probs),
                                                *([] if outs and not probs else ["a class of another library is imported without a placeholder stub (or vice versa)"]))
    # declarations of the analysed package that can be used as types (classes and enums) are never taken for foreign classes
    for store in ("classes", "enums"):
        it = ctx.interp(afi, inline={"_get_module_id", "_is_path_connected_to_class"})
        st = gen_state({"self.module_id": Const("pkg/paint"), "self.currently_creating_reexport_data": Const(False), "self.module_imports": ListV((), False, "set"),
                        "self.classes_outside_package": ListV((), False, "set")})
        stores = {"classes": ListV(()), "enums": ListV(())}
        stores[store] = ListV((Const("pkg/colors/Color"),))
        st.env["self.api"] = Obj("API", (("classes", stores["classes"]), ("enums", stores["enums"]), ("reexport_map", DictV(()))))
        it.summaries[("_get_shortest_public_reexport", "*")] = ListV((Const(""), Const("")))
        outs = it.run_function(afi, {"self": Sym("self"), "import_qname": Const("pkg.colors.Color")}, st)
        foreign = [o for o in outs if any(e.kind == "mutate" and e.target.endswith("classes_outside_package.add") for e in o.effects)]
        imported = [o for o in outs if any(e.kind == "mutate" and e.target.endswith("module_imports.add") for e in o.effects)]
        key = f"{GEN}::{GENCLS}._add_to_imports::in-package::{store}"
        if foreign or not imported or any(o.kind == "raise" for o in outs):
            col.bad("C11.FOREIGN-PAIR", key, repo.loc(GEN, afi.node), f"{len(foreign)} of {len(outs)} paths register a placeholder; {len(imported)} register the import",
                    f"a member of api.{store} of the analysed package (pkg.colors.Color used in pkg.paint) is taken for a class of another library: its placeholder stub is written over the stub of the "
                    f"module that really declares it")
        else:
            col.ok("C11.FOREIGN-PAIR", key, repo.loc(GEN, afi.node), f"a member of api.{store} is found in the package: import registered, no placeholder")
    sfi = repo.function(GENSTUBS, "create_stub_files")
    col.touched(sfi)
    sit = ctx.interp(sfi)
    souts = sit.run_function(sfi, {"stubs_generator": Sym("stubs_generator"), "stubs_data": Sym("stubs_data"), "out_path": Sym("out_path")})
    ploops = find_loops(sit, sfi, lambda v: "classes_outside_package" in repr(v))
    good = False
    if len(ploops) == 1:
        node, itv, el, entry = ploops[0]
        body = run_body(sit, node, entry.clone(), el)
        whole = all(x.func in ("list", "sorted", "set", ".classes_outside_package") for x in walk_av(itv) if isinstance(x, App))
        good = whole and bool(body) and all(len([e for e in new_effects(o, entry) if e.kind == "call" and e.target == "_create_outside_package_class" and e.args and e.args[0] == el]) == 1 for o in body)
    (col.ok if good else col.bad)("C11.FOREIGN-PAIR", f"{GENSTUBS}::create_stub_files::one-placeholder-per-member", repo.loc(GENSTUBS, sfi.node),
                                  "every member of classes_outside_package gets exactly one _create_outside_package_class call" if good else f"{len(ploops)} loops",
                                  *([] if good else ["not every class of another library gets its placeholder stub"]))

    # ------------------------------------------------------------------ EMITTED-TARGET
    mfi = repo.function(GEN, f"{GENCLS}._create_module_string")
    col.touched(mfi)
    mit = ctx.interp(mfi)
    mit.run_function(mfi, {"self": Sym("self"), "module": Sym("module")}, gen_state())
    cl = find_loops(mit, mfi, lambda v: sym_is(v, "module.classes"))
    if len(cl) != 1:
        raise AnalysisError("class loop of _create_module_string not found")
    cnode, _, _, centry = cl[0]
    referencing = [repo.function(GEN, f"{GENCLS}.{n}") for n in ("_add_to_imports", "_is_path_connected_to_class", "_create_type_string")]
    for flag, value, desc in (("inherits_from_exception", True, "derives from Exception"), ("is_public", False, "is not public (e.g. a class of a private module that no package re-exports)")):
        fields = {"name": Sym("X.name"), "id": Sym("X.id"), "is_public": Const(True), "inherits_from_exception": Const(False)}
        fields[flag] = Const(value)
        el = Obj("Class", tuple(fields.items()))
        emitted = any(e.kind == "call" and e.target == "self._create_class_string" for o in run_body(mit, cnode, centry.clone(), el) for e in new_effects(o, centry))
        consulted = any(isinstance(n, ast.Attribute) and n.attr == flag for fi in referencing for n in ast.walk(fi.node))
        key = f"{GEN}::{GENCLS}._add_to_imports::target-emitted::{flag}={value}"
        if emitted or consulted:
            col.ok("C11.EMITTED-TARGET", key, repo.loc(GEN, afi.node), f"a class with {flag}={value}: emitted={emitted}, flag consulted when referenced={consulted}")
        else:
            col.bad("C11.EMITTED-TARGET", key, repo.loc(GEN, afi.node), f"a class with {flag}={value} is not emitted by the module loop, but nothing that registers imports or renders type names reads `{flag}`",
                    f"a class of the analysed package that {desc} is never declared in a stub, yet a parameter, result, attribute or superclass that uses it gets `from <module> import <Class>`: the import names nothing")
    # nested classes: the package part of the import must be the module, not the outer class
    it = ctx.interp(afi, inline={"_get_module_id", "_is_path_connected_to_class"})
    st = gen_state({"self.module_id": Const("pkg/b"), "self.currently_creating_reexport_data": Const(False), "self.module_imports": ListV((), False, "set"),
                    "self.classes_outside_package": ListV((), False, "set")})
    st.env["self.api"] = Obj("API", (("classes", ListV((Const("pkg/a/Outer"), Const("pkg/a/Outer/Inner")))), ("enums", ListV(())), ("reexport_map", DictV(())), ("modules", ListV((Const("pkg/a"), Const("pkg/b"))))))
    it.summaries[("_get_shortest_public_reexport", "*")] = ListV((Const(""), Const("")))
    outs = it.run_function(afi, {"self": Sym("self"), "import_qname": Const("pkg.a.Outer.Inner")}, st)
    regs = {repr(e.args[0]) for o in outs for e in o.effects if e.kind == "mutate" and e.target.endswith("module_imports.add")}
    key = f"{GEN}::{GENCLS}._add_to_imports::target-emitted::nested-class"
    if repr(Const("pkg.a.Outer.Inner")) in regs:
        col.bad("C11.EMITTED-TARGET", key, repo.loc(GEN, afi.node), f"registered import for the nested class pkg.a.Outer.Inner used in pkg.b: {sorted(regs)}",
                "a nested class used as a type in another module is imported as `from pkg.a.Outer import Inner`: the package part names the outer class, not the module whose stub declares it")
    elif regs:
        col.ok("C11.EMITTED-TARGET", key, repo.loc(GEN, afi.node), f"registered import for a nested class: {sorted(regs)}")
    else:
        raise AnalysisError("nested-class probe of _add_to_imports registered no import")

    # ------------------------------------------------------------------ IMPORT-PATH
    em = EmitModel(ctx)
    shapes: dict[str, set[str]] = {}
    for t in em.templates:
        fname = em.name_of(t.fi)
        for h, before, after in holes_ctx(t.value):
            site = None
            if fname in ("_create_module_string", "create_reexport_module_strings", "_create_outside_package_class") and before.endswith("package "):
                site = f"{fname}: package line"
            if fname == "_create_imports_string" and before.endswith("from "):
                site = "_create_imports_string: import source"
            if site is None:
                continue
            conv = [x for x in walk_av(h) if isinstance(x, App) and x.func == CONV]
            for c in conv:
                a0 = c.args[0]
                whole = isinstance(a0, StrT) or (isinstance(a0, App) and a0.func == "[]" and "_get_shortest_public_reexport" in repr(a0)) or (isinstance(a0, Alt))
                mode = dict(c.kwargs).get("is_class_name", c.args[2] if len(c.args) > 2 else Const(False))
                shapes.setdefault(site, set()).add(f"convert({'whole dotted path' if whole else 'one segment'}, class_mode={mode!r})")
            if not conv:
                shapes.setdefault(site, set()).add("no conversion")
    ref = shapes.get("_create_module_string: package line")
    for site, sh in sorted(shapes.items()):
        key = f"{GEN}::module-path::{site}"
        if ref is not None and sh == ref and len(sh) == 1:
            col.ok("C11.IMPORT-PATH", key, repo.loc(GEN, None), f"{sorted(sh)}")
        else:
            col.bad("C11.IMPORT-PATH", key, repo.loc(GEN, None), f"{sorted(sh)}; module stubs use {sorted(ref) if ref else None}",
                    f"{site} converts module paths by {sorted(sh)} while the package line of module stubs uses {sorted(ref) if ref else '?'}: with naming conversion on, an import can name a package that no stub declares")
    if len(shapes) < 4:
        raise AnalysisError(f"only {len(shapes)} module-path sites found")

    # ------------------------------------------------------------------ IMPORT-RENDER
    ifi = repo.function(GEN, f"{GENCLS}._create_imports_string")
    col.touched(ifi)
    iit = ctx.interp(ifi)
    iouts = iit.run_function(ifi, {"self": Sym("self")}, gen_state())
    loops = find_loops(iit, ifi, lambda v: "module_imports" in repr(v) or (isinstance(v, ListV) and v.kind == "set"))
    good = False
    if len(loops) == 1:
        node, itv, el, entry = loops[0]
        body = run_body(iit, node, entry.clone(), Sym("import_"))
        good = bool(body) and all(len([e for e in new_effects(o, entry) if e.kind == "mutate" and e.target.endswith(".append")]) == 1 and o.kind == "fall" for o in body)
        for o in body:
            for e in new_effects(o, entry):
                if e.kind == "mutate" and e.target.endswith(".append"):
                    txt = render(e.args[0])
                    if not re.fullmatch(r"from \{.*\} import \{.*\}", txt, re.S):
                        good = False
    (col.ok if good else col.bad)("C11.IMPORT-RENDER", f"{GEN}::{GENCLS}._create_imports_string::one-line-per-import", repo.loc(GEN, ifi.node),
                                  "one 'from <path> import <name>' line per registered import" if good else "shape differs",
                                  *([] if good else ["registered imports are not rendered one line each"]))
    rets = [o for o in iouts if o.kind == "return" and any(isinstance(x, Rep) for x in walk_av(o.value))]
    sorted_ok = bool(rets) and all(any(isinstance(x, Rep) and "sorted" in x.tags for x in walk_av(o.value)) for o in rets)
    (col.ok if sorted_ok else col.bad)("C11.IMPORT-RENDER", f"{GEN}::{GENCLS}._create_imports_string::sorted", repo.loc(GEN, ifi.node),
                                       "import lines are sorted before joining (the set of imports has no order)" if sorted_ok else "not sorted",
                                       *([] if sorted_ok else ["import lines are joined in set-iteration order"]))
    from .shared import share
    share(ctx, col, "C10", {"C10.WRITE-MODE"}, "every placeholder declaration an import names survives in its placeholder stub")
    share(ctx, col, "C09", {"C09.ROLE-PIPELINE"}, "the declared, imported and referenced spelling of a class agree")
    share(ctx, col, "C16", {"C16.STATE-RESET"}, "imports are registered as a side effect of rendering a type, into the import set of the module being rendered: generator state that outlives a module "
          "(a memo of rendered text, a stale module id or mode flag) lets a later module reuse text without registering its imports, or register them against the wrong module",
          key_filter=lambda o: "::field::" in o.key or o.key.endswith("::module-resets"))
    col.assume("that the package an import names is the package of the stub file declaring the class (two shortest-path heuristics over strings) is not decided")
