"""C12 — the API JSON is a complete, internally consistent inventory."""
from __future__ import annotations

import ast
import re

from ..core.absint import AV, Alt, App, Const, DictV, ListV, Obj, Outcome, Rep, State, StrT, Sym, walk_av
from ..core.ctx import API_MOD, GETAPI, TYPES_MOD, VISITOR, Ctx
from ..core.report import Collector
from ..core.source import AnalysisError
from .c03 import register_obligations
from .common import find_loops, fmt_facts, mentions, new_effects, render, run_body, sym_is
from .visitor_model import STACK, VCLS, child_selection, parent_obj, visitor_state

LISTS = {"modules": "modules", "classes": "classes", "functions": "functions", "results": "results", "enums": "enums", "enum_instances": "enum_instances",
         "attributes": "attributes_", "parameters": "parameters_"}


def check(ctx: Ctx, col: Collector, tier: str) -> None:
    repo = ctx.repo
    col.spec("C12.STORES", "valid JSON with schema version 1; eight top-level lists, each the sorted, duplicate-free content of one store", "abstract value of API.to_dict / add_* / to_json_file", floor=18)
    col.spec("C12.PAIRING", "every entry is referenced by exactly one owner and every referenced id resolves: store-add and owner-add happen together", "stack-shape analysis of the leave handlers (shared with C03.REGISTER)", floor=8)
    col.spec("C12.ID-FORM", "every id has the form '<owner id>/<name>'", "provenance of id= at every element constructor and of _create_id_from_stack", floor=9)
    col.spec("C12.CHILD-REFS", "owners reference their children by id", "abstract value of the owners' to_dict", floor=8)
    col.spec("C12.FLAGS", "static / class-method / property flags and superclass lists are those of the source declaration", "same-subject check at the Function / Class constructors", floor=4)
    col.spec("C12.ATTR-DEDUP-SCOPE", "the first definition of an attribute wins per class: whether an attribute is already defined depends on the owning class only", "reads of _is_attribute_already_defined", floor=1)
    col.spec("C12.ROOT", "every module of the analysed files is in the inventory: all packages of minimal depth are kept as roots", "specialisation of the loop in _get_nearest_init_dirs", floor=3)

    am = repo.module(API_MOD)
    # ------------------------------------------------------------------ STORES
    tfi = repo.function(API_MOD, "API.to_dict")
    col.touched(tfi)
    outs = ctx.interp(tfi).run_function(tfi, {"self": Sym("self")})
    d = outs[0].value if len(outs) == 1 and isinstance(outs[0].value, DictV) else None
    if d is None:
        raise AnalysisError("API.to_dict does not return one dict literal")
    items = {k.v: v for k, v in d.items if isinstance(k, Const)}
    sv = items.get("schemaVersion")
    good = sv == Const(1)
    (col.ok if good else col.bad)("C12.STORES", f"{API_MOD}::API.to_dict::schemaVersion", repo.loc(API_MOD, tfi.node), f"schemaVersion = {sv!r}", *([] if good else ["schemaVersion is not the constant 1"]))
    for key, store in LISTS.items():
        v = items.get(key)
        k = f"{API_MOD}::API.to_dict::{key}"
        srt = [x for x in walk_av(v)] if v is not None else []
        sorted_apps = [x for x in srt if isinstance(x, App) and x.func == "sorted"]
        okk = False
        if sorted_apps:
            sa = sorted_apps[0]
            src_ok = sa.args and isinstance(sa.args[0], App) and sa.args[0].func == ".values" and sa.args[0].args == (Sym(f"self.{store}"),)
            keyf = dict(sa.kwargs).get("key")
            key_ok = isinstance(keyf, App) and keyf.func == "lambda" and re.fullmatch(r"\w+\.id", keyf.args[0].v or "")
            ser_ok = any(isinstance(x, App) and x.func == ".to_dict" for x in srt)
            okk = bool(src_ok and key_ok and ser_ok)
        (col.ok if okk else col.bad)("C12.STORES", k, repo.loc(API_MOD, tfi.node), f"{key} = [x.to_dict() for x in sorted(self.{store}.values(), key=id)]" if okk else f"{v!r}"[:200],
                                     *([] if okk else [f"top-level list {key!r} is not the content of self.{store} sorted by id and serialised by to_dict"]))
    extra = set(items) - set(LISTS) - {"schemaVersion", "distribution", "package", "version"}
    (col.ok if not extra else col.bad)("C12.STORES", f"{API_MOD}::API.to_dict::keys", repo.loc(API_MOD, tfi.node), f"keys {sorted(items)}", *([] if not extra else [f"unexpected top-level keys {sorted(extra)}"]))
    # add_* write the element under its own id into the matching store
    adders = {"add_module": "modules", "add_class": "classes", "add_function": "functions", "add_enum": "enums", "add_enum_instance": "enum_instances", "add_attribute": "attributes_",
              "add_parameter": "parameters_", "add_results": "results"}
    for meth, store in adders.items():
        fi = repo.function(API_MOD, f"API.{meth}")
        col.touched(fi)
        p = fi.params()[1]
        outs = ctx.interp(fi).run_function(fi, {"self": Sym("self"), p: Sym(p)})
        # (key, value) pairs written into the store: `self.store[k] = v` or `self.store.update({k: v})`
        pairs = [(e.args[0], e.args[1]) for o in outs for e in o.effects if e.kind == "store" and e.target == f"self.{store}[]" and len(e.args) == 2]
        for o in outs:
            for e in o.effects:
                if e.kind in ("call", "mutate") and e.target == f"self.{store}.update" and e.args and isinstance(e.args[0], DictV):
                    pairs += list(e.args[0].items)
        pairs = [(k_, v_) for k_, v_ in pairs if isinstance(k_, Sym)]  # (keys that are not symbols come from the zero-iteration artefact of element loops)
        stores = pairs
        okk = bool(pairs) and all(isinstance(k_, Sym) and k_.path.endswith(".id") and isinstance(v_, Sym) and k_.path == v_.path + ".id" for k_, v_ in pairs)
        (col.ok if okk else col.bad)("C12.STORES", f"{API_MOD}::API.{meth}", repo.loc(API_MOD, fi.node), f"self.{store}[x.id] = x" if okk else f"{[repr(e) for e in stores][:3]}",
                                     *([] if okk else [f"{meth} does not store the element under its own id in self.{store} (duplicates / dangling ids)"]))
    jfi = repo.function(API_MOD, "API.to_json_file")
    col.touched(jfi)
    jouts = ctx.interp(jfi).run_function(jfi, {"self": Sym("self"), "path": Sym("path")})
    dumps = [e for o in jouts for e in o.effects if e.kind == "call" and e.target in ("json.dump", "json.dumps")]
    okk = bool(dumps) and all(e.args and isinstance(e.args[0], App) and e.args[0].func == "self.to_dict" for e in dumps)
    (col.ok if okk else col.bad)("C12.STORES", f"{API_MOD}::API.to_json_file", repo.loc(API_MOD, jfi.node), "the file content is json.dump(s) of self.to_dict()" if okk else f"{[repr(e) for e in dumps]}",
                                 *([] if okk else ["the API file is not json.dump of to_dict()"]))

    # float defaults come from FloatExpr.value: an overflowing literal (1e999) is inf, which json.dump writes as the non-JSON token Infinity
    from ..core.ctx import HELPERS
    finite_tests = []
    for rel2, q in ((VISITOR, f"{VCLS}._get_parameter_type_and_default_value"), (HELPERS, "mypy_expression_to_python_value"), (API_MOD, "Parameter.to_dict"), (API_MOD, "API.to_json_file")):
        fi2 = repo.maybe_function(rel2, q)
        for n in ast.walk(fi2.node) if fi2 else []:
            if isinstance(n, ast.Call) and ast.unparse(n.func) in ("math.isfinite", "math.isinf", "math.isnan", "isfinite", "isinf"):
                finite_tests.append(f"{q}:{n.lineno}")
    strict = any(e.kind == "call" and any(k == "allow_nan" and v == Const(False) for k, v in e.kwargs) for o in jouts for e in o.effects if e.target in ("json.dump", "json.dumps"))
    # ... and on the path where the float is not finite the value handed on is not that float
    leaks = []
    if finite_tests and not strict:
        vfi = repo.function(VISITOR, f"{VCLS}._get_parameter_type_and_default_value")
        vit = ctx.interp(vfi, inline={"mypy_expression_to_python_value"})
        fouts = vit.run_function(vfi, {"self": Sym("self"), "initializer": Obj("FloatExpr", (("value", Sym("v", "float")),)), "function_id": Sym("function_id")})
        for o in fouts:
            nonfinite = any(("isfinite" in k and fv is False) or (("isinf" in k or "isnan" in k) and fv is True) for k, fv in o.facts)
            if o.kind == "return" and nonfinite and isinstance(o.value, ListV) and o.value.items and o.value.items[0] == Sym("v", "float"):
                leaks.append(o)
    okk = (bool(finite_tests) and not leaks) or strict
    (col.ok if okk else col.bad)("C12.STORES", f"{API_MOD}::API.to_json_file::finite-floats", repo.loc(API_MOD, jfi.node),
                                 f"non-finite float defaults are recognised ({finite_tests[:2]})" if finite_tests else ("json.dump rejects non-finite floats" if strict else "float defaults reach json.dump unchecked; allow_nan is left on"),
                                 *([] if okk else ["a float default that overflows (`def clip(x: float, upper: float = 1e999)`) is stored as inf and written as `\"default_value\": Infinity`: "
                                                   "the API file is not valid JSON (RFC 8259); strict parsers reject it"]))

    # ------------------------------------------------------------------ PAIRING
    register_obligations(ctx, col, "C12.PAIRING", child_selection(ctx))
    lfi = repo.function(VISITOR, f"{VCLS}.leave_funcdef")
    louts = ctx.interp(lfi).run_function(lfi, {"self": Sym("self"), "_": Sym("node")},
                                         visitor_state((parent_obj("Module"), Obj("Function", (("id", Sym("E.id")), ("name", Sym("E.name")), ("results", Sym("E.results")), ("parameters", Sym("E.parameters")))))))
    okk = bool(louts) and all(any(e.kind == "call" and e.target == "self.api.add_results" and e.args == (Sym("E.results"),) for e in o.effects) for o in louts if o.kind != "raise") and any(
        any(e.kind == "call" and e.target == "self.api.add_parameter" and e.args == (Sym("E.parameters[*]"),) for e in o.effects) for o in louts)
    (col.ok if okk else col.bad)("C12.PAIRING", f"{VISITOR}::{VCLS}.leave_funcdef::results-and-parameters", repo.loc(VISITOR, lfi.node),
                                 "a function's results and parameters are added to the stores with it" if okk else "not added",
                                 *([] if okk else ["results or parameters of a function are not added to the inventory (their ids dangle)"]))

    # a name can be declared several times in one scope (`@show.register def _(...)`, redefinitions): the id-keyed store keeps the
    # last entry while the owner's list is appended to, unless something compares with what is registered already
    amod = repo.module(API_MOD)
    for kind, store, owner_adds in (("functions", "functions", ("Module.add_function", "Class.add_method")), ("classes", "classes", ("Module.add_class", "Class.add_class"))):
        guards = []
        for rel2 in (VISITOR, API_MOD):
            for fi in repo.module(rel2).functions.values():
                for n in ast.walk(fi.node):
                    if isinstance(n, ast.Compare) and any(isinstance(o, (ast.In, ast.NotIn)) for o in n.ops) and any(ast.unparse(c) in (f"self.api.{store}", f"self.{store}") for c in n.comparators):
                        guards.append(f"{fi.qualname}:{n.lineno}")
        for q in owner_adds:
            fi = amod.functions.get(q)
            if fi is not None and any(isinstance(n, ast.Compare) and ".id" in ast.unparse(n) for n in ast.walk(fi.node)):
                guards.append(f"{q} filters by id")
        appends = [q for q in owner_adds if q in amod.functions and any(isinstance(n, ast.Call) and getattr(n.func, "attr", "") == "append" for n in ast.walk(amod.functions[q].node))]
        if not appends and not guards:
            raise AnalysisError(f"owner registration of {kind} not found")
        okk = bool(guards)
        (col.ok if okk else col.bad)("C12.PAIRING", f"{VISITOR}::duplicate-id::{kind}", repo.loc(API_MOD, amod.functions[owner_adds[0]].node),
                                     f"an id that is registered already is recognised ({guards[:2]})" if okk else f"store self.{store}[x.id] = x replaces, {appends} append; nothing compares with the registered ids",
                                     *([] if okk else [f"two {kind} with one name in one scope (`@show.register def _(x: int)` / `def _(x: str)`, a redefined `def twice`, `class Codec` defined twice) get the same id: "
                                                       f"the store keeps the last one, the owner lists the id twice and the members of the first one (parameters, results, methods) stay behind without an owner; "
                                                       f"the stub declares the name twice"]))

    # ------------------------------------------------------------------ ID-FORM
    vm = repo.module(VISITOR)
    nsites = 0
    for fi in vm.functions.values():
        for n in ast.walk(fi.node):
            if isinstance(n, ast.Call) and isinstance(n.func, ast.Name) and n.func.id in ("Class", "Function", "Enum", "EnumInstance", "Attribute", "Parameter", "Result", "Module"):
                kw = {k.arg: k.value for k in n.keywords}
                idk = "id_" if n.func.id == "Module" else "id"
                if idk not in kw or n.func.id == "Module":
                    continue
                nsites += 1
                col.touched(fi)
                id_e, name_e = kw[idk], kw.get("name")

                def resolve(e):
                    if isinstance(e, ast.Name):
                        defs = [x.value for x in ast.walk(fi.node) if isinstance(x, ast.Assign) and any(isinstance(t, ast.Name) and t.id == e.id for t in x.targets)]
                        if len(defs) == 1:
                            return defs[0]
                    return e
                id_r = resolve(id_e)
                name_src = ast.unparse(name_e) if name_e is not None else None
                probs = []
                if isinstance(id_r, ast.Call) and ast.unparse(id_r.func).endswith("_create_id_from_stack"):
                    arg = ast.unparse(id_r.args[0]) if id_r.args else ""
                    name_r = ast.unparse(resolve(name_e)) if name_e is not None else ""
                    if arg not in (name_src, name_r) and ast.unparse(resolve(id_r.args[0])) not in (name_src, name_r):
                        probs.append(f"id built from {arg}, name is {name_src}")
                elif isinstance(id_r, ast.Call) and isinstance(id_r.func, ast.Attribute) and id_r.func.attr == "replace" and "_create_id_from_stack" in ast.unparse(id_r):
                    pass  # attribute ids: stack id with the '__init__/' segment removed
                elif isinstance(id_r, ast.JoinedStr):
                    parts = id_r.values
                    lits = "".join(p.value for p in parts if isinstance(p, ast.Constant))
                    fvs = [p for p in parts if isinstance(p, ast.FormattedValue)]
                    if lits != "/" or len(fvs) != 2:
                        probs.append(f"id template `{ast.unparse(id_r)}` is not '<owner id>/<name>'")
                    else:
                        owner, last = ast.unparse(fvs[0].value), ast.unparse(fvs[1].value)
                        if not (owner.endswith("id") or owner.endswith("_id")):
                            probs.append(f"owner part `{owner}` is not an id")
                        names_ok = {name_src, ast.unparse(resolve(name_e)) if name_e is not None else None}
                        if isinstance(name_e, ast.JoinedStr) and len(name_e.values) == 1 and isinstance(name_e.values[0], ast.FormattedValue):
                            names_ok.add(ast.unparse(name_e.values[0].value))
                        if last not in names_ok:
                            probs.append(f"id ends in `{last}` but name is `{name_src}`")
                else:
                    probs.append(f"id `{ast.unparse(id_e)}` has no recognised form")
                key = f"{VISITOR}::{fi.qualname}::{n.func.id}::id::{name_src}"
                (col.ok if not probs else col.bad)("C12.ID-FORM", key, repo.loc(VISITOR, n), f"id={ast.unparse(id_r)[:60]}, name={name_src}" if not probs else "; ".join(probs),
                                                   *([] if not probs else [f"{n.func.id} built in {fi.qualname}: {probs[0]}"]))
    if nsites < 9:
        raise AnalysisError(f"only {nsites} element constructors with id= found")
    cfi = repo.function(VISITOR, f"{VCLS}._create_id_from_stack")
    col.touched(cfi)
    st = visitor_state((parent_obj("Module"), parent_obj("Class")))
    couts = ctx.interp(cfi).run_function(cfi, {"self": Sym("self"), "name": Sym("name")}, st)
    okk = len(couts) == 1 and render(couts[0].value) in ("{<PARENT.id>}/{<PARENT.name>}/{<name>}",)
    (col.ok if okk else col.bad)("C12.ID-FORM", f"{VISITOR}::{VCLS}._create_id_from_stack", repo.loc(VISITOR, cfi.node), f"[Module, Class] + name -> {render(couts[0].value) if couts else None}",
                                 *([] if okk else ["_create_id_from_stack does not join the module id, the owners' names and the name with '/'"]))

    # ------------------------------------------------------------------ CHILD-REFS
    refs = {"Module.to_dict": {"classes": "classes", "functions": "global_functions", "enums": "enums"},
            "Class.to_dict": {"attributes": "attributes", "methods": "methods", "classes": "classes", "reexported_by": "reexported_by"},
            "Function.to_dict": {"results": "results", "parameters": "parameters", "reexported_by": "reexported_by"}, "Enum.to_dict": {"instances": "instances"}}
    for q, m in refs.items():
        fi = repo.function(API_MOD, q)
        col.touched(fi)
        outs = ctx.interp(fi).run_function(fi, {"self": Sym("self")})
        dv = outs[0].value if outs and isinstance(outs[0].value, DictV) else None
        for key, coll in m.items():
            v = next((vv for kk, vv in (dv.items if dv else ()) if kk == Const(key)), None)
            okk = isinstance(v, ListV) and v.items == (Sym(f"self.{coll}[*].id"),)
            (col.ok if okk else col.bad)("C12.CHILD-REFS", f"{API_MOD}::{q}::{key}", repo.loc(API_MOD, fi.node), f"{key} = [x.id for x in self.{coll}]" if okk else f"{v!r}",
                                         *([] if okk else [f"{q}: {key!r} is not the list of ids of self.{coll}"]))

    # ------------------------------------------------------------------ FLAGS
    efi = repo.function(VISITOR, f"{VCLS}.enter_funcdef")
    col.touched(efi)
    fcalls = [n for n in ast.walk(efi.node) if isinstance(n, ast.Call) and getattr(n.func, "id", "") == "Function"]
    for n in fcalls:
        kw = {k.arg: ast.unparse(k.value) for k in n.keywords}
        want = {"is_static": ("is_static", "node.is_static"), "is_class_method": ("node.is_class",), "is_property": ("node.is_property",)}
        for flag, accepted in want.items():
            v = kw.get(flag)
            if v == "is_static":
                defs = [ast.unparse(x.value) for x in ast.walk(efi.node) if isinstance(x, ast.Assign) and any(isinstance(t, ast.Name) and t.id == "is_static" for t in x.targets)]
                v = defs[0] if len(defs) == 1 else v
            okk = v in accepted
            (col.ok if okk else col.bad)("C12.FLAGS", f"{VISITOR}::{VCLS}.enter_funcdef::{flag}", repo.loc(VISITOR, n), f"{flag} = {v}",
                                         *([] if okk else [f"Function.{flag} is taken from `{v}`, not from the mypy node of the function being built"]))
    cfi2 = repo.function(VISITOR, f"{VCLS}.enter_classdef")
    col.touched(cfi2)
    it = ctx.interp(cfi2)
    it.run_function(cfi2, {"self": Sym("self"), "node": Sym("node")}, visitor_state((parent_obj("Module"),)))
    sloops = find_loops(it, cfi2, lambda v: sym_is(v, "node.base_type_exprs"))
    okk = False
    if sloops:
        node, itv, el, entry = sloops[-1]
        # a base expression that has a name (a base without any name, e.g. a call, names nothing and may be skipped)
        named = Obj("NameExpr", (("fullname", Const("pkg.mod.Base")), ("name", Const("Base")), ("node", Sym("base.node"))))
        body = run_body(it, node, entry.clone(), named)
        aps = [[e for e in new_effects(o, entry) if e.kind == "mutate" and e.target == "superclasses.append"] for o in body if o.kind != "raise"]
        okk = bool(aps) and all(len(a) == 1 for a in aps)
    (col.ok if okk else col.bad)("C12.FLAGS", f"{VISITOR}::{VCLS}.enter_classdef::superclasses", repo.loc(VISITOR, cfi2.node),
                                 "one superclass entry per named base expression, appended in source order" if okk else "loop shape differs",
                                 *([] if okk else ["the superclass list does not have one entry per named base in source order"]))

    # a base written with type arguments (`Box[int]`) names a class too
    if sloops:
        node, itv, el, entry = sloops[-1]
        sub = Obj("IndexExpr", (("base", Obj("NameExpr", (("fullname", Const("pkg.mod.Box")), ("name", Const("Box")), ("node", Sym("base.node"))))), ("index", Sym("base.index"))))
        body = run_body(it, node, entry.clone(), sub)
        aps = [[e for e in new_effects(o, entry) if e.kind == "mutate" and e.target == "superclasses.append"] for o in body if o.kind != "raise"]
        okk = bool(aps) and all(len(a) == 1 for a in aps)
        (col.ok if okk else col.bad)("C12.FLAGS", f"{VISITOR}::{VCLS}.enter_classdef::superclasses::subscripted-base", repo.loc(VISITOR, cfi2.node),
                                     "a subscripted base expression contributes its class" if okk else f"appends per path: {[len(a) for a in aps]}",
                                     *([] if okk else ["a base class written with type arguments (`class IntBox(Box[int])`) is not recorded as a superclass: the stub shows no `sub Box`, and the "
                                                       "public members of a private generic base (`_Container[int]`) are not inherited"]))

    # a base that mypy resolved to a class keeps the class's qualified name, whatever the alias table holds for its bare name
    if sloops:
        node, itv, el, entry = sloops[-1]
        resolved = Obj("NameExpr", (("fullname", Const("pkg.base.Base")), ("name", Const("Base")), ("node", Obj("TypeInfo", ()))))
        body = run_body(it, node, entry.clone(), resolved)
        vals = [e.args[0] for o in body if o.kind != "raise" for e in new_effects(o, entry) if e.kind == "mutate" and e.target == "superclasses.append" and e.args]
        wrong = [v for v in vals if v != Const("pkg.base.Base")]
        okk = bool(vals) and not wrong
        (col.ok if okk else col.bad)("C12.FLAGS", f"{VISITOR}::{VCLS}.enter_classdef::superclasses::resolved-base-qname", repo.loc(VISITOR, cfi2.node),
                                     "a base expression mypy resolved to a class is recorded under that class's qualified name" if okk else f"recorded as {[repr(v)[:60] for v in wrong][:3]}",
                                     *([] if okk else ["the qualified name mypy gives a resolved base class is replaced by the alias table's entry for its bare name: with `from .base import Base` and one use of "
                                                       "`Base` in an expression anywhere in the package, `class Child(Base)` records the superclass `base.Base` (the unresolved text of the relative import) "
                                                       "instead of `pkg.base.Base`"]))

    # ------------------------------------------------------------------ ATTR-TARGETS (shared code with C03)
    col.spec("C12.ATTR-TARGETS", "the attributes of a class in the inventory are those its constructor assigns on the instance itself, recorded as instance attributes",
             "specialisation of _parse_attributes over constructor target shapes (same obligations as C03.ATTR-TARGETS constructor-target)", floor=5)
    from .c03 import constructor_target_obligations
    constructor_target_obligations(ctx, col, "C12.ATTR-TARGETS")

    # ------------------------------------------------------------------ ATTR-DEDUP-SCOPE
    dfi = repo.function(VISITOR, f"{VCLS}._is_attribute_already_defined")
    col.touched(dfi)
    reads = sorted({n.attr for n in ast.walk(dfi.node) if isinstance(n, ast.Attribute) and isinstance(n.value, ast.Name) and n.value.id == "self"})
    writes = [n for n in ast.walk(dfi.node) if isinstance(n, (ast.Assign, ast.AugAssign)) and any(isinstance(t, (ast.Attribute, ast.Subscript)) for t in (n.targets if isinstance(n, ast.Assign) else [n.target]))]
    muts = [n for n in ast.walk(dfi.node) if isinstance(n, ast.Call) and isinstance(n.func, ast.Attribute) and n.func.attr in ("add", "append", "update", "setdefault")]
    okk = all(r.endswith("__declaration_stack") for r in reads) and not writes and not muts
    res_ok = False
    for cls_attrs, q, want in (((Obj("Attribute", (("name", Const("a")),)),), "a", True), ((Obj("Attribute", (("name", Const("a")),)),), "b", False)):
        par = Obj("Class", (("id", Sym("P.id")), ("name", Sym("P.name")), ("attributes", ListV(cls_attrs))))
        o = ctx.interp(dfi).run_function(dfi, {"self": Sym("self"), "value_name": Const(q)}, visitor_state((parent_obj("Module"), par)))
        res_ok = len(o) == 1 and o[0].value == Const(want)
        if not res_ok:
            break
    (col.ok if okk and res_ok else col.bad)("C12.ATTR-DEDUP-SCOPE", f"{VISITOR}::{VCLS}._is_attribute_already_defined", repo.loc(VISITOR, dfi.node),
                                            "decided from the attributes of the owning class on the stack only" if okk and res_ok else f"reads self.{reads}, writes={len(writes) + len(muts)}, table ok={res_ok}",
                                            *([] if okk and res_ok else ["whether an attribute is already defined depends on visitor-wide state, not only on the owning class: same-named attributes of other classes are dropped"]))

    # ------------------------------------------------------------------ ROOT
    rfi = repo.function(GETAPI, "_get_nearest_init_dirs")
    col.touched(rfi)
    rit = ctx.interp(rfi)
    rit.run_function(rfi, {"root": Sym("root")})
    rloops = [(n, *rit.loops[id(n)][0]) for n in ast.walk(rfi.node) if isinstance(n, ast.For) and id(n) in rit.loops]
    if len(rloops) != 1:
        raise AnalysisError("loop of _get_nearest_init_dirs not found")
    node, itv, el, entry = rloops[0]
    P0 = Sym("earlier.parent")
    for n_parts, want_paths, want_len, label in ((2, [Sym("INIT.parent")], 2, "shallower"), (3, [P0, Sym("INIT.parent")], 3, "same depth"), (4, [P0], 3, "deeper")):
        e = entry.clone()
        e.env["shortest_len"] = Const(3)
        e.env["shortest_init_paths"] = ListV((P0,))
        init = Obj("PosixPath", (("parts", ListV(tuple(Const(f"s{i}") for i in range(n_parts)), kind="tuple")), ("parent", Sym("INIT.parent"))))
        outs = run_body(rit, node, e, init)
        got = {(repr(o.env.get("shortest_init_paths")), repr(o.env.get("shortest_len"))) for o in outs}
        want = {(repr(ListV(tuple(want_paths))), repr(Const(want_len)))}
        (col.ok if got == want else col.bad)("C12.ROOT", f"{GETAPI}::_get_nearest_init_dirs::{label}", repo.loc(GETAPI, node), f"{label} __init__: paths/len -> {sorted(got)}",
                                             *([] if got == want else [f"an __init__.py that is {label} than the nearest one seen so far leads to {sorted(got)}, expected {sorted(want)}: sibling top-level packages are lost"]))
    from .shared import share
    share(ctx, col, "C18", {"C18.SHARED-WRITE"}, "superclass names are resolved through tables that are not changed by earlier lookups")
    col.assume("completeness with respect to the source beyond C03's clauses, and alias resolution of superclass names, are not decided")
