"""C13 — docstring text reaches the right element intact, whatever the style."""
from __future__ import annotations

import ast
import re

from ..core.absint import AV, Alt, App, Const, DictV, ListV, Obj, Outcome, Rep, State, StrT, Sym, walk_av
from ..core.ctx import DOCPARSER, GEN, PLAINPARSER, VISITOR, Ctx
from ..core.report import Collector
from ..core.source import AnalysisError
from .c17 import memo_obligations
from .common import GENCLS, find_loops, fmt_facts, gen_state, mentions, new_effects, render, run_body, sym_is
from .visitor_model import VCLS, parent_obj, visitor_state

DP = "DocstringParser"
CACHE_KEY, CACHE_VAL = "__cached_node", "__cached_docstring"


def check(ctx: Ctx, col: Collector, tier: str) -> None:
    repo = ctx.repo
    col.spec("C13.CACHE", "attachment does not depend on the order in which elements are analysed: the one-entry cache returns what a recomputation would",
             "typestate of the cache pair in __get_cached_docstring; inventory of mutable parser state", floor=4)
    col.spec("C13.SAME-SUBJECT", "each documentation lookup and each emitted comment uses the element being built / emitted", "argument provenance at every lookup and emitter call", floor=10)
    col.spec("C13.NODE-LOOKUP", "a qualified name resolves to the node of exactly that element: every name segment after the root descends one level", "per-iteration analysis of _get_griffe_node", floor=2)
    col.spec("C13.MODULE-DOC", "the module description is the module's first top-level string", "exit of the search loop in enter_moduledef", floor=1)
    col.spec("C13.EXAMPLE-LINES", "the code lines of each example appear line for line: only the prompt marker of a line is rewritten", "specialisation of the example loop over prompt kinds", floor=2)
    col.spec("C13.ACCUMULATE", "no documentation section is dropped: what a getter collects over the sections of a docstring (description text, example lines) is accumulated, "
             "never overwritten by a later section", "loop-carried dependence of the variables a section loop updates and the getter returns", floor=4)
    col.spec("C13.RESULT-DOC-NAME", "an @result text is attached to the result it documents: generated result names are drawn for every result, in order, as in the signature",
             "per-iteration effects of the result loop of _create_sds_docstring over (named?, described?)", floor=4)
    col.spec("C13.SECTION-KINDS", "the text of a parameter / attribute / result is looked up in every docstring section that can document it", "section kinds consulted by _get_matching_docstrings against "
             "the members of griffe's DocstringSectionKind; no early exit of the section search", floor=3)
    col.spec("C13.STYLE-INDEPENDENT", "the three structured docstring styles are treated alike: the parser's code branches on the style only where the styles' syntax differs",
             "inventory of the comparisons with self.parser, each with the syntactic difference that justifies it", floor=3)
    col.spec("C13.COMMENT-PARTS", "description, @param and @result lines of an element are rendered from that element's own documentation", "provenance of the holes of _create_sds_docstring", floor=3)

    pm = repo.module(DOCPARSER)
    pci = pm.classes[DP]
    # ------------------------------------------------------------------ CACHE
    gfi = pci.methods["__get_cached_docstring"]
    col.touched(gfi)
    st = State({"self": Sym("self"), f"self.{CACHE_KEY}": Sym("CACHED_KEY"), f"self.{CACHE_VAL}": Sym("CACHED_VAL")})
    outs = ctx.interp(gfi).run_function(gfi, {"self": Sym("self"), "qname": Sym("qname")}, st)
    probs = []
    hits = 0
    for o in outs:
        if o.kind != "return":
            probs.append(f"{o.kind} {o.exc}")
            continue
        kst = [e for e in o.effects if e.kind == "store" and e.target == f"self.{CACHE_KEY}"]
        vst = [e for e in o.effects if e.kind == "store" and e.target == f"self.{CACHE_VAL}"]
        if not kst and not vst:
            hits += 1
            eq = [v for k, v in o.facts if "CACHED_KEY" in k and "qname" in k and "==" in k]
            if not (eq and eq[-1] is True):
                probs.append("a path returns the cached value without having established cached key == qname")
            if o.value != Sym("CACHED_VAL"):
                probs.append(f"hit returns {o.value!r}")
        else:
            if len(kst) != 1 or len(vst) != 1:
                probs.append(f"miss path writes key {len(kst)}x and value {len(vst)}x (they must be written together)")
                continue
            if kst[0].args[0] != Sym("qname"):
                probs.append(f"key set to {kst[0].args[0]!r}")
            v = vst[0].args[0]
            from_key = v == Const(None) or (any(isinstance(x, App) and x.func == "self._get_griffe_node" and x.args == (Sym("qname"),) for x in walk_av(v))
                                            and not any(isinstance(x, Sym) and x.path not in ("qname",) and not x.path.startswith("self._get_griffe") for x in walk_av(v) if isinstance(x, Sym)))
            if not from_key:
                probs.append(f"cached value {v!r} is not computed from the key alone")
            if o.value != v:
                probs.append("miss path does not return the value it cached")
    key = f"{DOCPARSER}::{DP}.__get_cached_docstring::typestate"
    (col.ok if not probs and hits else col.bad)("C13.CACHE", key, repo.loc(DOCPARSER, gfi.node), f"{len(outs)} paths: hit only under key == qname; miss writes key and value together, value = f(qname)" if not probs and hits else "; ".join(sorted(set(probs))) or "no hit path",
                                                *([] if not probs and hits else [sorted(set(probs or ['no cache hit path']))[0]]))
    # who touches the cache pair
    touch = {}
    for name, fi in pci.methods.items():
        for n in ast.walk(fi.node):
            if isinstance(n, ast.Attribute) and n.attr in (CACHE_KEY, CACHE_VAL) and isinstance(n.value, ast.Name) and n.value.id == "self":
                touch.setdefault(name, set()).add(n.attr)
    ok_touch = set(touch) <= {"__init__", "__get_cached_docstring"}
    (col.ok if ok_touch else col.bad)("C13.CACHE", f"{DOCPARSER}::{DP}::cache-accessor-only", repo.loc(DOCPARSER, pci.node), f"cache fields touched in {sorted(touch)}",
                                      *([] if ok_touch else [f"the docstring cache is accessed outside its accessor ({sorted(set(touch) - {'__init__', '__get_cached_docstring'})})"]))
    # any other mutable parser state?
    fields_written: dict[str, set[str]] = {}
    for rel, cname in ((DOCPARSER, DP), (PLAINPARSER, "PlaintextDocstringParser")):
        ci = repo.module(rel).classes[cname]
        for name, fi in ci.methods.items():
            col.touched(fi)
            for n in ast.walk(fi.node):
                tgts = []
                if isinstance(n, (ast.Assign, ast.AugAssign, ast.AnnAssign)):
                    tgts = n.targets if isinstance(n, ast.Assign) else [n.target]
                for t in tgts:
                    e = t
                    while isinstance(e, ast.Subscript):
                        e = e.value
                    if isinstance(e, ast.Attribute) and isinstance(e.value, ast.Name) and e.value.id == "self" and name != "__init__":
                        fields_written.setdefault(e.attr, set()).add(f"{cname}.{name}")
                if isinstance(n, ast.Call) and isinstance(n.func, ast.Attribute) and n.func.attr in ("add", "append", "update", "setdefault", "pop", "clear"):
                    e = n.func.value
                    while isinstance(e, ast.Subscript):
                        e = e.value
                    if isinstance(e, ast.Attribute) and isinstance(e.value, ast.Name) and e.value.id == "self":
                        fields_written.setdefault(e.attr, set()).add(f"{cname}.{name}")
    extra = {f: w for f, w in fields_written.items() if f not in (CACHE_KEY, CACHE_VAL)}
    (col.ok if not extra else col.bad)("C13.CACHE", f"{DOCPARSER}::{DP}::no-other-mutable-state", repo.loc(DOCPARSER, pci.node),
                                       f"fields written after construction: {sorted(fields_written)} (the cache pair only)" if not extra else f"{extra}",
                                       *([] if not extra else [f"the parser keeps further mutable state ({sorted(extra)} written in {sorted(next(iter(extra.values())))}): what a lookup returns depends on the lookups made before it"]))
    memo_obligations(ctx, col, "C13.CACHE", {DOCPARSER, PLAINPARSER})

    # ------------------------------------------------------------------ NODE-LOOKUP
    nfi = pci.methods["_get_griffe_node"]
    col.touched(nfi)
    nit = ctx.interp(nfi)
    nit.run_function(nfi, {"self": Sym("self"), "qname": Sym("qname")}, State({"self": Sym("self"), "self.griffe_build": Sym("ROOT")}))
    loops = [(n, *nit.loops[id(n)][0]) for n in ast.walk(nfi.node) if isinstance(n, ast.For) and id(n) in nit.loops]
    if len(loops) != 1:
        raise AnalysisError("segment loop of _get_griffe_node not found")
    node, itv, el, entry = loops[0]
    for pos, label in ((0, "first segment"), (2, "later segment")):
        e = entry.clone()
        e.env["griffe_node"] = Sym("CUR")
        elem = ListV((Const(pos), Sym("part")), kind="tuple") if isinstance(el, ListV) else Sym("part")
        outs = run_body(nit, node, e, elem)
        skips = [o for o in outs if o.kind == "continue" and o.env.get("griffe_node") == Sym("CUR")]
        key = f"{DOCPARSER}::{DP}._get_griffe_node::{label}"
        if pos == 0 or not isinstance(el, ListV):
            if pos == 0:
                col.ok("C13.NODE-LOOKUP", key, repo.loc(DOCPARSER, node), f"{len(skips)} path(s) skip the root package's own name", nontrivial=bool(skips))
                continue
        if skips:
            col.bad("C13.NODE-LOOKUP", key, repo.loc(DOCPARSER, node), f"{len(skips)} paths `continue` without descending ({fmt_facts(skips[0].facts)[:100]})",
                    "a name segment after the root is skipped when it equals the name of the node reached so far: a class named like its module resolves to the module "
                    "(it gets the module's docstring; looking up its members fails)")
        else:
            col.ok("C13.NODE-LOOKUP", key, repo.loc(DOCPARSER, node), "a later segment always descends one level (or the lookup fails)")

    # ------------------------------------------------------------------ SAME-SUBJECT (visitor lookups)
    vm = repo.module(VISITOR)
    want = {("enter_classdef", "get_class_documentation"): ["node"], ("enter_enumdef", "get_class_documentation"): ["node"], ("enter_funcdef", "get_function_documentation"): ["node"],
            ("enter_funcdef", "get_result_documentation"): ["node.fullname"]}
    for (fn, meth), args in want.items():
        fi = repo.function(VISITOR, f"{VCLS}.{fn}")
        col.touched(fi)
        calls = [n for n in ast.walk(fi.node) if isinstance(n, ast.Call) and isinstance(n.func, ast.Attribute) and n.func.attr == meth]
        got = [[ast.unparse(a) for a in c.args] + [ast.unparse(k.value) for k in c.keywords] for c in calls]
        okk = bool(calls) and all(g == args for g in got)
        (col.ok if okk else col.bad)("C13.SAME-SUBJECT", f"{VISITOR}::{VCLS}.{fn}::{meth}", repo.loc(VISITOR, calls[0] if calls else fi.node), f"{meth}({got})",
                                     *([] if okk else [f"{fn} looks up documentation with {got}, not with the node being built ({args})"]))
    pfi = repo.function(VISITOR, f"{VCLS}._parse_parameter_data")
    col.touched(pfi)
    pit = ctx.interp(pfi)
    pit.run_function(pfi, {"self": Sym("self"), "node": Sym("node"), "function_id": Sym("function_id")}, visitor_state((parent_obj("Module"), parent_obj("Class"))))
    ploops = find_loops(pit, pfi, lambda v: sym_is(v, "node.arguments"))
    okk = False
    got = None
    if len(ploops) == 1:
        node, itv, el, entry = ploops[0]
        for o in run_body(pit, node, entry.clone(), el):
            for e in new_effects(o, entry):
                if e.kind == "call" and e.target.endswith("get_parameter_documentation"):
                    kw = dict(e.kwargs)
                    got = {k: repr(v) for k, v in kw.items()}
                    okk = kw.get("function_qname") == Sym("node.fullname") and kw.get("parameter_name") == Sym("node.arguments[*].variable.name") and kw.get("parent_class_qname") == Sym("PARENT.id")
    (col.ok if okk else col.bad)("C13.SAME-SUBJECT", f"{VISITOR}::{VCLS}._parse_parameter_data::get_parameter_documentation", repo.loc(VISITOR, pfi.node), f"{got}",
                                 *([] if okk else ["parameter documentation is not looked up with the function's qualified name, the argument's own name and the owning class's id"]))
    afi = repo.function(VISITOR, f"{VCLS}._create_attribute")
    col.touched(afi)
    calls = [n for n in ast.walk(afi.node) if isinstance(n, ast.Call) and isinstance(n.func, ast.Attribute) and n.func.attr == "get_attribute_documentation"]
    okk = bool(calls) and all([ast.unparse(a) for a in c.args] == ["parent.id", "name"] for c in calls)
    (col.ok if okk else col.bad)("C13.SAME-SUBJECT", f"{VISITOR}::{VCLS}._create_attribute::get_attribute_documentation", repo.loc(VISITOR, afi.node), f"{[[ast.unparse(a) for a in c.args] for c in calls]}",
                                 *([] if okk else ["attribute documentation is not looked up with the owning class's id and the attribute's own name"]))
    # documentation objects are stored on the element they were looked up for
    for fn, ctor, field_src in (("enter_classdef", "Class", "docstring"), ("enter_funcdef", "Function", "docstring"), ("_create_attribute", "Attribute", "docstring"), ("enter_moduledef", "Module", "docstring")):
        fi = repo.function(VISITOR, f"{VCLS}.{fn}")
        cs = [n for n in ast.walk(fi.node) if isinstance(n, ast.Call) and getattr(n.func, "id", "") == ctor]
        okk = bool(cs) and all(any(k.arg == "docstring" and ast.unparse(k.value) == "docstring" for k in c.keywords) for c in cs)
        (col.ok if okk else col.bad)("C13.SAME-SUBJECT", f"{VISITOR}::{VCLS}.{fn}::{ctor}.docstring", repo.loc(VISITOR, cs[0] if cs else fi.node), f"{ctor}(docstring=docstring)" if okk else "differs",
                                     *([] if okk else [f"the {ctor} built in {fn} does not carry the documentation looked up for it"]))

    # ------------------------------------------------------------------ SAME-SUBJECT (generator)
    gen_sites = [("_create_class_string", "class_", "self._create_sds_docstring", ("class_.docstring", "class_")), ("_create_function_string", "function", "self._create_sds_docstring", ("function.docstring", "function")),
                 ("_create_enum_string", "enum_data", "self._create_sds_docstring", ("enum_data.docstring", None)),
                 ("_create_property_function_string", "function", "self._create_sds_docstring_description", ("function.docstring.description", None)),
                 ("_create_module_string", "module", "self._create_sds_docstring_description", ("module.docstring", None))]
    for fname, param, callee, (doc_path, node_path) in gen_sites:
        fi = repo.function(GEN, f"{GENCLS}.{fname}")
        col.touched(fi)
        outs = ctx.interp(fi).run_function(fi, {"self": Sym("self"), param: Sym(param), "in_reexport_module": Const(True)}, gen_state())
        calls = [e for o in outs for e in o.effects if e.kind == "call" and e.target == callee]
        probs = []
        for e in calls:
            if not (e.args and e.args[0] == Sym(doc_path)):
                probs.append(f"docstring argument {e.args[0] if e.args else None!r}")
            if node_path is not None:
                nd = dict(e.kwargs).get("node", e.args[2] if len(e.args) > 2 else None)
                if nd != Sym(node_path):
                    probs.append(f"node argument {nd!r}")
        used = any(any(isinstance(x, App) and x.func == callee for x in walk_av(o.value)) for o in outs if o.kind == "return")
        key = f"{GEN}::{GENCLS}.{fname}::comment-of-own-element"
        (col.ok if calls and not probs and used else col.bad)("C13.SAME-SUBJECT", key, repo.loc(GEN, fi.node),
                                                              f"{callee.split('.')[1]}({doc_path}{', node=' + node_path if node_path else ''}) embedded in the declaration text" if calls and not probs and used else "; ".join(sorted(set(probs))) or "no call / not embedded",
                                                              *([] if calls and not probs and used else [f"{fname} does not render the documentation of the element it emits ({(sorted(set(probs)) or ['comment missing'])[0]})"]))
    afi2 = repo.function(GEN, f"{GENCLS}._create_class_attribute_string")
    ait = ctx.interp(afi2)
    ait.run_function(afi2, {"self": Sym("self"), "attributes": Sym("attributes"), "inner_indentations": Sym("ind")}, gen_state())
    ls = find_loops(ait, afi2, lambda v: sym_is(v, "attributes"))
    okk = False
    if len(ls) == 1:
        node, _, el, entry = ls[0]
        a = Obj("Attribute", (("is_public", Const(True)), ("type", Const(None)), ("is_static", Const(False)), ("name", Sym("A.name")), ("docstring", Sym("A.docstring"))))
        okk = all(any(e.kind == "call" and e.target == "self._create_sds_docstring" and e.args and e.args[0] == Sym("A.docstring") for e in new_effects(o, entry))
                  for o in run_body(ait, node, entry.clone(), a) if o.kind == "fall")
    (col.ok if okk else col.bad)("C13.SAME-SUBJECT", f"{GEN}::{GENCLS}._create_class_attribute_string::comment-of-own-element", repo.loc(GEN, afi2.node),
                                 "each attribute is rendered with its own docstring" if okk else "differs", *([] if okk else ["an attribute is rendered with another element's documentation"]))

    # ------------------------------------------------------------------ COMMENT-PARTS
    dfi = repo.function(GEN, f"{GENCLS}._create_sds_docstring")
    col.touched(dfi)
    for cls, pcoll in (("Function", "NODE.parameters"), ("Class", "NODE.constructor.parameters")):
        nodeobj = Obj(cls, (("parameters", Sym("NODE.parameters")), ("constructor", Obj("Function", (("parameters", Sym("NODE.constructor.parameters")),))), ("result_docstrings", Sym("NODE.result_docstrings"))))
        douts = ctx.interp(dfi).run_function(dfi, {"self": Sym("self"), "docstring": Sym("docstring"), "indentations": Sym("ind"), "node": nodeobj}, gen_state())
        txts = [render(o.value) for o in douts if o.kind == "return"]
        p_ok = any(f"<{pcoll}[*].docstring.description>" in t and f"<{pcoll}[*].name>" in t and "@param" in t for t in txts)
        d_ok = any("<docstring.description>" in t for t in txts)
        r_ok = cls != "Function" or any("@result" in t and "NODE.result_docstrings[*]" in t for t in txts)
        foreign = [t for t in txts if re.search(r"<(?!docstring|ind|NODE|self)[A-Za-z_]+\.", t)]
        okk = p_ok and d_ok and r_ok and not foreign
        (col.ok if okk else col.bad)("C13.COMMENT-PARTS", f"{GEN}::{GENCLS}._create_sds_docstring::{cls}", repo.loc(GEN, dfi.node),
                                     f"description from docstring.description; @param from {pcoll}[*]; @result from the node's result docstrings" if okk else f"param={p_ok} desc={d_ok} result={r_ok} foreign={len(foreign)}",
                                     *([] if okk else [f"the documentation comment of a {cls} is not assembled from that element's own description / parameters / results"]))
    # description text is copied line by line
    pfi2 = repo.function(GEN, f"{GENCLS}._create_docstring_description_part")
    col.touched(pfi2)
    pouts = ctx.interp(pfi2).run_function(pfi2, {"description": Sym("description"), "indentations": Sym("ind")})
    okk = bool(pouts) and all(o.kind == "return" for o in pouts) and any("elem(.split(" in repr(o.value) and "<description>" in repr(o.value) for o in pouts)
    (col.ok if okk else col.bad)("C13.COMMENT-PARTS", f"{GEN}::{GENCLS}._create_docstring_description_part", repo.loc(GEN, pfi2.node),
                                 "every line of the description (split at line breaks) is part of the result" if okk else "differs",
                                 *([] if okk else ["description lines are not copied line by line"]))

    # ------------------------------------------------------------------ MODULE-DOC
    mfi = repo.function(VISITOR, f"{VCLS}.enter_moduledef")
    col.touched(mfi)
    mit = ctx.interp(mfi)
    mit.run_function(mfi, {"self": Sym("self"), "node": Sym("node")}, visitor_state(()))
    mloops = [(n, *mit.loops[id(n)][0]) for n in ast.walk(mfi.node) if isinstance(n, ast.For) and id(n) in mit.loops and "definitions" in ast.unparse(n.iter)]
    okk = False
    if len(mloops) == 1:
        node, itv, el, entry = mloops[0]
        d = Obj("ExpressionStmt", (("expr", Obj("StrExpr", (("value", Sym("DOC")),))),))
        outs = run_body(mit, node, entry.clone(), d)
        one_only = isinstance(node.iter, ast.Subscript) and ast.unparse(node.iter.slice) == ":1"  # a loop over the first statement needs no exit
        okk = bool(outs) and all((o.kind == "break" or one_only) and o.env.get("docstring") == Sym("DOC") for o in outs)
        other = run_body(mit, node, entry.clone(), Obj("ExpressionStmt", (("expr", Obj("CallExpr", ())),)))
        okk = okk and all(o.kind != "break" and o.env.get("docstring") == entry.env.get("docstring") for o in other)
    if not mloops:
        # no search at all: the first statement is taken by index and its string value becomes the docstring
        idx = [n for n in ast.walk(mfi.node) if isinstance(n, ast.Assign) and any(isinstance(t, ast.Name) and t.id == "docstring" for t in n.targets)
               and any(isinstance(x, ast.Subscript) and ast.unparse(x.slice) == "0" and "definitions" in ast.unparse(x.value) for x in ast.walk(n.value))]
        okk = len(idx) == 1
    (col.ok if okk else col.bad)("C13.MODULE-DOC", f"{VISITOR}::{VCLS}.enter_moduledef::first-string-wins", repo.loc(VISITOR, mfi.node),
                                 "the search stops at the first top-level string statement; other statements leave the docstring untouched" if okk else "loop shape differs",
                                 *([] if okk else ["the module docstring is not the first top-level string: a later bare string (e.g. an attribute docstring) replaces the module description"]))

    # ... and that statement is the module's first statement: a string that follows imports, constants or definitions (the attribute docstring
    # `LIMIT = 3` / `"""The limit."""` of PEP 257) documents something else.  The search must therefore not skip statements: neither by running
    # over a filtered list of the definitions nor by continuing past a statement that is no string.
    def module_doc_first_statement() -> tuple[bool, str]:
        subs = [n for n in ast.walk(mfi.node) if isinstance(n, ast.Subscript) and ast.unparse(n.slice) in ("0", ":1") and "definitions" in ast.unparse(n.value)]
        if not mloops:
            return (bool(subs), "only the first statement is consulted" if subs else "neither a loop over the module's statements nor a use of its first statement found")
        node = mloops[0][0]
        src = ast.unparse(node.iter)
        # where does the iterated list come from?
        filtered = [a for a in ast.walk(mfi.node) if isinstance(a, ast.Assign) and any(isinstance(t, ast.Name) and t.id == src for t in a.targets)
                    and isinstance(a.value, (ast.ListComp, ast.GeneratorExp)) and any(g.ifs for g in a.value.generators)]
        if filtered:
            return False, f"the search runs over `{src}`, a filtered copy of the module's statements (line {filtered[0].lineno}): the statements before a string are taken out"
        exits_always = bool(node.body) and isinstance(node.body[-1], (ast.Break, ast.Return)) or (
            len(node.body) == 1 and isinstance(node.body[0], ast.If) and node.body[0].orelse and all(isinstance(b[-1], (ast.Break, ast.Return)) for b in (node.body[0].body, node.body[0].orelse)))
        sliced = isinstance(node.iter, ast.Subscript) and ast.unparse(node.iter.slice) == ":1"
        return (exits_always or sliced, "the search never goes past the first statement" if exits_always or sliced else "the search continues past statements that are no strings")
    okk, why = module_doc_first_statement()
    (col.ok if okk else col.bad)("C13.MODULE-DOC", f"{VISITOR}::{VCLS}.enter_moduledef::first-statement-only", repo.loc(VISITOR, mloops[0][0] if mloops else mfi.node), why,
                                 *([] if okk else ["a module without a docstring takes the first bare string statement anywhere at top level as its description: `import os` / `LIMIT = 3` / "
                                                   "`\"\"\"The limit of things.\"\"\"` (an attribute docstring) puts `The limit of things.` above the package line - text reaches an element it does not belong to"]))

    # plaintext style: the docstring of a class / function is its first statement, if that is a string - not a later string statement such as the
    # docstring of an attribute ("string below the assignment") or a stray string
    from ..core.ctx import DOCHELPERS as _DH
    hfi = repo.function(_DH, "get_full_docstring")
    col.touched(hfi)
    dloops = [n for n in ast.walk(hfi.node) if isinstance(n, ast.For) and "definitions" in ast.unparse(n.iter)]
    first_only = any(isinstance(n, ast.Subscript) and isinstance(n.value, ast.Name) and n.value.id == "definitions" and ast.unparse(n.slice) in ("0", ":1") for n in ast.walk(hfi.node))
    okk = False
    why = "no loop over the statements and no use of the first statement found"
    if dloops:
        lp = dloops[0]
        exits_always = bool(lp.body) and isinstance(lp.body[-1], (ast.Break, ast.Return)) or (
            len(lp.body) == 1 and isinstance(lp.body[0], ast.If) and lp.body[0].orelse and all(isinstance(b[-1], (ast.Break, ast.Return)) for b in (lp.body[0].body, lp.body[0].orelse)))
        sliced = isinstance(lp.iter, ast.Subscript) and ast.unparse(lp.iter.slice) == ":1"
        okk = exits_always or sliced
        why = "the loop never goes past the first statement" if okk else f"the loop at line {lp.lineno} visits every statement and keeps the last string it sees"
    elif first_only:
        okk, why = True, "only the first statement is consulted"
    (col.ok if okk else col.bad)("C13.MODULE-DOC", f"{_DH}::get_full_docstring::first-statement-only", repo.loc(_DH, dloops[0] if dloops else hfi.node), why,
                                 *([] if okk else ["with the plaintext style the description of a class or function is the *last* string statement of its body: a class that documents its attributes with a string below "
                                                   "the assignment (`x: int = 1` / `\"\"\"Doc of x.\"\"\"`) gets `Doc of x.` as its description and loses its own docstring"]))

    # ------------------------------------------------------------------ STYLE-INDEPENDENT
    justified = {
        ("get_result_documentation", "Parser.numpy"): "numpydoc names its results and lists several entries; handled by its own branch (the other branch is the listed finding get_result_documentation::every-entry)",
        ("get_result_documentation", "Parser.google"): "griffe's Google parser stores a lone type in the name field of a Returns entry; the branch moves it back",
        ("_remove_default_from_griffe_annotation", "Parser.numpy"): "only numpydoc writes ', default=...' into the type field",
    }
    nsites = 0
    for mname, mfi2 in pci.methods.items():
        for n in ast.walk(mfi2.node):
            if isinstance(n, ast.Compare) and ast.unparse(n.left) == "self.parser" and len(n.comparators) == 1:
                nsites += 1
                col.touched(mfi2)
                style = ast.unparse(n.comparators[0])
                key = f"{DOCPARSER}::{DP}.{mname}::style-branch::{style}"
                why = justified.get((mname, style))
                if why:
                    col.ok("C13.STYLE-INDEPENDENT", key, repo.loc(DOCPARSER, n), f"`{ast.unparse(n)}`: {why}")
                else:
                    col.bad("C13.STYLE-INDEPENDENT", key, repo.loc(DOCPARSER, n), f"`{ast.unparse(n)}` in {mname}",
                            f"{mname} does something for the style {style} only (`{ast.unparse(repo.parent(n))[:90]}`) that is not a difference of the styles' syntax: "
                            f"the same docstring content reaches the stub under one style and is lost under the others (e.g. constructor parameters documented in the __init__ docstring)")
    if nsites < 3:
        raise AnalysisError("style comparisons of the docstring parser not found")

    # ------------------------------------------------------------------ SECTION-KINDS
    mfi = pci.methods["_get_matching_docstrings"]
    col.touched(mfi)
    used = {n.attr for n in ast.walk(mfi.node) if isinstance(n, ast.Attribute) and isinstance(n.value, ast.Name) and n.value.id == "DocstringSectionKind"}
    try:
        import importlib.util
        from pathlib import Path
        spec = importlib.util.find_spec("_griffe")
        enum_src = (Path(list(spec.submodule_search_locations)[0]) / "enumerations.py").read_text()
        members = set(re.findall(r"^\s+(\w+)\s*=\s*\"[\w ]+\"", enum_src[enum_src.index("class DocstringSectionKind"):enum_src.index("class ", enum_src.index("class DocstringSectionKind") + 10)], re.M))
    except Exception as e:  # noqa: BLE001
        raise AnalysisError(f"griffe's DocstringSectionKind not found: {e}") from e
    for role, pat in (("param", "parameters"), ("attr", "attributes")):
        want = {m for m in members if pat in m}
        key = f"{DOCPARSER}::{DP}._get_matching_docstrings::kinds::{role}"
        if not want:
            raise AnalysisError(f"no DocstringSectionKind member for {pat}")
        missing = sorted(want - used)
        if missing:
            col.bad("C13.SECTION-KINDS", key, repo.loc(DOCPARSER, mfi.node), f"griffe section kinds for {pat}: {sorted(want)}; consulted: {sorted(used)}",
                    f"the documentation of a {role} is not searched in sections of kind {missing} (e.g. numpydoc 'Other Parameters', Google 'Keyword Args'): its text never reaches the stub")
        else:
            col.ok("C13.SECTION-KINDS", key, repo.loc(DOCPARSER, mfi.node), f"all griffe section kinds for {pat} are consulted: {sorted(want)}")
    brk = [n for n in ast.walk(mfi.node) if isinstance(n, ast.Break)]
    key = f"{DOCPARSER}::{DP}._get_matching_docstrings::no-early-exit"
    if brk:
        col.bad("C13.SECTION-KINDS", key, repo.loc(DOCPARSER, brk[0]), "the section search stops at the first matching section",
                "only the first matching section of a docstring is searched: an element documented in a later section of the same or a related kind loses its text")
    else:
        col.ok("C13.SECTION-KINDS", key, repo.loc(DOCPARSER, mfi.node), "every section of the docstring is inspected")

    # ------------------------------------------------------------------ SECTION-KINDS (returns): every entry of the section is used
    rfi2 = pci.methods["get_result_documentation"]
    col.touched(rfi2)
    it2 = ctx.interp(rfi2)
    it2.summaries[("self.__get_cached_docstring", "*")] = Sym("DOC")
    outs2 = it2.run_function(rfi2, {"self": Sym("self"), "function_qname": Sym("qname")}, State({"self": Sym("self"), "self.parser": Sym("self.parser")}))
    first_only, whole = [], []
    for o in outs2:
        if o.kind != "return" or not isinstance(o.value, ListV) or not o.value.items:
            continue
        paths = {x.path for x in walk_av(o.value) if isinstance(x, Sym)}
        (first_only if any(".value[0]" in p_ for p_ in paths) else whole).append(o)
    key = f"{DOCPARSER}::{DP}.get_result_documentation::every-entry"
    if first_only or not whole:
        o = first_only[0] if first_only else None
        col.bad("C13.SECTION-KINDS", key, repo.loc(DOCPARSER, rfi2.node), f"{len(first_only)} of {len(first_only) + len(whole)} non-empty result paths are built from `value[0]` only" if o else "no path over the entries",
                "for some docstring styles only the first entry of the Returns section becomes a result documentation: the texts of further entries (Google: 'count (int): ...' / 'label (str): ...') are lost")
    else:
        col.ok("C13.SECTION-KINDS", key, repo.loc(DOCPARSER, rfi2.node), f"all {len(whole)} non-empty result paths iterate the entries of the Returns section")

    # ------------------------------------------------------------------ RESULT-DOC-NAME
    rdfi = repo.function(GEN, f"{GENCLS}._create_sds_docstring")
    rit = ctx.interp(rdfi)
    fn_node = Obj("Function", (("result_docstrings", Sym("node.result_docstrings")), ("parameters", ListV(())), ("name", Sym("node.name"))))
    rit.run_function(rdfi, {"self": Sym("self"), "docstring": Sym("docstring"), "indentations": Sym("ind"), "node": fn_node}, gen_state())
    rl = find_loops(rit, rdfi, lambda v: sym_is(v, "node.result_docstrings"))
    if len(rl) != 1:
        raise AnalysisError("result loop of _create_sds_docstring not found")
    rnode, _, _, rentry = rl[0]
    for named in (True, False):
        for described in (True, False):
            el = Obj("ResultDocstring", (("name", Const("res") if named else Const("")), ("description", Const("text") if described else Const("")), ("type", Sym("R.type"))))
            outs = run_body(rit, rnode, rentry.clone(), el)
            draws = {sum(1 for e in new_effects(o, rentry) if e.kind == "call" and e.target == "next") for o in outs if o.kind != "raise"}
            want = {0} if named else {1}
            key = f"{GEN}::{GENCLS}._create_sds_docstring::result-name::named={named},described={described}"
            if draws == want:
                col.ok("C13.RESULT-DOC-NAME", key, repo.loc(GEN, rnode), f"generated names drawn per iteration: {sorted(draws)}")
            else:
                col.bad("C13.RESULT-DOC-NAME", key, repo.loc(GEN, rnode), f"generated names drawn per iteration: {sorted(draws)}, reference {sorted(want)}",
                        f"for a result that is {'named' if named else 'unnamed'} and {'described' if described else 'not described'} the @result loop draws {sorted(draws)} generated name(s) instead of {sorted(want)}: "
                        f"the numbering of the documented results drifts from the numbering of the signature (e.g. 'Returns: int / str: text' documents the text as result_1)")

    # the documentation objects a function is built from are not consumed on the way: the list of result docstrings handed to _parse_results is
    # the list enter_funcdef stores in the Function, from which the generator writes the @result lines
    from ..core.ctx import VISITOR as _VIS2
    for q2 in ("MyPyAstVisitor._parse_results", "MyPyAstVisitor._create_inferred_results", "MyPyAstVisitor._parse_parameter_data"):
        f2 = repo.maybe_function(_VIS2, q2)
        if f2 is None:
            continue
        col.touched(f2)
        doc_params = [p for p in f2.params() if "docstring" in p]
        for pname in doc_params:
            rebound = [x.lineno for x in ast.walk(f2.node) if isinstance(x, ast.Assign) and any(isinstance(t, ast.Name) and t.id == pname for t in x.targets)
                       and isinstance(x.value, ast.Call) and (getattr(x.value.func, "id", "") in ("list", "sorted", "tuple") or getattr(x.value.func, "attr", "") in ("copy",))]
            muts = [x for x in ast.walk(f2.node) if isinstance(x, ast.Call) and isinstance(x.func, ast.Attribute) and isinstance(x.func.value, ast.Name) and x.func.value.id == pname
                    and x.func.attr in ("remove", "pop", "clear", "append", "extend", "insert", "sort", "reverse") and not any(r < x.lineno for r in rebound)]
            muts += [x for x in ast.walk(f2.node) if isinstance(x, (ast.Delete,)) and any(isinstance(t, ast.Subscript) and isinstance(t.value, ast.Name) and t.value.id == pname for t in x.targets)]
            key = f"{_VIS2}::{q2}::{pname}-not-consumed"
            (col.ok if not muts else col.bad)("C13.RESULT-DOC-NAME", key, repo.loc(_VIS2, muts[0] if muts else f2.node),
                                              f"`{pname}` is only read" if not muts else f"`{ast.unparse(muts[0])[:60]}`",
                                              *([] if not muts else [f"{q2} changes the list `{pname}` it was handed (`{ast.unparse(muts[0])[:50]}`): the caller stores the same list in the Function, so the "
                                                                     f"documentation of the entries taken out is missing from the stub (`@result` lines vanish when the documented results are matched to a tuple hint by type)"]))

    # ------------------------------------------------------------------ ACCUMULATE
    for gname in ("get_class_documentation", "get_function_documentation"):
        gfi2 = pci.methods[gname]
        col.touched(gfi2)
        # the sections are walked in the function itself or in a helper of the class it hands the docstring to
        scopes = [gfi2] + [pci.methods[c.func.attr] for c in ast.walk(gfi2.node) if isinstance(c, ast.Call) and isinstance(c.func, ast.Attribute) and c.func.attr in pci.methods
                           and isinstance(c.func.value, ast.Name) and c.func.value.id in ("self", "cls", DP) and c.func.attr != gname
                           and not c.func.attr.startswith("get_") and "cached" not in c.func.attr]
        keyed = [(sc, n) for sc in scopes for n in ast.walk(sc.node) if isinstance(n, ast.DictComp) and any(ast.unparse(g.iter).endswith(".parsed") for g in n.generators) and ".kind" in ast.unparse(n.key)]
        if keyed:
            sc, n = keyed[0]
            col.bad("C13.ACCUMULATE", f"{DOCPARSER}::{DP}.{gname}::sections-by-kind", repo.loc(DOCPARSER, n), f"`{ast.unparse(n)[:90]}` in {sc.qualname}",
                    f"{gname}: the sections of the docstring are collected into a dict keyed by their kind (`{ast.unparse(n)[:70]}`): a docstring with two sections of one kind "
                    f"(text before and after the parameter section, two example blocks) keeps only the last of them in the stub")
            continue
        found = [(sc, n) for sc in scopes for n in ast.walk(sc.node) if isinstance(n, ast.For) and ast.unparse(n.iter).endswith(".parsed")]
        if len(found) != 1:
            raise AnalysisError(f"{gname}: section loop not found")
        gfi2, loop = found[0]
        col.touched(gfi2)
        returned = {x.id for r in ast.walk(gfi2.node) if isinstance(r, ast.Return) and r.value is not None for x in ast.walk(r.value) if isinstance(x, ast.Name)}
        updated: dict[str, list[ast.AST]] = {}
        for n in ast.walk(loop):
            if isinstance(n, ast.Assign):
                for t in n.targets:
                    if isinstance(t, ast.Name):
                        updated.setdefault(t.id, []).append(n)
            elif isinstance(n, ast.AugAssign) and isinstance(n.target, ast.Name):
                updated.setdefault(n.target.id, []).append(n)
            elif isinstance(n, ast.Call) and isinstance(n.func, ast.Attribute) and n.func.attr in ("append", "extend", "add", "update") and isinstance(n.func.value, ast.Name):
                updated.setdefault(n.func.value.id, []).append(n)
        loop_targets = {x.id for f in ast.walk(loop) if isinstance(f, (ast.For, ast.comprehension)) for x in ast.walk(f.target) if isinstance(x, ast.Name)}
        for var in sorted((set(updated) & returned) - loop_targets):
            bad_updates = []
            for n in updated[var]:
                if isinstance(n, ast.Assign):
                    # an assignment keeps the earlier sections only if its value is built from the variable itself
                    if not any(isinstance(x, ast.Name) and x.id == var for x in ast.walk(n.value)):
                        bad_updates.append(n)
            key = f"{DOCPARSER}::{DP}.{gname}::{var}"
            if bad_updates:
                col.bad("C13.ACCUMULATE", key, repo.loc(DOCPARSER, bad_updates[0]), f"`{ast.unparse(bad_updates[0])[:80]}` inside the section loop",
                        f"{gname}: `{var}` is overwritten for every matching section of the docstring (`{ast.unparse(bad_updates[0])[:60]}`): with two such sections "
                        f"(e.g. text before and after the parameter section) only the last one reaches the stub")
            else:
                col.ok("C13.ACCUMULATE", key, repo.loc(DOCPARSER, updated[var][0]), f"`{var}`: {len(updated[var])} update(s) in the section loop, all accumulating")

    # ------------------------------------------------------------------ EXAMPLE-LINES
    dit = ctx.interp(dfi)
    dit.run_function(dfi, {"self": Sym("self"), "docstring": Sym("docstring"), "indentations": Sym("ind"), "node": Const(None)}, gen_state())
    inner = [(n, *dit.loops[id(n)][0]) for n in ast.walk(dfi.node) if isinstance(n, ast.For) and id(n) in dit.loops and "split" in ast.unparse(n.iter)]
    if not inner:
        raise AnalysisError("example line loop not found")
    node, itv, el, entry = inner[-1]
    for prompt, other in ((">>>", "..."), ("...", ">>>")):
        outs = run_body(dit, node, entry.clone(), Sym("LINE"))
        probs = []
        seen = False
        for o in outs:
            f_this = [v for k, v in o.facts if f".startswith(<LINE>, '{prompt}')" in k]
            f_other = [v for k, v in o.facts if f".startswith(<LINE>, '{other}')" in k]
            if not (f_this and f_this[-1] is True):
                continue
            if prompt == "..." and not (f_other and f_other[-1] is False):
                continue
            seen = True
            reps = [x for name, v in o.env.items() if isinstance(v, (StrT,)) and entry.env.get(name) != v for x in walk_av(v) if isinstance(x, App) and x.func == ".replace"]
            if len(reps) != 1 or reps[0].args[0] != Sym("LINE") or reps[0].args[1] != Const(prompt):
                probs.append(f"line is rewritten by {[repr(r) for r in reps]}")
            elif len(reps[0].args) < 4 or reps[0].args[3] != Const(1):
                # str.replace without a count rewrites every occurrence, also those inside the code of the line
                probs.append(f"every occurrence of '{prompt}' in the line is replaced (str.replace without count 1), not only the leading marker")
            elif any(isinstance(a, App) and a.func == ".replace" for a in reps[0].args):
                probs.append("nested replacements")
        key = f"{GEN}::{GENCLS}._create_sds_docstring::example-line::{prompt}"
        (col.ok if seen and not probs else col.bad)("C13.EXAMPLE-LINES", key, repo.loc(GEN, node), f"a '{prompt}' line: only its own marker is replaced by '//'" if seen and not probs else "; ".join(sorted(set(probs))) or "branch not found",
                                                    *([] if seen and not probs else [f"an example line starting with '{prompt}': {(sorted(set(probs)) or ['not handled'])[0]} - code text inside the line is altered"]))
    col.assume("line-for-line fidelity beyond the copied holes (string processing inside griffe), the equivalence of the three structured styles and which example lines survive are not decided")
