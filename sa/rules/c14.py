"""C14 — type-source preference settles only real conflicts; warnings never alter output."""
from __future__ import annotations

import ast

from ..core.absint import AV, App, Const, EnumM, ListV, Obj, Outcome, State, Sym, walk_av
from ..core.ctx import CLI, ENUMS, GETAPI, VISITOR, Ctx
from ..core.report import Collector
from ..core.source import AnalysisError
from .common import find_loops, fmt_facts, new_effects, run_body, sym_is

T1 = Obj("sds.NamedType", (("name", Const("int")), ("qname", Const("builtins.int"))))
T2 = Obj("sds.NamedType", (("name", Const("str")), ("qname", Const("builtins.str"))))
PREF = "TypeSourcePreference"
WARN = "TypeSourceWarning"


def is_logging(e) -> bool:
    return e.kind == "call" and e.target.startswith("logging.")


def check(ctx: Ctx, col: Collector, tier: str) -> None:
    repo = ctx.repo
    col.spec("C14.DECISION", "hint under CODE, docstring type under DOCSTRING, the only available source otherwise; a "
             "warning exactly when both sources give different types and warnings are enabled",
             "specialisation of the two reconciliation loops over {hint} x {doc type} x {equal/different} x preference x warning",
             floor=40)
    col.spec("C14.WARN-SLICE", "the warning option affects log output only", "forward slice of type_source_warning: every "
             "use is the condition of a statement block that only logs", floor=3)
    col.spec("C14.PREF-SLICE", "the preference only decides between two present types", "forward slice of type_source_preference", floor=3)
    col.spec("C14.ENUM-PARSE", "option values are parsed consistently", "shape of from_string and of the argparse wiring", floor=4)

    fi = repo.function(VISITOR, "MyPyAstVisitor.enter_funcdef")
    col.touched(fi)
    key0 = f"{VISITOR}::MyPyAstVisitor.enter_funcdef"

    def fresh(pref: str, warn: str):
        it = ctx.interp(fi)
        st = State({"self": Sym("self"), "self.type_source_preference": EnumM(PREF, pref), "self.type_source_warning": EnumM(WARN, warn)})
        it.run_function(fi, {"self": Sym("self"), "node": Sym("node")}, st)
        return it

    for pref in ("CODE", "DOCSTRING"):
        for warn in ("WARN", "IGNORE"):
            it = fresh(pref, warn)
            ploops = find_loops(it, fi, lambda v: isinstance(v, App) and v.func == "enumerate" and v.args and "_parse_parameter_data" in repr(v.args[0]))
            rloops = find_loops(it, fi, lambda v: isinstance(v, App) and v.func in ("zip_longest", "zip"))
            if len(ploops) != 1 or len(rloops) != 1:
                raise AnalysisError(f"reconciliation loops not found in enter_funcdef (parameters {len(ploops)}, results {len(rloops)})")
            # ---------------- parameters
            node, itv, elem, entry = ploops[0]
            for cname, code in (("absent", Const(None)), ("int", T1)):
                for dname, doc in (("absent", Const(None)), ("int", T1), ("str", T2)):
                    p = Obj("Parameter", (("type", code), ("docstring", Obj("ParameterDocstring", (("type", doc), ("default_value", Const("")), ("description", Const(""))))),
                                          ("name", Sym("P.name")), ("default_value", Sym("P.default_value")), ("is_optional", Sym("P.is_optional"))))
                    el = ListV((Sym("i"), p), kind="tuple")
                    outs = run_body(it, node, entry.clone(), el)
                    warned = {any(is_logging(e) for e in new_effects(o, entry)) for o in outs}
                    overridden = set()
                    for o in outs:
                        st = [e for e in new_effects(o, entry) if e.kind == "store" and e.target.endswith("[]")]
                        ov = False
                        for e in st:
                            v = e.args[1]
                            if isinstance(v, App) and v.func.endswith("replace") and dict(v.kwargs).get("type") == doc:
                                ov = True
                            elif any(x == doc for x in walk_av(v)) and doc != Const(None):
                                ov = True
                        overridden.add(ov)
                    both = code != Const(None) and doc != Const(None)
                    want_warn = both and code != doc and warn == "WARN"
                    want_ov = doc != Const(None) and (code == Const(None) or pref == "DOCSTRING")
                    key = f"{key0}::parameter::hint={cname},doc={dname},{pref},{warn}"
                    if warned == {want_warn} and overridden == {want_ov}:
                        col.ok("C14.DECISION", key, repo.loc(VISITOR, node), f"warn={want_warn} use-docstring-type={want_ov}")
                    else:
                        col.bad("C14.DECISION", key, repo.loc(VISITOR, node), f"warn={sorted(warned)} (reference {want_warn}), use-docstring-type={sorted(overridden)} (reference {want_ov})",
                                f"parameter with hint {cname}, docstring type {dname} under {pref}/{warn}: warns={sorted(warned)}, takes docstring type={sorted(overridden)}; "
                                f"the property requires warns={want_warn}, takes docstring type={want_ov}")
            # ---------------- results
            node, itv, elem, entry = rloops[0]
            for cname, code in (("absent", Const(None)), ("int", Obj("Result", (("type", T1), ("name", Sym("R.name")), ("id", Sym("R.id")))))):
                for dname, doc in (("absent", Const(None)), ("int", T1), ("str", T2)):
                    rd = Obj("ResultDocstring", (("type", doc), ("name", Sym("D.name")), ("description", Const(""))))
                    el = ListV((code, rd), kind="tuple")
                    outs = run_body(it, node, entry.clone(), el)
                    warned = {any(is_logging(e) for e in new_effects(o, entry)) for o in outs}
                    overridden, appended = set(), set()
                    for o in outs:
                        eff = new_effects(o, entry)
                        ov = any(e.kind == "store" and e.target.endswith("[]") and any(x == doc for x in walk_av(e.args[1])) for e in eff) and doc != Const(None)
                        ap = any(e.kind in ("mutate", "call") and e.target.endswith(".append") and e.args and isinstance(e.args[0], Obj) and e.args[0].cls == "Result"
                                 and e.args[0].get("type") == doc for e in eff)
                        overridden.add(ov)
                        appended.add(ap)
                    both = code != Const(None) and doc != Const(None)
                    code_t = T1 if code != Const(None) else None
                    want_warn = both and code_t != doc and warn == "WARN"
                    want_ov = both and pref == "DOCSTRING"
                    want_ap = code == Const(None) and doc != Const(None)
                    key = f"{key0}::result::hint={cname},doc={dname},{pref},{warn}"
                    if warned == {want_warn} and overridden == {want_ov} and appended == {want_ap}:
                        col.ok("C14.DECISION", key, repo.loc(VISITOR, node), f"warn={want_warn} use-docstring-type={want_ov} append-missing={want_ap}")
                    else:
                        col.bad("C14.DECISION", key, repo.loc(VISITOR, node),
                                f"warn={sorted(warned)} (ref {want_warn}), override={sorted(overridden)} (ref {want_ov}), append={sorted(appended)} (ref {want_ap})",
                                f"result with hint {cname}, docstring type {dname} under {pref}/{warn}: warns={sorted(warned)}, takes docstring type={sorted(overridden)}, "
                                f"adds missing result={sorted(appended)}; the property requires {want_warn}/{want_ov}/{want_ap}")

    # ------------------------------------------------------------------ slices
    vm = repo.module(VISITOR)

    def uses(attr: str):
        out = []
        for f in vm.functions.values():
            for n in ast.walk(f.node):
                if isinstance(n, ast.Attribute) and n.attr == attr and isinstance(n.value, ast.Name) and n.value.id == "self":
                    out.append((f, n))
        return out

    def enclosing_if(f, n):
        cur = repo.parent(n)
        prev = n
        while cur is not None and cur is not f.node:
            if isinstance(cur, (ast.If, ast.IfExp, ast.While)) and _within(cur.test, prev):
                return cur
            prev = cur
            cur = repo.parent(cur)
        return None

    def _within(root, node) -> bool:
        return any(x is node for x in ast.walk(root))

    nw = 0
    for f, n in uses("type_source_warning"):
        if isinstance(n.ctx, ast.Store):
            col.ok("C14.WARN-SLICE", f"{VISITOR}::{f.qualname}::store", repo.loc(VISITOR, n), "stored from the constructor argument", nontrivial=False)
            continue
        nw += 1
        iff = enclosing_if(f, n)
        key = f"{VISITOR}::{f.qualname}::use@{'result' if 'result' in ast.unparse(iff.test) else 'parameter'}" if iff is not None else f"{VISITOR}::{f.qualname}::use"
        if iff is None or not isinstance(iff, ast.If):
            col.bad("C14.WARN-SLICE", key, repo.loc(VISITOR, n), "not inside an if-condition", "the warning option is read outside a condition that only guards logging: it can influence the API model")
            continue
        body_ok = all(
            (isinstance(s, ast.Assign) and not any(isinstance(t, (ast.Attribute, ast.Subscript)) for t in s.targets))
            or (isinstance(s, ast.Expr) and isinstance(s.value, ast.Call) and ast.unparse(s.value.func).startswith("logging."))
            for s in iff.body)
        assigned = {t.id for s in iff.body if isinstance(s, ast.Assign) for t in s.targets if isinstance(t, ast.Name)}
        # names assigned in the guarded block must not be read after it (except by the logging call inside)
        leaked = []
        in_loop = any(isinstance(l, (ast.For, ast.While)) and _within(l, iff) for l in ast.walk(f.node))
        for x in ast.walk(f.node):
            if isinstance(x, ast.Name) and isinstance(x.ctx, ast.Load) and x.id in assigned and not _within(iff, x) and (x.lineno > iff.end_lineno or in_loop):
                # a read outside the guarded block is harmless only if the same statement list assigns the name anew before it
                # (a read above the block inside the same loop sees the value of the previous iteration)
                blk_owner = repo.parent(x)
                stmt = x
                while blk_owner is not None and not any(isinstance(getattr(blk_owner, fld, None), list) and any(stmt is y for y in getattr(blk_owner, fld)) for fld in ("body", "orelse", "finalbody")):
                    stmt, blk_owner = blk_owner, repo.parent(blk_owner)
                re_assigned = False
                if blk_owner is not None:
                    for fld in ("body", "orelse", "finalbody"):
                        blk = getattr(blk_owner, fld, None)
                        if isinstance(blk, list) and any(stmt is y for y in blk):
                            for y in blk:
                                if y is stmt:
                                    break
                                if isinstance(y, ast.Assign) and any(isinstance(t, ast.Name) and t.id == x.id for t in y.targets):
                                    re_assigned = True
                if not re_assigned:
                    leaked.append((x.id, x.lineno))
        if body_ok and not iff.orelse and not leaked:
            col.ok("C14.WARN-SLICE", key, repo.loc(VISITOR, n), f"guards only message construction and logging ({len(iff.body)} statements)")
        else:
            col.bad("C14.WARN-SLICE", key, repo.loc(VISITOR, iff), f"body_ok={body_ok} else={bool(iff.orelse)} leaked={leaked}",
                    "a block controlled by the warning option does more than log (or has an else branch): the option can change the generated files")
    if nw < 2:
        raise AnalysisError("fewer than 2 reads of type_source_warning found")
    np_ = 0
    for f, n in uses("type_source_preference"):
        if isinstance(n.ctx, ast.Store):
            continue
        np_ += 1
        iff = enclosing_if(f, n)
        key = f"{VISITOR}::{f.qualname}::pref-use@{ast.unparse(iff.test)[:40] if iff is not None else '?'}"
        ok = f.qualname == "MyPyAstVisitor.enter_funcdef" and iff is not None
        # compared with an enum member only
        par = repo.parent(n)
        ok = ok and isinstance(par, ast.Compare) and PREF in ast.unparse(par)
        if ok:
            col.ok("C14.PREF-SLICE", key, repo.loc(VISITOR, n), "read only as `== TypeSourcePreference.X` inside a reconciliation condition")
        else:
            col.bad("C14.PREF-SLICE", key, repo.loc(VISITOR, n), f"in {f.qualname}", "the preference is consulted outside the two type-reconciliation conditions")
    if np_ < 2:
        raise AnalysisError("fewer than 2 reads of type_source_preference found")
    col.ok("C14.PREF-SLICE", f"{VISITOR}::reads", repo.loc(VISITOR, fi.node), f"{np_} reads, {nw} reads of the warning option", nontrivial=False)
    # get_api / cli: the two options are only passed on
    for rel, qual in ((GETAPI, "get_api"), (CLI, "_run_stub_generator")):
        f = repo.function(rel, qual)
        col.touched(f)
        for opt in ("type_source_preference", "type_source_warning"):
            bad = []
            for n in ast.walk(f.node):
                if isinstance(n, ast.Name) and n.id == opt and isinstance(n.ctx, ast.Load):
                    par = repo.parent(n)
                    if not (isinstance(par, ast.keyword) and par.arg == opt):
                        bad.append(n.lineno)
            key = f"{rel}::{qual}::passes-{opt}"
            (col.ok if not bad else col.bad)("C14.WARN-SLICE" if "warning" in opt else "C14.PREF-SLICE", key, repo.loc(rel, f.node),
                                             f"{opt} only forwarded as keyword argument" if not bad else f"other uses at lines {bad}",
                                             *([] if not bad else [f"{qual} uses {opt} for something else than passing it on"]))

    # ------------------------------------------------------------------ ENUM-PARSE
    em = repo.module(ENUMS)
    for cname in (PREF, WARN):
        f = repo.function(ENUMS, f"{cname}.from_string")
        col.touched(f)
        good = False
        for n in ast.walk(f.node):
            if isinstance(n, ast.Try):
                ret = [x for x in n.body if isinstance(x, ast.Return)]
                if ret and isinstance(ret[0].value, ast.Subscript) and ast.unparse(ret[0].value.value) == cname and "upper()" in ast.unparse(ret[0].value.slice):
                    h = n.handlers[0] if n.handlers else None
                    if h is not None and ast.unparse(h.type) == "KeyError" and any(isinstance(x, ast.Raise) and "ValueError" in ast.unparse(x) for x in h.body):
                        good = True
        key = f"{ENUMS}::{cname}.from_string"
        (col.ok if good else col.bad)("C14.ENUM-PARSE", key, repo.loc(ENUMS, f.node), "Enum[key.upper()], KeyError -> ValueError" if good else "shape not recognised",
                                      *([] if good else [f"{cname}.from_string does not look the member up by upper-cased name with KeyError->ValueError"]))
    ga = repo.function(CLI, "_get_args")
    col.touched(ga)
    for n in ast.walk(ga.node):
        if isinstance(n, ast.Call) and isinstance(n.func, ast.Attribute) and n.func.attr == "add_argument":
            kw = {k.arg: k.value for k in n.keywords}
            names = [a.value for a in n.args if isinstance(a, ast.Constant)]
            for cname, members in ((PREF, ctx.repo_enums[PREF]), (WARN, ctx.repo_enums[WARN])):
                if "type" in kw and ast.unparse(kw["type"]) == f"{cname}.from_string":
                    probs = []
                    if "choices" not in kw or ast.unparse(kw["choices"]) != f"list({cname})":
                        probs.append("choices is not list(enum)")
                    d = kw.get("default")
                    if not (isinstance(d, ast.Attribute) and d.attr == "name" and isinstance(d.value, ast.Attribute) and d.value.attr in members):
                        probs.append(f"default {ast.unparse(d) if d is not None else None} is not <enum member>.name")
                    key = f"{CLI}::_get_args::{cname}"
                    (col.ok if not probs else col.bad)("C14.ENUM-PARSE", key, repo.loc(CLI, n), f"{names}: type/choices/default consistent" if not probs else "; ".join(probs),
                                                       *([] if not probs else [f"option {names}: {probs[0]}"]))
    # ------------------------------------------------------------------ TYPE-EQ: the equality that decides "different types"
    from ..core.ctx import DOCPARSER, TYPES_MOD
    import re as _re
    col.spec("C14.TYPE-EQ", "'different types' is decided field by field: no comparison mixes two fields (e.g. key and value of a dict type)",
             "path analysis of every explicit __eq__ of the type classes", floor=8)
    col.spec("C14.RESULT-ALIGN", "docstring result types are paired with code results by position: one docstring entry per documented result, in order",
             "shape of the result-docstring list built by get_result_documentation", floor=1)
    tm = repo.module(TYPES_MOD)
    for k in ctx.sds_type_classes:
        eq = tm.classes[k].methods.get("__eq__")
        if eq is None:
            continue
        col.touched(eq)
        params = eq.params()
        outs = ctx.interp(eq).run_function(eq, {"self": Sym("self", f"sds.{k}"), params[1]: Sym("other")})
        mixed = []
        for o in outs:
            if o.kind == "return" and o.value == Const(True):
                for fk, fv in o.facts:
                    if "==" in fk and fv:
                        sf = set(_re.findall(r"<self\.(\w+)", fk))
                        of = set(_re.findall(r"<other\.(\w+)", fk))
                        if sf and of and sf != of:
                            mixed.append(fk)
                        elif sf and of and len(sf) > 1:
                            # several fields in one comparison are fine when it is positional (tuple / list) with the same field order on both sides
                            lhs, _, rhs = fk.partition("==")
                            same_order = _re.findall(r"<self\.(\w+)", lhs + rhs) == _re.findall(r"<other\.(\w+)", lhs + rhs)
                            unordered = any(t in fk for t in ("{", "Counter(", "frozenset(", "set(", "sorted("))
                            if unordered or not same_order:
                                mixed.append(fk)
        key = f"{TYPES_MOD}::{k}.__eq__::fieldwise"
        if mixed:
            col.bad("C14.TYPE-EQ", key, repo.loc(TYPES_MOD, eq.node), f"{mixed[:2]}",
                    f"{k}.__eq__ compares several fields in one unordered comparison ({mixed[0][:100]}): types that differ only by which "
                    f"field holds which component compare equal, so no discrepancy warning is logged for them")
        else:
            col.ok("C14.TYPE-EQ", key, repo.loc(TYPES_MOD, eq.node), "each comparison relates one field of self with the same field of other")
    rfi = repo.function(DOCPARSER, "DocstringParser.get_result_documentation")
    col.touched(rfi)
    probs = []
    for n in ast.walk(rfi.node):
        if isinstance(n, (ast.ListComp, ast.GeneratorExp)) and any(g.ifs for g in n.generators) and "ResultDocstring" in ast.unparse(n.elt):
            probs.append(f"line {n.lineno}: result docstrings are filtered ({ast.unparse(n.generators[0].ifs[0])[:60]})")
        if isinstance(n, ast.Call) and isinstance(n.func, ast.Attribute) and n.func.attr in ("remove", "pop", "sort", "reverse", "insert") \
                and "result" in ast.unparse(n.func.value):
            probs.append(f"line {n.lineno}: the result docstring list is modified by .{n.func.attr}()")
        if isinstance(n, ast.Call) and getattr(n.func, "id", "") in ("filter", "sorted", "reversed") and "result" in ast.unparse(n):
            probs.append(f"line {n.lineno}: the result docstring list passes {n.func.id}()")
    outs = ctx.interp(rfi).run_function(rfi, {"self": Sym("self"), "function_qname": Sym("function_qname")})
    lists = [o.value for o in outs if o.kind == "return" and isinstance(o.value, ListV) and o.value.items]
    if not lists or not all(all(isinstance(i, Obj) and i.cls == "ResultDocstring" for i in l.items) for l in lists):
        probs.append("a returned list does not consist of ResultDocstring(...) entries")
    key = f"{DOCPARSER}::DocstringParser.get_result_documentation::one-entry-per-result"
    if probs:
        col.bad("C14.RESULT-ALIGN", key, repo.loc(DOCPARSER, rfi.node), "; ".join(probs), f"{probs[0]}: later docstring types shift to the wrong result under the DOCSTRING preference")
    else:
        col.ok("C14.RESULT-ALIGN", key, repo.loc(DOCPARSER, rfi.node), f"{len(lists)} list-returning paths: one ResultDocstring per documented result, unfiltered, in order")
    col.assume("code_type != doc_type relies on the equality of C19")
