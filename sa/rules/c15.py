"""C15 — the test-run flag alone controls whether test and docs directories are analysed."""
from __future__ import annotations

import ast

from ..core.absint import AV, App, Const, ListV, Obj, State, Sym, walk_av
from ..core.ctx import CLI, GETAPI, Ctx
from ..core.report import Collector
from ..core.source import AnalysisError
from .common import unwrap_iterable, find_loops, new_effects, run_body, sym_is

EXCLUDED = {"test", "tests", "docs"}
LOOKALIKES = ["testing", "mytests", "docs_old", "test_x.py", "tests.py", "latest", "Test", "TESTS", "doc", "src"]


def check(ctx: Ctx, col: Collector, tier: str) -> None:
    repo = ctx.repo
    col.spec("C15.EXCLUDE-TABLE", "without the flag exactly the files below a directory named test/tests/docs are skipped; "
             "with the flag none", "specialisation of the discovery loop over path-segment lists and the flag", floor=40)
    col.spec("C15.GLOB", "every Python file of the package is discovered and handed to the type checker", "shape of the enumeration call; lists passed to the build", floor=2)
    col.spec("C15.FLAG-SLICE", "the flag influences nothing but the file filter", "forward slice of is_test_run / --testrun", floor=3)
    col.spec("C15.AST-FILTER", "only trees of the filtered files are analysed (mypy follows imports into excluded directories)",
             "per-iteration path analysis of _get_mypy_asts", floor=2)

    fi = repo.function(GETAPI, "get_api")
    col.touched(fi)
    key0 = f"{GETAPI}::get_api"

    def loop_for(flag: bool):
        it = ctx.interp(fi)
        st = State({})
        it.run_function(fi, {"root": Sym("root"), "is_test_run": Const(flag)}, st)
        loops = find_loops(it, fi, lambda v: isinstance(v, App) and v.func in (".glob", ".rglob") and v.args and v.args[0] == Sym("root"), any_order=True)
        if len(loops) != 1:
            # the root may have been rebound to the nearest package directory
            loops = [l for l in find_loops(it, fi, lambda v: isinstance(v, App) and v.func in (".glob", ".rglob"), any_order=True)]
        if len(loops) != 1:
            raise AnalysisError(f"file discovery loop not found in get_api ({len(loops)})")
        return it, loops[0]

    # ------------------------------------------------------------------ GLOB
    it, (node, itv, elem, entry) = loop_for(False)
    itv = unwrap_iterable(itv, any_order=True)
    pat = dict(itv.kwargs).get("pattern", itv.args[1] if len(itv.args) > 1 else None)
    pats = pat.v if isinstance(pat, Const) else None
    good = (itv.func == ".rglob" and pats in ("*.py",)) or (itv.func == ".glob" and isinstance(pats, str) and pats.lstrip("./") == "**/*.py")
    (col.ok if good else col.bad)("C15.GLOB", f"{key0}::pattern", repo.loc(GETAPI, node), f"{itv.func}({pats!r})",
                                  *([] if good else [f"files are discovered with {itv.func}({pats!r}), which is not the recursive '**/*.py' enumeration"]))

    # every discovered file is built: what is analysed must not depend on which other file happens to import it
    gfi0 = repo.function(GETAPI, "get_api")
    build_calls = [n for n in ast.walk(gfi0.node) if isinstance(n, ast.Call) and getattr(n.func, "id", "") == "_get_mypy_build"]
    if len(build_calls) != 1:
        raise AnalysisError("call of _get_mypy_build not found in get_api")
    files_arg = next((k.value for k in build_calls[0].keywords if k.arg == "files"), build_calls[0].args[0] if build_calls[0].args else None)
    built = {x.id for x in ast.walk(files_arg) if isinstance(x, ast.Name)} if files_arg is not None else set()
    # names of lists the loop appends an __init__.py path (or its directory) to
    init_lists = set()
    for n in ast.walk(node):
        if isinstance(n, ast.If) and "__init__.py" in ast.unparse(n.test):
            for c in ast.walk(n):
                if isinstance(c, ast.Call) and isinstance(c.func, ast.Attribute) and c.func.attr == "append" and isinstance(c.func.value, ast.Name):
                    init_lists.add(c.func.value.id)
    good = bool(built & init_lists)
    (col.ok if good else col.bad)("C15.GLOB", f"{key0}::init-files-built", repo.loc(GETAPI, build_calls[0]), f"type checker is given {sorted(built)}; __init__.py files are collected in {sorted(init_lists)}",
                                  *([] if good else ["the __init__.py files are collected as package paths only and are not handed to the type checker: a package whose code lives only in its "
                                                     "__init__.py is analysed only if another analysed file imports it - e.g. a file of its tests directory, i.e. only with the test-run flag"]))

    # ------------------------------------------------------------------ EXCLUDE-TABLE
    def classify(flag: bool, parts: tuple[str, ...]) -> set[str]:
        it, (node, itv, elem, entry) = loop_for(flag)
        fp = Obj("PosixPath", (("parts", ListV(tuple(Const(p) for p in parts), kind="tuple")), ("parent", Sym("fp.parent"))))
        res = set()
        for o in run_body(it, node, entry.clone(), fp):
            eff = new_effects(o, entry)
            apps_ = [e for e in eff if e.kind == "mutate" and e.target.endswith(".append")]
            if o.kind == "raise":
                res.add(f"raise {o.exc}")
            elif not apps_:
                res.add("skipped")
            else:
                for e in apps_:
                    res.add("module" if any(isinstance(x, Obj) for x in walk_av(e.args[0])) else ("package" if mentions_parent(e.args[0]) else "?"))
        return res

    def mentions_parent(v: AV) -> bool:
        return any(isinstance(x, Sym) and x.path == "fp.parent" for x in walk_av(v))

    cases: list[tuple[tuple[str, ...], bool]] = []
    for d in sorted(EXCLUDED):
        cases += [(("/", "r", "pkg", d, "m.py"), True), (("/", "r", "pkg", "sub", d, "deep", "m.py"), True), (("/", "r", "pkg", d, "__init__.py"), True)]
    for d in LOOKALIKES:
        if d.endswith(".py"):
            cases.append((("/", "r", "pkg", d), False))
        else:
            cases += [(("/", "r", "pkg", d, "m.py"), False), (("/", "r", "pkg", d, "__init__.py"), False)]
    cases += [(("/", "r", "pkg", "m.py"), False), (("/", "r", "pkg", "__init__.py"), False)]
    for parts, excluded in cases:
        for flag in (False, True):
            got = classify(flag, parts)
            kind = "package" if parts[-1] == "__init__.py" else "module"
            want = {"skipped"} if (excluded and not flag) else {kind}
            key = f"{key0}::filter::{'/'.join(parts[3:])},testrun={flag}"
            if got == want:
                col.ok("C15.EXCLUDE-TABLE", key, repo.loc(GETAPI, node), f"{'/'.join(parts[3:])} -> {sorted(got)}")
            else:
                col.bad("C15.EXCLUDE-TABLE", key, repo.loc(GETAPI, node), f"{sorted(got)}, reference {sorted(want)}",
                        f"file pkg/{'/'.join(parts[3:])} with testrun={flag} is {sorted(got)}; the property requires {sorted(want)}")

    # ------------------------------------------------------------------ FLAG-SLICE
    loads = [n for n in ast.walk(fi.node) if isinstance(n, ast.Name) and n.id == "is_test_run" and isinstance(n.ctx, ast.Load)]
    bad = []
    for n in loads:
        cur, prev = repo.parent(n), n
        in_filter = False
        while cur is not None and cur is not fi.node:
            if isinstance(cur, ast.If) and any(x is n for x in ast.walk(cur.test)) and any(x is cur for x in ast.walk(node)):
                in_filter = True
            prev, cur = cur, repo.parent(cur)
        if not in_filter:
            bad.append(n.lineno)
    (col.ok if loads and not bad else col.bad)("C15.FLAG-SLICE", f"{key0}::is_test_run", repo.loc(GETAPI, fi.node),
                                                f"{len(loads)} read(s), all in the condition of the discovery filter" if loads and not bad else f"reads outside the filter at lines {bad}",
                                                *([] if loads and not bad else ["the test-run flag is read outside the file filter (or not at all)"]))
    rs = repo.function(CLI, "_run_stub_generator")
    col.touched(rs)
    other = [n.lineno for n in ast.walk(rs.node) if isinstance(n, ast.Name) and n.id == "is_test_run" and isinstance(n.ctx, ast.Load)
             and not (isinstance(repo.parent(n), ast.keyword) and repo.parent(n).arg == "is_test_run")]
    (col.ok if not other else col.bad)("C15.FLAG-SLICE", f"{CLI}::_run_stub_generator::is_test_run", repo.loc(CLI, rs.node),
                                       "only forwarded to get_api" if not other else f"other uses at {other}",
                                       *([] if not other else ["the CLI uses the test-run flag for something else than the file filter"]))
    cli = repo.function(CLI, "cli")
    src = ast.unparse(cli.node)
    good = "is_test_run=args.testrun" in src.replace(" ", "")
    ga = repo.function(CLI, "_get_args")
    flagdef = any(isinstance(n, ast.Call) and any(isinstance(a, ast.Constant) and a.value == "--testrun" for a in n.args)
                  and any(k.arg == "action" and isinstance(k.value, ast.Constant) and k.value.value == "store_true" for k in n.keywords)
                  for n in ast.walk(ga.node))
    # other modules must not consult the flag
    leaks = []
    for m in repo.modules.values():
        if m.rel in (GETAPI, CLI):
            continue
        for n in ast.walk(m.tree):
            if isinstance(n, (ast.Name, ast.Attribute)) and (getattr(n, "id", None) in ("is_test_run", "testrun") or getattr(n, "attr", None) in ("is_test_run", "testrun")):
                leaks.append(f"{m.rel}:{n.lineno}")
    ok = good and flagdef and not leaks
    (col.ok if ok else col.bad)("C15.FLAG-SLICE", f"{CLI}::cli::wiring", repo.loc(CLI, cli.node),
                                "--testrun (store_true) -> is_test_run; no other module consults it" if ok else f"wired={good} flag={flagdef} leaks={leaks}",
                                *([] if ok else ["the --testrun flag is not wired only into get_api's file filter"]))

    # ------------------------------------------------------------------ AST-FILTER
    af = repo.function(GETAPI, "_get_mypy_asts")
    col.touched(af)
    ait = ctx.interp(af)
    aouts = ait.run_function(af, {"build_result": Sym("build_result"), "files": Sym("files"), "package_paths": Sym("package_paths")})
    aloops = [(n, *ait.loops[id(n)][0]) for n in ast.walk(af.node) if isinstance(n, ast.For) and id(n) in ait.loops]
    if len(aloops) != 1:
        raise AnalysisError("loop over the build graph not found in _get_mypy_asts")
    node, itv, elem, entry = aloops[0]
    body = run_body(ait, node, entry.clone(), elem)
    probs = []
    napp = 0
    for o in body:
        for e in new_effects(o, entry):
            if e.kind == "mutate" and e.target.endswith(".append"):
                napp += 1
                conds = dict(e.conds)
                member = [k for k, v in conds.items() if v and (" in <files>" in k or " in <package_paths>" in k)]
                if not member:
                    probs.append(f"append at line {e.node.lineno} is not dominated by a membership test in files/package_paths")
    (col.ok if napp >= 2 and not probs else col.bad)("C15.AST-FILTER", f"{GETAPI}::_get_mypy_asts::appends", repo.loc(GETAPI, node),
                                                     f"{napp} appends, each under `path in files` / `path in package_paths`" if not probs else "; ".join(sorted(set(probs))),
                                                     *([] if napp >= 2 and not probs else [(sorted(set(probs)) or ["fewer than two guarded appends"])[0]]))
    # every place that decides "this file is the __init__.py of a package" uses a name-exact test (the discovery loop of get_api compares the last
    # path part with "__init__.py"); a suffix test also matches test__init__.py / my__init__.py
    from ..core.ctx import VISITOR as _VIS
    nsite = 0
    for rel2, q2, effect in ((GETAPI, "_get_mypy_asts", "is looked up as a package directory that was never registered and appears in no output, with or without the test-run flag"),
                             (_VIS, "MyPyAstVisitor.enter_moduledef", "is recorded as a module named __init__, its imports are taken for re-exports of a package and no stub is generated for it")):
        f2 = repo.function(rel2, q2)
        col.touched(f2)
        suffix_tests = [n for n in ast.walk(f2.node) if isinstance(n, ast.Call) and isinstance(n.func, ast.Attribute) and n.func.attr == "endswith" and n.args
                        and isinstance(n.args[0], ast.Constant) and n.args[0].value in ("__init__.py", "__init__")]
        exact = [n for n in ast.walk(f2.node) if (isinstance(n, ast.Compare) and len(n.ops) == 1 and isinstance(n.ops[0], ast.Eq) and any(isinstance(x, ast.Constant) and x.value == "__init__.py" for x in [n.left, *n.comparators]))
                 or (isinstance(n, ast.Call) and isinstance(n.func, ast.Attribute) and n.func.attr == "is_package_init_file")]
        if not (suffix_tests or exact):
            raise AnalysisError(f"{q2} no longer tests for __init__.py files; re-triage C15.AST-FILTER")
        nsite += 1
        good_init = not suffix_tests
        (col.ok if good_init else col.bad)("C15.AST-FILTER", f"{rel2}::{q2}::init-file-test-exact", repo.loc(rel2, (suffix_tests or exact)[0]),
                                           "package files are recognised by their exact file name" if good_init else f"`{ast.unparse(suffix_tests[0])}`",
                                           *([] if good_init else [f"{q2} takes every file whose name *ends* in __init__.py for the __init__ module of a package, while the discovery loop of get_api "
                                                                   f"compares the whole file name: `pkg/tests/test__init__.py` (or `my__init__.py`) is registered as a module file and then {effect}"]))
    # the caller passes exactly the filtered lists
    call = [n for n in ast.walk(fi.node) if isinstance(n, ast.Call) and getattr(n.func, "id", "") == "_get_mypy_asts"]
    good = False
    if call:
        kw = {k.arg: ast.unparse(k.value) for k in call[0].keywords}
        accs = set()
        for o in run_body(it, loop_for(False)[1][0], loop_for(False)[1][3].clone(), Sym("fp")):
            for e in new_effects(o, loop_for(False)[1][3]):
                if e.kind == "mutate" and e.target.endswith(".append"):
                    accs.add(e.target.split(".")[0])
        good = {kw.get("files"), kw.get("package_paths")} == accs
    (col.ok if good else col.bad)("C15.AST-FILTER", f"{key0}::passes-filtered-lists", repo.loc(GETAPI, call[0] if call else fi.node),
                                  "files/package_paths arguments are the two lists filled by the filtered discovery loop" if good else "arguments are not the filtered lists",
                                  *([] if good else ["_get_mypy_asts is not given the filtered file lists"]))
    col.assume("griffe loads the whole package for docstrings; it contributes no declarations (not decided)")
