"""C16 — stub generation neither mutates the API model nor depends on earlier generations."""
from __future__ import annotations

import ast
import re

from ..core.absint import AV, Alt, App, Const, DictV, ListV, MUTATORS, Obj, Outcome, Rep, State, StrT, Sym, walk_av
from ..core.ctx import API_MOD, DOCSTRING, GEN, GENSTUBS, GHELPER, TYPES_MOD, Ctx
from ..core.report import Collector
from ..core.source import AnalysisError, FuncInfo
from .c17 import memo_obligations
from .common import GENCLS, gen_state, render

GENMODS = (GEN, GENSTUBS, GHELPER)
FRESH, STATE, SERIAL, MODEL, UNKNOWN = "fresh", "generator state", "serialised copy", "model", "unknown"


class Classifier:
    """Where does a value written by the generator live?  Light inter-procedural provenance over the three generator modules."""

    def __init__(self, ctx: Ctx) -> None:
        self.ctx = ctx
        self.repo = ctx.repo
        self.funcs: dict[str, FuncInfo] = {}
        for rel in GENMODS:
            for q, fi in self.repo.module(rel).functions.items():
                self.funcs[fi.name if not fi.cls else fi.name] = fi
        self.param_cls: dict[tuple[str, str], str] = {}
        self.called: set[str] = set()
        self._call_sites()

    def _call_sites(self) -> None:
        # iterate to a fixpoint: parameter class = join of argument classes over all call sites
        for _ in range(6):
            changed = False
            for fi in self.funcs.values():
                for n in ast.walk(fi.node):
                    if isinstance(n, ast.Call):
                        name = n.func.attr if isinstance(n.func, ast.Attribute) else getattr(n.func, "id", None)
                        callee = self.funcs.get(name)
                        if callee is None or (isinstance(n.func, ast.Attribute) and not (isinstance(n.func.value, ast.Name) and n.func.value.id in ("self", "stubs_generator"))
                                              and name not in ("__call__",)):
                            if not (isinstance(n.func, ast.Name) and callee is not None):
                                continue
                        self.called.add(callee.qualname)
                        params = callee.params()
                        if callee.cls and not callee.is_static and params and params[0] == "self":
                            params = params[1:]
                        amap = list(zip(params, n.args)) + [(k.arg, k.value) for k in n.keywords if k.arg]
                        for p, a in amap:
                            c = self.classify(a, fi, 0)
                            old = self.param_cls.get((callee.qualname, p))
                            new = c if old is None else self.join(old, c)
                            if new != old:
                                self.param_cls[(callee.qualname, p)] = new
                                changed = True
            if not changed:
                break

    @staticmethod
    def join(a: str, b: str) -> str:
        order = [FRESH, SERIAL, STATE, UNKNOWN, MODEL]
        return a if order.index(a) >= order.index(b) else b

    def classify(self, e: ast.expr, fi: FuncInfo, depth: int) -> str:
        if depth > 8:
            return UNKNOWN
        if isinstance(e, (ast.Constant, ast.JoinedStr, ast.List, ast.Dict, ast.Set, ast.Tuple, ast.ListComp, ast.SetComp, ast.DictComp, ast.GeneratorExp, ast.BinOp, ast.Compare, ast.BoolOp,
                          ast.UnaryOp, ast.IfExp, ast.Lambda)):
            if isinstance(e, (ast.IfExp,)):
                return self.join(self.classify(e.body, fi, depth + 1), self.classify(e.orelse, fi, depth + 1))
            if isinstance(e, ast.List) and any(isinstance(x, ast.Starred) for x in e.elts):
                return FRESH
            return FRESH
        if isinstance(e, ast.Call):
            f = e.func
            if isinstance(f, ast.Attribute) and f.attr == "to_dict":
                return SERIAL
            if isinstance(f, ast.Name) and f.id in ("enumerate", "reversed", "iter", "zip") and e.args:
                res = None
                for a in e.args:
                    c = self.classify(a, fi, depth + 1)
                    res = c if res is None else self.join(res, c)
                return res or UNKNOWN
            if isinstance(f, ast.Name) and f.id in ("list", "set", "dict", "sorted", "tuple", "str", "defaultdict", "frozenset", "deepcopy", "copy", "Path", "len", "bool", "int"):
                return FRESH
            if isinstance(f, ast.Attribute) and f.attr in ("split", "join", "replace", "strip", "lstrip", "rstrip", "union", "copy", "format", "lower", "upper", "startswith", "endswith", "values", "items", "keys"):
                return FRESH if f.attr not in ("values", "items", "keys") else self.classify(f.value, fi, depth + 1)
            name = f.attr if isinstance(f, ast.Attribute) else getattr(f, "id", None)
            callee = self.funcs.get(name)
            if callee is not None:
                if name == "_get_class_in_package":
                    return MODEL
                return FRESH  # generator functions return strings / fresh tuples
            if name and name[:1].isupper():
                return FRESH  # constructor
            return UNKNOWN
        if isinstance(e, ast.Name):
            if e.id == "self":
                return STATE
            if e.id in fi.params():
                if (fi.qualname, e.id) in self.param_cls:
                    return self.param_cls[(fi.qualname, e.id)]
                # entry points (never called from inside the generator modules) receive model objects; for internal
                # functions the class is the join over the call sites (least fixpoint: not yet seen = bottom)
                return FRESH if fi.qualname in self.called else MODEL
            defs = []
            for n in ast.walk(fi.node):
                if isinstance(n, ast.Assign):
                    for t in n.targets:
                        if isinstance(t, ast.Name) and t.id == e.id:
                            defs.append(n.value)
                        elif isinstance(t, (ast.Tuple, ast.List)) and any(isinstance(x, ast.Name) and x.id == e.id for x in t.elts):
                            defs.append(n.value)
                elif isinstance(n, ast.AnnAssign) and isinstance(n.target, ast.Name) and n.target.id == e.id and n.value is not None:
                    defs.append(n.value)
                elif isinstance(n, (ast.For, ast.comprehension)):
                    if any(isinstance(x, ast.Name) and x.id == e.id for x in ast.walk(n.target)):
                        c = self.classify(n.iter, fi, depth + 1)
                        defs.append(("elem", c))
                elif isinstance(n, ast.withitem) and n.optional_vars is not None and any(isinstance(x, ast.Name) and x.id == e.id for x in ast.walk(n.optional_vars)):
                    defs.append(("elem", FRESH))
            if not defs:
                return UNKNOWN
            res = None
            for d in defs:
                c = d[1] if isinstance(d, tuple) else self.classify(d, fi, depth + 1)
                res = c if res is None else self.join(res, c)
            return res or UNKNOWN
        if isinstance(e, ast.Attribute):
            if isinstance(e.value, ast.Name) and e.value.id == "self":
                return MODEL if e.attr == "api" else STATE
            base = self.classify(e.value, fi, depth + 1)
            return base if base in (MODEL, STATE, SERIAL, UNKNOWN) else FRESH
        if isinstance(e, ast.Subscript):
            return self.classify(e.value, fi, depth + 1)
        if isinstance(e, ast.Starred):
            return self.classify(e.value, fi, depth + 1)
        return UNKNOWN


def root_of(e: ast.expr) -> ast.expr:
    while isinstance(e, (ast.Attribute, ast.Subscript)):
        e = e.value
    return e


def check(ctx: Ctx, col: Collector, tier: str) -> None:
    repo = ctx.repo
    col.spec("C16.NO-MODEL-WRITE", "generating stubs leaves the API model unchanged", "effect inventory of the generator modules; provenance class of every written object", floor=15)
    col.spec("C16.TODICT-FRESH", "the dictionaries the generator edits in place share no mutable object with the model", "escape analysis of every to_dict the generator consumes", floor=14)
    col.spec("C16.STATE-RESET", "generating again yields identical texts; a declaration is rendered identically wherever it is shown: no generator state survives its scope",
             "reset-before-use analysis of every instance field of the generator (module / declaration / generation scope)", floor=6)
    col.spec("C16.MEMO-KEY", "no cache of the generator returns a text computed for different inputs", "memo-key completeness", floor=1)

    # ------------------------------------------------------------------ NO-MODEL-WRITE
    cl = Classifier(ctx)
    nwrites = 0
    for rel in GENMODS:
        for fi in repo.module(rel).functions.values():
            col.touched(fi)
            for n in ast.walk(fi.node):
                targets: list[tuple[ast.expr, str, ast.AST]] = []
                if isinstance(n, (ast.Assign, ast.AugAssign, ast.AnnAssign)):
                    ts = n.targets if isinstance(n, ast.Assign) else [n.target]
                    for t in ts:
                        for x in ([t] if not isinstance(t, (ast.Tuple, ast.List)) else t.elts):
                            if isinstance(x, (ast.Attribute, ast.Subscript)):
                                targets.append((x.value, f"store {ast.unparse(x)}", n))
                elif isinstance(n, ast.Call) and isinstance(n.func, ast.Attribute) and n.func.attr in MUTATORS:
                    targets.append((n.func.value, f"{ast.unparse(n.func)}(...)", n))
                elif isinstance(n, ast.Delete):
                    for t in n.targets:
                        if isinstance(t, (ast.Attribute, ast.Subscript)):
                            targets.append((t.value, f"del {ast.unparse(t)}", n))
                for obj, desc, node in targets:
                    if isinstance(obj, ast.Name) and obj.id == "self":
                        c = STATE  # self.X = ...
                    else:
                        c = cl.classify(obj, fi, 0)
                    nwrites += 1
                    key = f"{rel}::{fi.qualname}::write::{desc[:70]}"
                    if c in (FRESH, STATE, SERIAL):
                        col.ok("C16.NO-MODEL-WRITE", key, repo.loc(rel, node), f"{desc}: target is {c}")
                    else:
                        col.bad("C16.NO-MODEL-WRITE", key, repo.loc(rel, node), f"{desc}: target classified as {c}",
                                f"{fi.qualname} performs `{desc}` on an object of the API model ({c}): generating stubs changes the model, so a second "
                                f"generation (or another place showing the same declaration) sees different data")
    if nwrites < 15:
        raise AnalysisError(f"only {nwrites} write sites found in the generator modules")

    # ------------------------------------------------------------------ TODICT-FRESH
    tm = repo.module(TYPES_MOD)
    IMMUT = re.compile(r"^(str|bool|int|float|None|ClassVar|frozenset\[.*\]|(float|int|str|bool|None)( \| (float|int|str|bool|None))+)$")
    for k in ctx.sds_type_classes:
        ci = tm.classes[k]
        fi = repo.function(TYPES_MOD, f"{k}.to_dict")
        col.touched(fi)
        outs = ctx.interp(fi).run_function(fi, {"self": Sym("self", f"sds.{k}")})
        ann = {f: a for f, a, _d, _k in ci.fields}
        probs = []
        for o in outs:
            if not isinstance(o.value, DictV):
                probs.append("does not return a dict literal")
                continue
            for kk, vv in o.value.items:
                for x in ([vv] if isinstance(vv, Sym) else []):
                    m = re.fullmatch(r"self\.(\w+)", x.path)
                    if m and not IMMUT.match(ann.get(m.group(1), "?")):
                        probs.append(f"key {kk!r} holds the object's own {m.group(1)} ({ann.get(m.group(1))}) - a mutable container shared with the model")
        key = f"{TYPES_MOD}::{k}.to_dict::fresh"
        if probs:
            col.bad("C16.TODICT-FRESH", key, repo.loc(TYPES_MOD, fi.node), "; ".join(sorted(set(probs))),
                    f"{k}.to_dict: {sorted(set(probs))[0]}; the generator edits type dictionaries in place, so rendering a type changes the model")
        else:
            col.ok("C16.TODICT-FRESH", key, repo.loc(TYPES_MOD, fi.node), f"{k}.to_dict returns only immutable values, fresh containers and nested to_dict() results")

    # ------------------------------------------------------------------ STATE-RESET
    gm = repo.module(GEN)
    gci = gm.classes[GENCLS]

    def stores_in(fi: FuncInfo) -> set[str]:
        return {t.attr for n in ast.walk(fi.node) if isinstance(n, (ast.Assign, ast.AnnAssign, ast.AugAssign))
                for t in (n.targets if isinstance(n, ast.Assign) else [n.target]) if isinstance(t, ast.Attribute) and isinstance(t.value, ast.Name) and t.value.id == "self"}

    def mutations_in(fi: FuncInfo) -> dict[str, set[str]]:
        res: dict[str, set[str]] = {}
        for n in ast.walk(fi.node):
            if isinstance(n, ast.Call) and isinstance(n.func, ast.Attribute) and n.func.attr in MUTATORS:
                r = root_of(n.func.value)
                e = n.func.value
                while isinstance(e, ast.Subscript):
                    e = e.value
                if isinstance(e, ast.Attribute) and isinstance(e.value, ast.Name) and e.value.id == "self":
                    res.setdefault(e.attr, set()).add(n.func.attr)
            if isinstance(n, ast.Assign):
                for t in n.targets:
                    if isinstance(t, ast.Subscript):
                        e = t.value
                        while isinstance(e, ast.Subscript):
                            e = e.value
                        if isinstance(e, ast.Attribute) and isinstance(e.value, ast.Name) and e.value.id == "self":
                            res.setdefault(e.attr, set()).add("[]=")
        return res

    init_f = stores_in(gci.methods["__init__"])
    call_f = stores_in(gci.methods["__call__"]) | {"module_id"}  # _set_module_id assigns module_id / reexport_module_id
    setter = gci.methods.get("_set_module_id")
    reex = gci.methods["create_reexport_module_strings"]
    reex_f = stores_in(reex)
    written_elsewhere: dict[str, set[str]] = {}
    for name, fi in gci.methods.items():
        if name in ("__init__", "__call__"):
            continue
        for f in stores_in(fi):
            written_elsewhere.setdefault(f, set()).add(f"{name}: assignment")
        for f, ms in mutations_in(fi).items():
            written_elsewhere.setdefault(f, set()).add(f"{name}: {sorted(ms)}")
    fields = sorted(init_f | call_f | set(written_elsewhere))
    for f in fields:
        key = f"{GEN}::{GENCLS}::field::{f}"
        if f in ("api", "naming_convention"):
            ro = f not in written_elsewhere
            (col.ok if ro else col.bad)("C16.STATE-RESET", key, repo.loc(GEN, gci.node), f"{f}: configuration, written only in __init__" if ro else f"written in {sorted(written_elsewhere[f])}",
                                        *([] if ro else [f"configuration field {f} is modified during generation"]))
            continue
        if f not in written_elsewhere:
            col.ok("C16.STATE-RESET", key, repo.loc(GEN, gci.node), f"{f}: never written after construction / module start", nontrivial=False)
            continue
        if f in call_f or f == "reexport_module_id":
            # module scope: reset at module start; the re-export loop must reset it as well (it renders declarations outside __call__)
            in_reex = f in reex_f or f in ("module_id", "reexport_module_id") or f == "_current_todo_msgs"
            if in_reex:
                why = "emptied by every flush (C20.FLUSH)" if f == "_current_todo_msgs" and f not in reex_f else "reset per re-exported declaration too"
                col.ok("C16.STATE-RESET", key, repo.loc(GEN, gci.methods["__call__"].node), f"{f}: module scope - reset in __call__; {why}")
            else:
                col.bad("C16.STATE-RESET", key, repo.loc(GEN, reex.node), f"{f}: reset in __call__ but not per element in create_reexport_module_strings",
                        f"per-module state {f} is not reset for declarations rendered in re-export modules: they depend on what was rendered before")
            continue
        # not reset at module start: survives from module to module and from generation to generation
        muts = written_elsewhere[f]
        idempotent = all(re.search(r"\['add'\]|\['update'\]|\['add', 'update'\]", m) for m in muts)
        if idempotent:
            col.ok("C16.STATE-RESET", key, repo.loc(GEN, gci.node), f"{f}: generation-scope set accumulator, only grows by add() (idempotent under repetition): {sorted(muts)}")
        else:
            col.bad("C16.STATE-RESET", key, repo.loc(GEN, gci.node), f"{f}: initialised in __init__ only; written by {sorted(muts)}",
                    f"generator field {f} is never re-initialised ({sorted(muts)[0]}): a second generate_stub_data() on the same generator starts from the first one's leftovers and yields different texts")
    # module-scope resets present in __call__
    need = {"class_generics", "module_imports", "_current_todo_msgs"}
    missing = need - stores_in(gci.methods["__call__"])
    (col.ok if not missing else col.bad)("C16.STATE-RESET", f"{GEN}::{GENCLS}.__call__::module-resets", repo.loc(GEN, gci.methods["__call__"].node),
                                         f"__call__ re-initialises {sorted(need)}" if not missing else f"missing: {sorted(missing)}",
                                         *([] if not missing else [f"__call__ does not re-initialise {sorted(missing)}: a module's stub depends on the modules generated before it"]))
    # declaration scope: class_generics must be (re)assigned on every path before the class's methods are rendered
    cfi = gci.methods["_create_class_string"]
    col.touched(cfi)
    outs = ctx.interp(cfi).run_function(cfi, {"self": Sym("self"), "class_": Sym("class_"), "class_indentation": Const(""), "in_reexport_module": Const(True)}, gen_state())
    stale = 0
    total = 0
    for o in outs:
        if o.kind != "return":
            continue
        ms = [e for e in o.effects if e.kind == "call" and e.target == "self._create_class_method_string"]
        if not ms:
            continue
        total += 1
        st = [e for e in o.effects if e.kind == "store" and e.target == "self.class_generics" and e.seq < ms[0].seq]
        if not st:
            stale += 1
    key = f"{GEN}::{GENCLS}._create_class_string::class_generics-set-before-methods"
    if stale:
        col.bad("C16.STATE-RESET", key, repo.loc(GEN, cfi.node), f"{stale} of {total} paths render the methods without having assigned self.class_generics",
                "class_generics is only re-initialised for classes that have type parameters: the methods of a later non-generic class are rendered against the previous class's "
                "generics (a method's <T> disappears depending on declaration order)")
    else:
        col.ok("C16.STATE-RESET", key, repo.loc(GEN, cfi.node), f"{total} paths: class_generics assigned before the methods are rendered")

    # ------------------------------------------------------------------ MEMO-KEY
    memo_obligations(ctx, col, "C16.MEMO-KEY", set(GENMODS))
    from .shared import share
    share(ctx, col, "C10", {"C10.WRITE-MODE"}, "a second run into the same output directory leaves exactly the files of a single run: module stubs are rewritten, placeholder stubs are created once per run and appended to within it")
    col.assume("equality of the texts of two generations is relational and is not decided; stale files of a different earlier input are not decided")
