"""C17 — members of private ancestors surface once in public subclasses."""
from __future__ import annotations

import ast
import re

from ..core.absint import AV, Alt, App, Const, ListV, Obj, Outcome, Rep, State, StrT, Sym, walk_av
from ..core.ctx import API_MOD, GEN, Ctx
from ..core.report import Collector
from ..core.source import AnalysisError
from .common import GENCLS, find_loops, fmt_facts, gen_state, mentions, new_effects, render, run_body, sym_is
from .memo import find_memo_sites

ICS = "self._create_internal_class_string"
CMS = "self._create_class_method_string"
CAS = "self._create_class_attribute_string"


def memo_obligations(ctx: Ctx, col: Collector, rule: str, modules: set[str] | None = None) -> None:
    """One obligation per memo cache of the package (shared by C04/C13/C16/C17/C18)."""
    n = 0
    for s in find_memo_sites(ctx.repo):
        if modules is not None and s.fi.module not in modules:
            continue
        n += 1
        key = f"{s.fi.module}::{s.fi.qualname}::memo::{s.container}"
        bad = {i: c for i, c in s.covered.items() if c != "injective"}
        site = ctx.repo.loc(s.fi.module, s.store)
        if bad:
            col.bad(rule, key, site, f"key `{ast.unparse(s.key_expr)}`; inputs of the cached value {s.inputs}; coverage {s.covered}",
                    f"{s.fi.qualname} caches a result in {s.container} under a key that does not determine it: "
                    + ", ".join(f"{i} is {c}" for i, c in bad.items())
                    + " in the key - a later call with a different value gets the result computed for an earlier one (order / history dependence)")
        else:
            col.ok(rule, key, site, f"memo {s.container}[{ast.unparse(s.key_expr)}]: every input of the cached value is a key component ({s.covered})")
    if n == 0:
        col.ok(rule, "memo::none", "-", "no memo cache (read+write of one long-lived container under one key) in the analysed modules", nontrivial=False)


def union_leaves(v: AV) -> list[AV]:
    """Operands of a set union written as a.union(b), a | b or {*a, *b}."""
    if isinstance(v, App) and v.func in (".union", "BitOr", "Add") and v.args:
        out = []
        for a in v.args:
            out.extend(union_leaves(a))
        return out
    if isinstance(v, ListV):
        out = []
        for a in v.items:
            out.extend(union_leaves(a.args[0]) if isinstance(a, App) and a.func == "*" and a.args else [a])
        return out
    return [v]


def class_obj(supers: tuple[str, ...], **kw) -> Obj:
    f = {"is_abstract": Const(False), "constructor": Const(None), "type_parameters": ListV(()), "name": Sym("C.name"), "attributes": Sym("C.attributes"),
         "classes": ListV(()), "methods": Sym("C.methods"), "superclasses": ListV(tuple(Const(x) for x in supers)), "docstring": Sym("C.docstring")}
    f.update(kw)
    return Obj("Class", tuple(f.items()))


def check(ctx: Ctx, col: Collector, tier: str) -> None:
    repo = ctx.repo
    col.spec("C17.BRANCH", "private ancestors are inlined and never named; public superclasses are listed in declaration order and imported",
             "specialisation of the superclass loop over closed superclass lists", floor=5)
    col.spec("C17.OWN-FIRST", "the subclass's own definitions take precedence", "provenance of the already-defined-names argument; order of effects; recorded names", floor=4)
    col.spec("C17.ACCUM-THREAD", "every public method of private ancestors exactly once: names emitted for one private base reach the next sibling base",
             "loop-carried dependence of the already-defined-names argument across two inlined bases", floor=1)
    col.spec("C17.FILTER", "inlined: exactly the not-yet-defined methods with a public name", "specialisation of the method loop over (is_public, name, already defined, inlined)", floor=12)
    col.spec("C17.RECURSE", "nearer ancestors take precedence over farther ones; recursion continues through private ancestors only",
             "per-iteration analysis of the ancestor loop in _create_internal_class_string", floor=3)
    col.spec("C17.LOOKUP-EXACT", "a private base resolves to the class with exactly that qualified name when it exists", "path analysis of _get_class_in_package", floor=1)
    col.spec("C17.MEMO-KEY", "rendering of an ancestor does not depend on which subclass was rendered first", "memo-key completeness", floor=1)

    cfi = repo.function(GEN, f"{GENCLS}._create_class_string")
    col.touched(cfi)
    key0 = f"{GEN}::{GENCLS}._create_class_string"

    def run_class(supers: tuple[str, ...]) -> list[Outcome]:
        it = ctx.interp(cfi, inline={"is_internal"})
        # Class.is_abstract is the property `"abc.ABC" in self.superclasses`
        cobj = class_obj(supers, is_abstract=Const("abc.ABC" in supers))
        return [o for o in it.run_function(cfi, {"self": Sym("self"), "class_": cobj, "class_indentation": Const(""), "in_reexport_module": Const(True)}, gen_state())
                if o.kind == "return"]

    def sub_clause(o: Outcome) -> str:
        txt = re.sub(r"\{_replace_if_safeds_keyword\('(\w+)'\)\}", r"\1", render(o.value))
        m = re.search(r" sub ([\w, ]*\w)", txt)
        return m.group(1).strip() if m else ""

    # ------------------------------------------------------------------ BRANCH
    cases = [(("m.A",), "A", ["m.A"], []), (("m._P",), "", [], ["m._P"]), (("m.A", "n.B"), "A, B", ["m.A", "n.B"], []),
             (("n.B", "m.A"), "B, A", ["n.B", "m.A"], []), (("m.A", "m._P", "n.B"), "A, B", ["m.A", "n.B"], ["m._P"]),
             # abstract classes (abc.ABC among the bases; whether ABC itself is named is not judged)
             (("abc.ABC", "m.A"), "A", ["m.A"], []), (("m._P", "abc.ABC"), "", [], ["m._P"]), (("abc.ABC", "m.A", "m._P", "n.B"), "A, B", ["m.A", "n.B"], ["m._P"])]
    abc_prop = repo.cls(API_MOD, "Class")
    abc_fn = next((n for n in abc_prop.node.body if isinstance(n, ast.FunctionDef) and n.name == "is_abstract"), None)
    if abc_fn is None or "'abc.ABC' in self.superclasses" not in ast.unparse(abc_fn):
        raise AnalysisError("Class.is_abstract is no longer `'abc.ABC' in self.superclasses`; re-triage the abstract-class cases of C17.BRANCH")
    for supers, want_sub, want_imports, want_inlined in cases:
        outs = run_class(supers)
        probs = []
        for o in outs:
            sub = sub_clause(o)
            sub_norm = ", ".join(x for x in sub.split(", ") if x and x != "ABC")
            if sub_norm != want_sub:
                probs.append(f"sub clause {sub_norm!r}, reference {want_sub!r}")
            imps = [e.args[0].v for e in o.effects if e.kind == "call" and e.target == "self._add_to_imports" and e.args and isinstance(e.args[0], Const)]
            imps = [x for x in imps if x != "abc.ABC"]
            if imps != want_imports:
                probs.append(f"imports registered {imps}, reference {want_imports}")
            inl = [dict(e.kwargs).get("superclass", e.args[0] if e.args else None) for e in o.effects if e.kind == "call" and e.target == ICS]
            if [x.v for x in inl if isinstance(x, Const)] != want_inlined:
                probs.append(f"inlined {inl}, reference {want_inlined}")
        key = f"{key0}::superclasses={','.join(supers)}"
        if probs or not outs:
            col.bad("C17.BRANCH", key, repo.loc(GEN, cfi.node), "; ".join(sorted(set(probs))), f"superclasses {supers}: {(sorted(set(probs)) or ['no path'])[0]}")
        else:
            col.ok("C17.BRANCH", key, repo.loc(GEN, cfi.node), f"sub {want_sub!r}; imports {want_imports}; inlined {want_inlined}")
    # the sub list is an ordered, append-only list (generic loop: provenance tags of the joined sequence)
    it = ctx.interp(cfi, inline={"is_internal"})
    gouts = it.run_function(cfi, {"self": Sym("self"), "class_": Sym("class_"), "class_indentation": Const(""), "in_reexport_module": Const(True)}, gen_state())
    reps = [x for o in gouts if o.kind == "return" for x in walk_av(o.value) if isinstance(x, Rep) and x.sep == Const(", ")
            and any("superclasses" in repr(a) for a in x.alts)]
    bad = [sorted(r.tags) for r in reps if r.tags & {"unordered", "dedup", "sorted", "sorted+edit"}]
    (col.ok if reps and not bad else col.bad)("C17.BRANCH", f"{key0}::sub-list-order", repo.loc(GEN, cfi.node),
                                               f"{len(reps)} joined superclass lists, append-only in iteration order" if reps and not bad else f"tags {bad}",
                                               *([] if reps and not bad else ["the 'sub' list is not the append-only list of public superclasses in declaration order (set / sorted / reordered)"]))

    # ------------------------------------------------------------------ OWN-FIRST + ACCUM-THREAD
    outs = run_class(("m._P", "m._Q"))
    probs_own, probs_acc = [], []
    for o in outs:
        calls = [e for e in o.effects if e.kind == "call" and e.target == ICS]
        own = [e for e in o.effects if e.kind == "call" and e.target in (CMS, CAS)]
        if len(calls) != 2:
            probs_acc.append(f"{len(calls)} inlining calls for two private bases")
            continue
        for c in calls:
            adn = dict(c.kwargs).get("already_defined_names", c.args[2] if len(c.args) > 2 else None)
            if adn is None or not (any(isinstance(x, App) and x.func == CMS for x in walk_av(adn)) and any(isinstance(x, App) and x.func == CAS for x in walk_av(adn))):
                probs_own.append(f"already_defined_names={adn!r} does not contain the class's own attribute and method names")
            if own and any(e.seq > c.seq for e in own if mentions(e.args[0], "C.") if e.args):
                probs_own.append("own members are rendered after the inherited ones are filtered")
        second = dict(calls[1].kwargs).get("already_defined_names", calls[1].args[2] if len(calls[1].args) > 2 else None)
        if second is None or not any(isinstance(x, App) and x.func == ICS for x in walk_av(second)):
            probs_acc.append("the names emitted while inlining the first private base do not reach the call for the second one")
    (col.ok if not probs_own and outs else col.bad)("C17.OWN-FIRST", f"{key0}::own-names-passed", repo.loc(GEN, cfi.node),
                                                    "already_defined_names = own attribute names ∪ own method names, computed before inlining" if not probs_own else sorted(set(probs_own))[0],
                                                    *([] if not probs_own and outs else [sorted(set(probs_own or ['no path']))[0]]))
    (col.ok if not probs_acc and outs else col.bad)("C17.ACCUM-THREAD", f"{key0}::sibling-private-bases", repo.loc(GEN, cfi.node),
                                                    "second call receives the first call's names" if not probs_acc else sorted(set(probs_acc))[0],
                                                    *([] if not probs_acc and outs else [f"class C(_P, _Q): {sorted(set(probs_acc or ['no path']))[0]} - a method defined in both is emitted twice"]))

    # ------------------------------------------------------------------ FILTER
    mfi = repo.function(GEN, f"{GENCLS}._create_class_method_string")
    col.touched(mfi)
    for inlined in (True, False):
        for is_public in (True, False):
            for name in ("run_it", "_hidden"):
                for already in (True, False):
                    it = ctx.interp(mfi, inline={"is_internal"})
                    adn = ListV((Const(name),) if already else (Const("other_name"),), False, "set")
                    it.run_function(mfi, {"self": Sym("self"), "methods": Sym("methods"), "inner_indentations": Sym("ind"), "is_internal_class": Const(inlined),
                                          "already_defined_names": adn}, gen_state())
                    loops = find_loops(it, mfi, lambda v: sym_is(v, "methods"))
                    if len(loops) != 1:
                        raise AnalysisError("method loop not found")
                    node, _, _, entry = loops[0]
                    meth = Obj("Function", (("is_public", Const(is_public)), ("name", Const(name)), ("is_property", Sym("M.is_property"))))
                    emitted = set()
                    for o in run_body(it, node, entry.clone(), meth):
                        calls = [e for e in new_effects(o, entry) if e.kind == "call" and e.target.startswith("self._create_") and e.target.endswith("function_string")]
                        emitted.add(bool(calls))
                    public_name = not name.startswith("_")
                    want = (is_public or (inlined and public_name)) and not already
                    key = f"{GEN}::{GENCLS}._create_class_method_string::filter::inlined={inlined},is_public={is_public},name={name},already_defined={already}"
                    if emitted == {want}:
                        col.ok("C17.FILTER", key, repo.loc(GEN, node), f"emitted={want}")
                    else:
                        col.bad("C17.FILTER", key, repo.loc(GEN, node), f"emitted={sorted(emitted)}, reference {want}",
                                f"method {name!r} (is_public={is_public}, already defined={already}) of an {'inlined private' if inlined else 'ordinary'} class: "
                                f"emitted={sorted(emitted)}; the property requires {want}")

    # the names a class reports as "defined" are compared with the Python names of inherited members: every emitted method, property and
    # attribute has to be recorded, under its Python name
    for fname, coll, extra in (("_create_class_method_string", "methods", {"is_property": Const(True)}), ("_create_class_method_string", "methods", {"is_property": Const(False)}),
                               ("_create_class_attribute_string", "attributes", {"type": Const(None), "is_static": Const(False), "docstring": Sym("X.docstring")})):
        fi2 = repo.function(GEN, f"{GENCLS}.{fname}")
        it2 = ctx.interp(fi2, inline={"is_internal"})
        args = {"self": Sym("self"), coll: Sym(coll), "inner_indentations": Sym("ind")}
        it2.run_function(fi2, args, gen_state())
        loops2 = find_loops(it2, fi2, lambda v: sym_is(v, coll))
        if len(loops2) != 1:
            raise AnalysisError(f"{coll} loop of {fname} not found")
        node2, _, _, entry2 = loops2[0]
        el = Obj("Element", tuple({"name": Const("display_name"), "is_public": Const(True), **extra}.items()))
        probs2 = set()
        npaths = 0
        for o in run_body(it2, node2, entry2.clone(), el):
            eff = new_effects(o, entry2)
            emitted = [e for e in eff if e.kind == "mutate" and e.target.endswith(".append")]
            if not emitted:
                continue
            npaths += 1
            adds = [e for e in eff if e.kind == "mutate" and e.target.endswith("_names.add") and e.args]
            if not adds:
                probs2.add("an emitted member is not recorded in the set of defined names")
            for e in adds:
                if e.args[0] != Const("display_name"):
                    probs2.add(f"recorded as {e.args[0]!r}"[:90] + ", not under its Python name")
        label = coll + ("" if "is_property" not in extra else (":property" if extra["is_property"] == Const(True) else ":method"))
        key = f"{GEN}::{GENCLS}.{fname}::own-names-recorded::{label}"
        good = npaths > 0 and not probs2
        (col.ok if good else col.bad)("C17.OWN-FIRST", key, repo.loc(GEN, node2), f"every emitted element of {label} is recorded under its Python name" if good else "; ".join(sorted(probs2)) or "no emitting path",
                                      *([] if good else [f"{fname}: {sorted(probs2)[0] if probs2 else 'no emitting path'}: the subclass's own {label.split(':')[-1]} does not take precedence over a member "
                                                         f"inherited from a private ancestor (the member is emitted twice) whenever the recorded spelling differs from the inherited member's Python name"]))

    # nested classes of an inlined private base pass the same filter: a public-named nested class the subclass (or a nearer ancestor) already
    # declares is not copied again, and a copied one is recorded for the farther ancestors
    ifi0 = repo.function(GEN, f"{GENCLS}._create_internal_class_string")
    for already in (True, False):
        it0 = ctx.interp(ifi0, inline={"is_internal"})
        adn = ListV((Const("Meta"),) if already else (Const("other_name"),), False, "set")
        it0.run_function(ifi0, {"self": Sym("self"), "superclass": Sym("superclass"), "inner_indentations": Sym("ind"), "already_defined_names": adn}, gen_state())
        cloops = find_loops(it0, ifi0, lambda v: repr(v).endswith(".classes>") or ".classes" in repr(v) and "superclasses" not in repr(v))
        key = f"{GEN}::{GENCLS}._create_internal_class_string::nested-class-filter::already_defined={already}"
        if len(cloops) != 1:
            col.bad("C17.FILTER", key, repo.loc(GEN, ifi0.node), f"{len(cloops)} loops over the nested classes of the inlined base", "nested classes of an inlined private base are not copied by one loop")
            continue
        node0, _, _, entry0 = cloops[0]
        inner = Obj("Class", (("name", Const("Meta")), ("is_public", Const(False))))
        emitted, recorded = set(), set()
        for o in run_body(it0, node0, entry0.clone(), inner):
            eff = new_effects(o, entry0)
            calls = [e for e in eff if e.kind == "call" and e.target == "self._create_class_string"]
            emitted.add(bool(calls))
            if calls:
                recorded.add(any(e.kind in ("mutate", "call") and e.target.endswith(".add") and e.args and e.args[0] == Const("Meta") for e in eff))
        want = not already
        good = emitted == {want} and (already or recorded == {True})
        (col.ok if good else col.bad)("C17.FILTER", key, repo.loc(GEN, node0), f"copied={want}" + ("" if already else ", recorded for the farther ancestors") if good else f"copied={sorted(emitted)}, recorded={sorted(recorded)}; reference copied={want}",
                                      *([] if good else ["a nested class of a private base is copied into the public subclass without looking at the names already defined"
                                                         + (" and without being recorded" if not already else "") + ": `class _Base: class Meta: ...` / `class Model(_Base): class Meta: ...` "
                                                         "declares `Meta` twice in `class Model` (and once more per private ancestor that nests a class of that name)"]))
    # ... for which the subclass's own nested classes have to be among the names it passes on
    own_nested = any(isinstance(n, (ast.Assign, ast.AnnAssign, ast.Expr, ast.AugAssign)) and "already_defined_names" in ast.unparse(n) and "class_.classes" in ast.unparse(n) for n in ast.walk(cfi.node))
    (col.ok if own_nested else col.bad)("C17.OWN-FIRST", f"{key0}::own-nested-classes-passed", repo.loc(GEN, cfi.node),
                                        "the names of the class's own nested classes are part of the already-defined names" if own_nested else "already_defined_names is built from attributes and methods only",
                                        *([] if own_nested else ["the subclass's own nested classes are not among the names handed to the inlining of private bases: a nested class the subclass redeclares "
                                                                 "(`class Meta`) is copied from the private base as well"]))

    # ------------------------------------------------------------------ RECURSE
    ifi = repo.function(GEN, f"{GENCLS}._create_internal_class_string")
    col.touched(ifi)
    iit = ctx.interp(ifi, inline={"is_internal"})
    iit.run_function(ifi, {"self": Sym("self"), "superclass": Sym("superclass"), "inner_indentations": Sym("ind"), "already_defined_names": Sym("adn")}, gen_state())
    sloops = find_loops(iit, ifi, lambda v: "superclasses" in repr(v))
    key1 = f"{GEN}::{GENCLS}._create_internal_class_string"
    if len(sloops) != 1:
        col.bad("C17.RECURSE", f"{key1}::loop", repo.loc(GEN, ifi.node), f"{len(sloops)} loops over the ancestor's superclasses", "ancestors of an inlined class are not walked by one loop")
    else:
        node, _, _, entry = sloops[0]
        for sup, want in (("x._Priv", True), ("x.Pub", False)):
            rec = set()
            adn_ok = True
            for o in run_body(iit, node, entry.clone(), Const(sup)):
                calls = [e for e in new_effects(o, entry) if e.kind == "call" and e.target == ICS]
                rec.add(bool(calls))
                for c in calls:
                    adn = c.args[2] if len(c.args) > 2 else dict(c.kwargs).get("already_defined_names")
                    # nearer before farther: the recursive call must see the caller's names AND the names emitted at this level
                    leaves = union_leaves(adn) if adn is not None else []
                    has_caller = Sym("adn") in leaves
                    has_level = any(isinstance(x, App) and x.func == "[]" and x.args and isinstance(x.args[0], App) and x.args[0].func == CMS for x in leaves)
                    if not (has_caller and has_level):
                        adn_ok = False
            key = f"{key1}::recurse::{sup}"
            if rec == {want} and adn_ok:
                col.ok("C17.RECURSE", key, repo.loc(GEN, node), f"ancestor {sup}: recursion={want}; names passed = caller's ∪ this level's")
            else:
                col.bad("C17.RECURSE", key, repo.loc(GEN, node), f"recursion={sorted(rec)} (reference {want}); names-complete={adn_ok}",
                        f"ancestor {sup} of an inlined class: recursion={sorted(rec)}, expected {want}" if rec != {want} else
                        "the recursive call for a farther ancestor does not receive both the subclass's names and the names emitted for the nearer ancestor: "
                        "an overridden method of the farther ancestor is emitted again")
        # the class's own methods are filtered with the incoming names
        outs = iit.run_function(ifi, {"self": Sym("self"), "superclass": Sym("superclass"), "inner_indentations": Sym("ind"), "already_defined_names": Sym("adn")}, gen_state())
        # a path on which the ancestor is not a class of the package (lookup returned None) has nothing to inline: it must emit nothing
        def nothing_to_inline(o) -> bool:
            return o.value == Const("") and any(k.startswith("None==self._get_class_in_package(") and v for k, v in o.facts)
        inlining = [o for o in outs if o.kind == "return" and not nothing_to_inline(o)]
        good = inlining and all(any(e.kind == "call" and e.target == CMS and dict(e.kwargs).get("already_defined_names") == Sym("adn")
                                    and dict(e.kwargs).get("is_internal_class") == Const(True) for e in o.effects) for o in inlining)
        (col.ok if good else col.bad)("C17.RECURSE", f"{key1}::filters-own-methods", repo.loc(GEN, ifi.node),
                                      "methods of the inlined class are filtered with already_defined_names, is_internal_class=True" if good else "call shape differs",
                                      *([] if good else ["methods of an inlined class are not filtered against the names already defined in the subclass"]))

    # ------------------------------------------------------------------ LOOKUP-EXACT
    lfi = repo.function(GEN, f"{GENCLS}._get_class_in_package")
    col.touched(lfi)
    louts = ctx.interp(lfi).run_function(lfi, {"self": Sym("self"), "class_qname": Sym("class_qname")}, gen_state())
    exact = [o for o in louts if o.kind == "return" and not any(k.startswith("loop@") for k, v in o.facts)
             and any(" in <self.api.classes>" in k and v for k, v in o.facts)]
    (col.ok if exact else col.bad)("C17.LOOKUP-EXACT", f"{GEN}::{GENCLS}._get_class_in_package::exact-first", repo.loc(GEN, lfi.node),
                                   f"{len(exact)} path(s) return the exact id match before any scan" if exact else "no exact-match path before the fuzzy scan",
                                   *([] if exact else ["a private base is looked up only by suffix/prefix scan: a same-named class elsewhere can be inlined instead of the real base"]))

    # ------------------------------------------------------------------ MEMO-KEY
    memo_obligations(ctx, col, "C17.MEMO-KEY", {GEN})
    col.assume("that the suffix search of _get_class_in_package finds the intended class when no exact id exists is string matching and not decided")
