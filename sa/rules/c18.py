"""C18 — a module's stub depends only on what the module uses (preconditions of non-interference only)."""
from __future__ import annotations

import ast
import re

from ..core.absint import AV, Alt, App, Const, DictV, ListV, MUTATORS, Obj, Outcome, State, StrT, Sym, walk_av
from ..core.ctx import API_MOD, GEN, GENSTUBS, GETAPI, GHELPER, VISITOR, Ctx
from ..core.report import Collector
from ..core.source import AnalysisError
from .c17 import memo_obligations
from .common import find_loops, fmt_facts, mentions, new_effects, render, run_body, sym_is
from .visitor_model import STACK, VCLS, parent_obj, visitor_state

SHARED = ("reexport_map", "aliases")


def mentions_shared(e: ast.expr) -> str | None:
    for x in ast.walk(e):
        if isinstance(x, ast.Attribute) and x.attr in SHARED:
            return x.attr
        if isinstance(x, ast.Name) and x.id in SHARED:
            return x.id
    return None


def check(ctx: Ctx, col: Collector, tier: str) -> None:
    repo = ctx.repo
    col.spec("C18.LOCAL-FIRST", "names are resolved against the module's own imports and classes before the package-wide tables", "path analysis of _find_alias and of the unresolved-name branch", floor=2)
    col.spec("C18.SHARED-WRITE", "the package-wide tables are written only by their owner and never through a read", "inventory of writes and of unguarded subscript reads on reexport_map / aliases", floor=6)
    col.spec("C18.STATE-RESET", "no visitor state survives from one declaration to the next", "reset-before-use of the visitor's scratch fields", floor=2)
    col.spec("C18.IMPORT-MATCH", "an import of the current module is found under its alias and under its own last segment", "specialisation of _search_alias_in_qualified_imports", floor=5)
    col.spec("C18.MEMO-KEY", "no cache returns a result computed for another module's declaration", "memo-key completeness over the whole package", floor=1)

    # ------------------------------------------------------------------ LOCAL-FIRST
    ffi = repo.function(VISITOR, f"{VCLS}._find_alias")
    col.touched(ffi)
    st = visitor_state((Obj("Module", (("id", Sym("M.id")), ("qualified_imports", Sym("M.qualified_imports")), ("classes", Sym("M.classes")))),))
    st.neq[repr(Sym("self.mypy_file"))] = {Const(None)}
    outs = ctx.interp(ffi).run_function(ffi, {"self": Sym("self"), "type_name": Sym("type_name")}, st)
    probs = []
    n_alias = 0
    for o in outs:
        used_alias = any("<self.aliases>" in k for k, v in o.facts)
        calls = [e for e in o.effects if e.kind == "call" and e.target.endswith("_search_alias_in_qualified_imports")]
        if not calls or calls[0].args[0] != Sym("M.qualified_imports") or calls[0].args[1] != Sym("type_name"):
            probs.append("the module's own qualified imports are not searched first")
            continue
        if used_alias:
            n_alias += 1
            # the import search must have failed on this path
            found = [v for k, v in o.facts if k.startswith("truthy:") and "_search_alias_in_qualified_imports" in k]
            if found and all(found):
                probs.append("the package-wide alias table is consulted although the module's own imports resolved the name")
    (col.ok if not probs and n_alias else col.bad)("C18.LOCAL-FIRST", f"{VISITOR}::{VCLS}._find_alias::imports-before-aliases", repo.loc(VISITOR, ffi.node),
                                                   f"{len(outs)} paths; the alias table is read only after the search of the module's imports failed" if not probs and n_alias else "; ".join(sorted(set(probs))) or "alias table never read",
                                                   *([] if not probs and n_alias else [sorted(set(probs or ['alias table never consulted']))[0]]))
    tfi = repo.function(VISITOR, f"{VCLS}.mypy_type_to_abstract_type")
    col.touched(tfi)
    st = visitor_state((Obj("Module", (("id", Sym("M.id")), ("classes", Sym("M.classes")), ("qualified_imports", Sym("M.qualified_imports")))),))
    st.eq[repr(Sym("mypy_type.name"))] = Const("SomeClass")
    touts = ctx.interp(tfi).run_function(tfi, {"self": Sym("self"), "mypy_type": Sym("mypy_type", "UnboundType"), "unanalyzed_type": Const(None)}, st)
    okk = bool(touts)
    for o in touts:
        fa = [e for e in o.effects if e.kind == "call" and e.target == "self._find_alias"]
        if fa and not any(k.startswith("loop@") for k, v in o.facts):
            okk = False
        if o.kind == "return" and isinstance(o.value, Obj) and mentions(o.value, "M.classes[*]") and fa:
            okk = False
    (col.ok if okk else col.bad)("C18.LOCAL-FIRST", f"{VISITOR}::{VCLS}.mypy_type_to_abstract_type::own-classes-before-aliases", repo.loc(VISITOR, tfi.node),
                                 "an unresolved type name is looked up among the current module's classes before _find_alias" if okk else "order differs",
                                 *([] if okk else ["an unresolved type name is resolved through the package-wide alias table before the current module's own classes"]))

    # ------------------------------------------------------------------ SHARED-WRITE
    owner = {("reexport_map", f"{VCLS}._add_reexports"), ("aliases", "_get_aliases")}  # the pre-pass that fills each table
    nsite = 0
    for rel in (VISITOR, GETAPI, GEN, GHELPER, GENSTUBS, API_MOD):
        mi = repo.module(rel)
        for fi in mi.functions.values():
            # local aliases of shared containers: x = self.aliases[...] / for x in reexport_map[...]
            alias_of: dict[str, str] = {}
            for n in ast.walk(fi.node):
                if isinstance(n, ast.Assign) and len(n.targets) == 1 and isinstance(n.targets[0], ast.Name):
                    sh = mentions_shared(n.value)
                    copies = any(isinstance(x, ast.Call) and getattr(x.func, "id", getattr(x.func, "attr", "")) in ("deepcopy", "copy", "set", "list", "sorted", "frozenset", "dict") for x in ast.walk(n.value))
                    if sh and not copies and isinstance(n.value, (ast.Subscript, ast.Attribute, ast.Name)):
                        alias_of[n.targets[0].id] = sh
                if isinstance(n, ast.AnnAssign) and isinstance(n.target, ast.Name) and n.value is not None:
                    sh = mentions_shared(n.value)
                    if sh and isinstance(n.value, (ast.Subscript, ast.Attribute, ast.Name)):
                        alias_of[n.target.id] = sh
            for n in ast.walk(fi.node):
                wr = None
                if isinstance(n, ast.Call) and isinstance(n.func, ast.Attribute) and n.func.attr in MUTATORS:
                    recv = n.func.value
                    sh = mentions_shared(recv) if not any(isinstance(x, ast.Call) for x in ast.walk(recv)) else None
                    if sh is None and isinstance(recv, ast.Name) and recv.id in alias_of:
                        sh = alias_of[recv.id]
                    if sh:
                        wr = (sh, f"{ast.unparse(n.func)}()")
                if isinstance(n, (ast.Assign, ast.AugAssign)):
                    for t in (n.targets if isinstance(n, ast.Assign) else [n.target]):
                        if isinstance(t, ast.Subscript) and mentions_shared(t.value):
                            wr = (mentions_shared(t.value), f"{ast.unparse(t)} = …")
                if wr:
                    nsite += 1
                    col.touched(fi)
                    key = f"{rel}::{fi.qualname}::write::{wr[0]}::{wr[1][:50]}"
                    if (wr[0], fi.qualname) in owner:
                        col.ok("C18.SHARED-WRITE", key, repo.loc(rel, n), f"{wr[1]}: the table's owner (package pre-pass)")
                    else:
                        col.bad("C18.SHARED-WRITE", key, repo.loc(rel, n), f"{wr[1]} in {fi.qualname}",
                                f"{fi.qualname} modifies the package-wide table {wr[0]} ({wr[1]}) while modules are analysed: what a later module sees depends on the modules analysed before it")
            # unguarded subscript reads (the tables are defaultdicts: a read inserts the key)
            for n in ast.walk(fi.node):
                if isinstance(n, ast.Subscript) and isinstance(n.ctx, ast.Load) and isinstance(n.value, (ast.Attribute, ast.Name)) and (
                        (isinstance(n.value, ast.Attribute) and n.value.attr in SHARED) or (isinstance(n.value, ast.Name) and n.value.id in SHARED)):
                    par = repo.parent(n)
                    gpar = repo.parent(par) if par is not None else None
                    if isinstance(par, ast.Attribute) and par.attr in MUTATORS and isinstance(gpar, ast.Call) and gpar.func is par:
                        continue  # a write, handled above
                    keysrc = ast.unparse(n.slice)
                    table = ast.unparse(n.value)
                    guarded = False
                    cur = repo.parent(n)
                    lists_from_table = {x.targets[0].id for x in ast.walk(fi.node) if isinstance(x, ast.Assign) and isinstance(x.targets[0], ast.Name)
                                        and isinstance(x.value, ast.ListComp) and any(ast.unparse(g.iter).endswith(table.split(".")[-1]) for g in x.value.generators)}
                    while cur is not None and cur is not fi.node:
                        if isinstance(cur, ast.For) and ast.unparse(cur.target) == keysrc and (ast.unparse(cur.iter).endswith(table.split(".")[-1]) or ast.unparse(cur.iter) in lists_from_table):
                            guarded = True
                        if isinstance(cur, ast.If) and any(isinstance(c, ast.Compare) and isinstance(c.ops[0], ast.In) and ast.unparse(c.left) == keysrc
                                                           and ast.unparse(c.comparators[0]).endswith(table.split(".")[-1]) for c in ast.walk(cur.test)):
                            guarded = True
                        cur = repo.parent(cur)
                    nsite += 1
                    col.touched(fi)
                    key = f"{rel}::{fi.qualname}::read::{table.split('.')[-1]}[{keysrc}]"
                    if guarded:
                        col.ok("C18.SHARED-WRITE", key, repo.loc(rel, n), f"{table}[{keysrc}] is read for a key known to be present")
                    else:
                        col.bad("C18.SHARED-WRITE", key, repo.loc(rel, n), f"{table}[{keysrc}] without a dominating membership test / iteration over the table",
                                f"{fi.qualname} reads {table}[{keysrc}] unguarded: the table is a defaultdict, so the read inserts the key and changes what later lookups (suffix scans over the keys) see")
    if nsite < 6:
        raise AnalysisError(f"only {nsite} accesses to the shared tables found")

    # ------------------------------------------------------------------ STATE-RESET (visitor scratch state)
    efi = repo.function(VISITOR, f"{VCLS}.enter_funcdef")
    col.touched(efi)
    eouts = ctx.interp(efi).run_function(efi, {"self": Sym("self"), "node": Sym("node")}, visitor_state((parent_obj("Module"),)))
    probs = []
    for o in eouts:
        if o.kind == "raise":
            continue
        resets = [e for e in o.effects if e.kind == "store" and e.target == "self.type_var_types" and isinstance(e.args[0], ListV) and not e.args[0].items]
        parse = [e for e in o.effects if e.kind == "call" and e.target == "self._parse_parameter_data"]
        if parse and not (resets and resets[0].seq < parse[0].seq):
            probs.append("type variables collected before this function are still present when its parameters are parsed")
    (col.ok if eouts and not probs else col.bad)("C18.STATE-RESET", f"{VISITOR}::{VCLS}.enter_funcdef::type_var_types-reset-before-parse", repo.loc(VISITOR, efi.node),
                                                 "self.type_var_types is emptied before the function's parameters are parsed" if not probs else probs[0],
                                                 *([] if eouts and not probs else [f"{(probs or ['no path'])[0]}: type variables of an earlier declaration (even of another module) leak into this function's <T> list"]))
    vci = repo.module(VISITOR).classes[VCLS]
    init_fields = {t.attr for n in ast.walk(vci.methods["__init__"].node) if isinstance(n, (ast.Assign, ast.AnnAssign)) for t in (n.targets if isinstance(n, ast.Assign) else [n.target])
                   if isinstance(t, ast.Attribute)}
    written_later: dict[str, set[str]] = {}
    for name, fi in vci.methods.items():
        if name == "__init__":
            continue
        for n in ast.walk(fi.node):
            if isinstance(n, (ast.Assign, ast.AugAssign, ast.AnnAssign)):
                for t in (n.targets if isinstance(n, ast.Assign) else [n.target]):
                    e = t
                    while isinstance(e, ast.Subscript):
                        e = e.value
                    if isinstance(e, ast.Attribute) and isinstance(e.value, ast.Name) and e.value.id == "self":
                        written_later.setdefault(e.attr, set()).add(name)
            if isinstance(n, ast.Call) and isinstance(n.func, ast.Attribute) and n.func.attr in MUTATORS:
                e = n.func.value
                while isinstance(e, ast.Subscript):
                    e = e.value
                if isinstance(e, ast.Attribute) and isinstance(e.value, ast.Name) and e.value.id == "self":
                    written_later.setdefault(e.attr, set()).add(name)
    accounted = {"__declaration_stack": "push/pop balanced per declaration (C01.STACK)", "type_var_types": "emptied at function entry (above)", "mypy_file": "set at module entry"}
    extra = {f: sorted(w) for f, w in written_later.items() if f not in accounted}
    (col.ok if not extra else col.bad)("C18.STATE-RESET", f"{VISITOR}::{VCLS}::scratch-fields", repo.loc(VISITOR, vci.node),
                                       f"fields written during the walk: {sorted(written_later)} - each with a reset/ownership argument" if not extra else f"{extra}",
                                       *([] if not extra else [f"the visitor keeps further state across declarations ({extra}): a module's result depends on what was analysed before it"]))

    # ------------------------------------------------------------------ IMPORT-MATCH
    sfi = repo.function(VISITOR, f"{VCLS}._search_alias_in_qualified_imports")
    col.touched(sfi)
    imp_alias = Obj("QualifiedImport", (("qualified_name", Const("depot.base.Item")), ("alias", Const("Parent"))))
    imp_plain = Obj("QualifiedImport", (("qualified_name", Const("a.b.Widget")), ("alias", Const(None))))
    for label, imports, q, want in (("alias", (imp_alias,), "Parent", ("Item", "depot.base.Item")), ("original name of an aliased import", (imp_alias,), "Item", ("Item", "depot.base.Item")),
                                    ("last segment", (imp_plain,), "Widget", ("Widget", "a.b.Widget")), ("unrelated", (imp_alias, imp_plain), "Other", ("", "")),
                                    ("second import", (imp_alias, imp_plain), "Widget", ("Widget", "a.b.Widget"))):
        outs = ctx.interp(sfi).run_function(sfi, {"qualified_imports": ListV(imports), "alias_name": Const(q)})
        got = {repr(o.value) for o in outs}
        w = repr(ListV((Const(want[0]), Const(want[1])), kind="tuple"))
        (col.ok if got == {w} else col.bad)("C18.IMPORT-MATCH", f"{VISITOR}::{VCLS}._search_alias_in_qualified_imports::{label}", repo.loc(VISITOR, sfi.node), f"query {q!r} -> {sorted(got)}",
                                            *([] if got == {w} else [f"looking up {q!r} ({label}) in the module's imports gives {sorted(got)}, expected {w}: the name falls through to the package-wide alias table"]))

    # ------------------------------------------------------------------ MEMO-KEY
    memo_obligations(ctx, col, "C18.MEMO-KEY", None)
    from .shared import share
    share(ctx, col, "C16", {"C16.STATE-RESET"}, "no generator state survives from one declaration/module to the next")
    share(ctx, col, "C04", {"C04.REEXPORT-GUARDS"}, "a re-export in one module must not change the publicity of same-named declarations of other modules")
    col.assume("everything relational is NOT decided: the name-keyed alias table, suffix matching in the re-export map and first-match scans over api.classes are interference "
               "channels by design; whether they change a module's bytes depends on the input")
