"""C19 — type values obey round-trip, equality and hashing laws (all on api_analyzer/_types.py)."""
from __future__ import annotations

import ast
import re

from ..core.absint import AV, Alt, App, Const, DictV, ListV, Obj, State, Sym, walk_av
from ..core.ctx import TYPES_MOD, Ctx
from ..core.report import Collector
from .common import find_loops, fmt_facts, new_effects, run_body


def _syms(v: AV, prefix: str) -> set[str]:
    return {x.path for x in walk_av(v) if isinstance(x, Sym) and x.path.startswith(prefix)}


def _field(path: str) -> str:
    """'self.types[*]' -> 'types'"""
    return re.split(r"[.\[]", path)[1]


def _key_of(path: str) -> str | None:
    m = re.match(r"d\['([^']+)'\]", path)
    return m.group(1) if m else None


def check(ctx: Ctx, col: Collector, tier: str) -> None:
    repo = ctx.repo
    tm = repo.module(TYPES_MOD)
    col.units.add(TYPES_MOD)
    classes = ctx.sds_type_classes
    col.spec("C19.KIND-DISPATCH", "from_dict(to_dict(t)) dispatches to the class of t; to_dict writes kind = class name",
             "partitioned abstract interpretation of AbstractType.from_dict per kind", floor=14)
    col.spec("C19.KEY-AGREEMENT", "keys written by to_dict = keys read by from_dict = compared dataclass fields, "
             "mapped one-to-one in constructor order", "abstract interpretation of to_dict/from_dict", floor=14)
    col.spec("C19.NESTED-PARSE", "nested type fields are rebuilt through AbstractType.from_dict; frozenset fields "
             "as frozenset", "field-annotation directed check on the abstract from_dict result", floor=8)
    col.spec("C19.VALUE-PRESERVE", "from_dict hands the serialised value of a field on unchanged (or through wrappers that "
             "keep every element, its multiplicity and order)", "wrapper chain between d[key] and the constructor argument", floor=10)
    col.spec("C19.EQ-HASH", "hash depends only on what equality compares; order-insensitive equality pairs with "
             "order-insensitive hashing; isinstance guard", "dataclass method resolution + path analysis of __eq__",
             floor=14)
    if len(classes) < 14:
        pass  # floor check reports

    # ---------------------------------------------------------------- KIND-DISPATCH
    disp = repo.function(TYPES_MOD, "AbstractType.from_dict")
    col.touched(disp)
    it = ctx.interp(disp)
    for k in classes:
        st = State({})
        st.eq[repr(Sym("d['kind']"))] = Const(k)
        outs = it.run_function(disp, {"d": Sym("d"), "cls": Sym("cls")}, st)
        key = f"{TYPES_MOD}::AbstractType.from_dict::kind={k}"
        good = [o for o in outs if o.kind == "return" and isinstance(o.value, App) and o.value.func == f"{k}.from_dict"
                and o.value.args and o.value.args[0] == Sym("d")]
        if len(outs) == 1 and good:
            col.ok("C19.KIND-DISPATCH", key, repo.loc(tm, outs[0].node), f"kind {k!r} -> {outs[0].value!r}")
        else:
            col.bad("C19.KIND-DISPATCH", key, repo.loc(tm, disp.node),
                    f"outcomes for kind {k!r}: {[(o.kind, repr(o.value)) for o in outs]}",
                    f"AbstractType.from_dict does not delegate kind {k!r} to {k}.from_dict(d): a serialised {k} "
                    f"cannot be parsed back into an equal value")
    # to_dict writes kind
    for k in classes:
        fi = repo.function(TYPES_MOD, f"{k}.to_dict")
        col.touched(fi)
        outs = ctx.interp(fi).run_function(fi, {"self": Sym("self", f"sds.{k}")})
        key = f"{TYPES_MOD}::{k}.to_dict::kind"
        vals = set()
        for o in outs:
            if o.kind == "return" and isinstance(o.value, DictV):
                for kk, vv in o.value.items:
                    if kk == Const("kind"):
                        vals.add(vv)
            else:
                vals.add(None)
        if vals == {Const(f"sds.{k}")} or vals == {Const(k)}:
            col.ok("C19.KIND-DISPATCH", key, repo.loc(tm, fi.node), f"{k}.to_dict writes kind={k!r}")
        else:
            col.bad("C19.KIND-DISPATCH", key, repo.loc(tm, fi.node), f"kind values {vals}",
                    f"{k}.to_dict does not write 'kind': '{k}' on every path")

    # ---------------------------------------------------------------- KEY-AGREEMENT / NESTED-PARSE / TODICT-JSON
    for k in classes:
        ci = tm.classes[k]
        fields = [(f, ann, kws) for f, ann, _d, kws in ci.fields if "ClassVar" not in ann]
        cmp_fields = [f for f, ann, kws in fields
                      if not (isinstance(kws.get("compare"), ast.Constant) and kws["compare"].value is False)]
        to_fi = repo.function(TYPES_MOD, f"{k}.to_dict")
        from_fi = repo.function(TYPES_MOD, f"{k}.from_dict")
        col.touched(from_fi)
        t_outs = [o for o in ctx.interp(to_fi).run_function(to_fi, {"self": Sym("self", f"sds.{k}")}) if o.kind == "return"]
        f_outs = [o for o in ctx.interp(from_fi).run_function(from_fi, {"d": Sym("d"), "cls": Sym("cls")})
                  if o.kind == "return"]
        # written keys -> self fields
        written: dict[str, set[str]] = {}
        json_bad = []
        shape_ok = True
        for o in t_outs:
            if not isinstance(o.value, DictV):
                shape_ok = False
                continue
            for kk, vv in o.value.items:
                if isinstance(kk, Const) and kk.v != "kind":
                    written.setdefault(kk.v, set()).update(_field(p) for p in _syms(vv, "self."))
                for x in walk_av(vv):
                    if isinstance(x, ListV) and x.kind == "set":
                        json_bad.append((kk, "a set (not JSON serialisable, iteration order unstable)"))
                    if isinstance(x, App) and x.func in ("set", "frozenset"):
                        json_bad.append((kk, f"{x.func}(...) (not JSON serialisable, iteration order unstable)"))
        # read keys -> ctor positions
        read: dict[str, set[str]] = {}  # field -> keys
        ctor_ok = True
        arg_of_field: dict[str, AV] = {}
        for o in f_outs:
            v = o.value
            if not isinstance(v, Obj) or v.cls not in (k, f"sds.{k}"):
                ctor_ok = False
                continue
            for name, av in v.fields:
                fname = fields[int(name[1:])][0] if name.startswith("#") and int(name[1:]) < len(fields) else name
                keys = {_key_of(p) for p in _syms(av, "d[")}
                read.setdefault(fname, set()).update(x for x in keys if x)
                arg_of_field[fname] = av
        key = f"{TYPES_MOD}::{k}::keys"
        problems = []
        if not shape_ok or not t_outs:
            problems.append("to_dict does not return a dict literal on every path")
        if not ctor_ok or not f_outs:
            problems.append(f"from_dict does not return {k}(...) on every path")
        for f in cmp_fields:
            wkeys = [kk for kk, fs in written.items() if f in fs]
            rkeys = read.get(f, set())
            if len(wkeys) != 1:
                problems.append(f"field {f!r} is written under keys {wkeys} (expected exactly one)")
            elif rkeys != set(wkeys):
                problems.append(f"field {f!r}: to_dict writes key {wkeys[0]!r} but from_dict reads {sorted(rkeys) or 'nothing'}")
        extra_keys = [kk for kk, fs in written.items() if not (fs & set(cmp_fields))]
        if extra_keys:
            problems.append(f"to_dict writes keys {extra_keys} that do not come from a compared field")
        if problems:
            col.bad("C19.KEY-AGREEMENT", key, repo.loc(tm, from_fi.node), f"written={written} read={read}", "; ".join(problems))
        else:
            col.ok("C19.KEY-AGREEMENT", key, repo.loc(tm, from_fi.node),
                   f"{k}: written keys {sorted(written)} == read keys, fields {cmp_fields}", nontrivial=bool(cmp_fields))
        # VALUE-PRESERVE
        ALLOWED = {"list", "tuple", "AbstractType.from_dict", ".copy", "elem", "frozenset" , "set"}
        for f, ann, _ in fields:
            if f not in cmp_fields or f not in arg_of_field:
                continue
            av = arg_of_field[f]
            wrappers = [x.func for x in walk_av(av) if isinstance(x, App)]
            setlike = ann.startswith(("frozenset", "set"))
            bad = [w for w in wrappers if w.split(".")[-1] not in {a.split(".")[-1] for a in ALLOWED} or (w in ("frozenset", "set") and not setlike)]
            vkey = f"{TYPES_MOD}::{k}.from_dict::{f}::preserved"
            if bad:
                col.bad("C19.VALUE-PRESERVE", vkey, repo.loc(tm, from_fi.node), f"argument {av!r}",
                        f"{k}.from_dict passes {f!r} through {bad}: elements, their multiplicity or order can change, so "
                        f"from_dict(to_dict(t)) != t for some t")
            else:
                col.ok("C19.VALUE-PRESERVE", vkey, repo.loc(tm, from_fi.node), f"{f}: {av!r}", nontrivial=bool(wrappers))
        # NESTED-PARSE
        for f, ann, _ in fields:
            if f not in cmp_fields:
                continue
            av = arg_of_field.get(f)
            nkey = f"{TYPES_MOD}::{k}.from_dict::{f}"
            if "AbstractType" in ann:
                if av is None:
                    col.bad("C19.NESTED-PARSE", nkey, repo.loc(tm, from_fi.node), "no constructor argument",
                            f"{k}.from_dict passes no value for nested type field {f!r}")
                    continue
                apps = [x for x in walk_av(av) if isinstance(x, App) and x.func.endswith("from_dict")]
                raw = [x for x in walk_av(av) if isinstance(x, Sym) and x.path.startswith("d[")]
                # every raw read must sit below a from_dict application (or be compared with None only)
                covered = set()
                for a in apps:
                    covered |= {x.path for x in walk_av(a) if isinstance(x, Sym)}
                uncovered = [x.path for x in raw if x.path not in covered]
                if not apps or uncovered:
                    col.bad("C19.NESTED-PARSE", nkey, repo.loc(tm, from_fi.node), f"argument {av!r}",
                            f"{k}.from_dict stores {f!r} (annotated {ann}) without parsing it through "
                            f"AbstractType.from_dict: the round trip yields a dict, not an equal type value")
                else:
                    col.ok("C19.NESTED-PARSE", nkey, repo.loc(tm, from_fi.node), f"{f}: {av!r}")
            elif ann.startswith("frozenset"):
                if av is None:
                    continue
                okfs = any(isinstance(x, App) and x.func == "frozenset" for x in walk_av(av)) or (
                    isinstance(av, ListV) and av.kind == "set")
                if okfs:
                    col.ok("C19.NESTED-PARSE", nkey, repo.loc(tm, from_fi.node), f"{f}: {av!r}")
                else:
                    col.bad("C19.NESTED-PARSE", nkey, repo.loc(tm, from_fi.node), f"argument {av!r}",
                            f"{k}.from_dict passes the serialised value of {f!r} (annotated {ann}) unconverted: the "
                            f"rebuilt value is not a frozenset (unhashable / unequal after round trip)")

    # ---------------------------------------------------------------- NESTED-PARSE: element-wise means one output element per input element
    for k in classes:
        ffi = tm.classes[k].methods.get("from_dict")
        if ffi is None:
            continue
        fit = ctx.interp(ffi)
        fit.run_function(ffi, {"cls": Sym("cls"), "d": Sym("d")})
        for node, itv, el, entry in find_loops(fit, ffi, lambda v: isinstance(v, Sym) and v.path.startswith("d[")):
            skipped = []
            n_paths = 0
            # a later iteration: the accumulators the body appends to hold the results of the earlier entries
            later = entry.clone()
            for x in ast.walk(node):
                if isinstance(x, ast.Call) and isinstance(x.func, ast.Attribute) and x.func.attr in ("append", "add") and isinstance(x.func.value, ast.Name):
                    later.env[x.func.value.id] = Sym(f"{x.func.value.id}@earlier-entries")
            for o in run_body(fit, node, later, Sym("ELEM")):
                if o.kind == "raise":
                    continue
                n_paths += 1
                eff = new_effects(o, entry)
                appended = [e for e in eff if e.kind in ("mutate", "call") and e.target.endswith((".append", ".add"))]
                facts = list(o.facts)[len(entry.facts):]
                is_none = any(("==None" in fk or "None==" in fk) and fv for fk, fv in facts)
                if not appended and not is_none:
                    skipped.append(fmt_facts(facts)[:120])
            if not n_paths:
                continue
            nkey = f"{TYPES_MOD}::{k}.from_dict::one-element-per-entry::{itv.path if isinstance(itv, Sym) else 'loop'}"
            if skipped:
                col.bad("C19.NESTED-PARSE", nkey, repo.loc(tm, node), f"an entry is dropped under: {skipped[0]}",
                        f"{k}.from_dict skips an entry of the serialised list although it parsed to a value ({skipped[0][:80]}): a value with such entries (e.g. a union with two equal members, "
                        f"which __eq__ counts) does not survive the round trip")
            else:
                col.ok("C19.NESTED-PARSE", nkey, repo.loc(tm, node), f"{n_paths} paths: every parsed entry is appended")

    # ---------------------------------------------------------------- EQ-HASH
    for k in classes:
        ci = tm.classes[k]
        dp = ci.dataclass_params() or {}
        fields = [(f, ann, kws) for f, ann, _d, kws in ci.fields if "ClassVar" not in ann]
        cmp_fields = [f for f, ann, kws in fields
                      if not (isinstance(kws.get("compare"), ast.Constant) and kws["compare"].value is False)]
        eq_fi = ci.methods.get("__eq__")
        hash_fi = ci.methods.get("__hash__")
        key = f"{TYPES_MOD}::{k}::eq-hash"
        problems = []
        # fields compared on every True path
        counter_fields: set[str] = set()
        if eq_fi is not None:
            col.touched(eq_fi)
            params = eq_fi.params()
            other = params[1]
            it2 = ctx.interp(eq_fi)
            outs = it2.run_function(eq_fi, {"self": Sym("self", f"sds.{k}"), other: Sym("other")})
            true_paths = [o for o in outs if o.kind == "return" and o.value == Const(True)]
            compared_all: set[str] | None = None
            guard_seen = False
            for o in outs:
                for fk, fv in o.facts:
                    if fk.startswith("isinstance(<other>"):
                        guard_seen = True
            for o in true_paths:
                comp = set()
                for fk, fv in o.facts:
                    if "==" in fk and fv:
                        sf = set(re.findall(r"<self\.(\w+)>", fk))
                        of = set(re.findall(r"<other\.(\w+)>", fk))
                        comp |= sf & of
                        if "Counter(" in fk:
                            counter_fields |= sf & of
                compared_all = comp if compared_all is None else (compared_all & comp)
            compared = compared_all or set()
            if not guard_seen:
                problems.append("__eq__ has no isinstance guard on the other operand")
            # non-True, non-False, non-NotImplemented returns
            for o in outs:
                if o.kind == "return" and not (o.value in (Const(True), Const(False)) or repr(o.value) == "NotImplemented"
                                                 or (hasattr(o.value, "name") and getattr(o.value, "name", "") == "NotImplemented")):
                    problems.append(f"__eq__ returns {o.value!r}")
                if o.kind == "raise":
                    problems.append(f"__eq__ raises {o.exc}")
        else:
            compared = set(cmp_fields) if dp.get("eq", True) else set()
        # fields the hash reads, per hash path; a hash path is paired with the equality paths whose facts about
        # `self` do not contradict it (e.g. both under `self.max == "Infinity"`)
        def self_facts(facts):
            return {fk: fv for fk, fv in facts if "<self." in fk and "<other" not in fk}

        eq_paths: list[tuple[dict, set[str]]] = []
        if eq_fi is not None:
            for o in true_paths:
                comp = set()
                for fk, fv in o.facts:
                    if "==" in fk and fv:
                        comp |= set(re.findall(r"<self\.(\w+)>", fk)) & set(re.findall(r"<other\.(\w+)>", fk))
                eq_paths.append((self_facts(o.facts), comp))
        else:
            eq_paths.append(({}, set(compared)))
        hreads: set[str] = set()
        if hash_fi is not None:
            col.touched(hash_fi)
            houts = ctx.interp(hash_fi).run_function(hash_fi, {"self": Sym("self", f"sds.{k}")})
            for o in houts:
                reads = {_field(p) for p in _syms(o.value, "self.")}
                hreads |= reads
                hf = self_facts(o.facts)
                for ef, comp in eq_paths:
                    if any(kk in hf and hf[kk] != vv for kk, vv in ef.items()):
                        continue  # contradictory paths
                    missing = reads - comp
                    if missing:
                        problems.append(f"hash (explicit) depends on {sorted(missing)}, which equality does not compare "
                                        f"on a path that returns True (under {ef or 'no condition'}): equal values can hash differently")
                # order sensitivity
                for x in walk_av(o.value):
                    if isinstance(x, App) and x.func in ("tuple", "list"):
                        inner = {_field(p) for p in _syms(x, "self.")}
                        if inner & counter_fields:
                            problems.append(f"__eq__ ignores the order of {sorted(inner & counter_fields)} but __hash__ "
                                            f"hashes them through {x.func}(...) (order sensitive)")
                    if isinstance(x, ListV) and x.kind == "tuple":
                        direct = {_field(a.path) for a in x.items if isinstance(a, Sym) and a.path.startswith("self.")}
                        if direct & counter_fields:
                            problems.append(f"__eq__ ignores the order of {sorted(direct & counter_fields)} but __hash__ "
                                            f"hashes the sequence itself")
            hdesc = "explicit"
        else:
            generated = dp.get("eq", True) and dp.get("frozen", False) or dp.get("unsafe_hash", False)
            hreads = set(cmp_fields) if generated else set()
            hdesc = "generated from fields" if generated else "none"
            if generated and counter_fields:
                problems.append(f"generated field-tuple hash with order-insensitive equality on {sorted(counter_fields)}")
            for ef, comp in eq_paths:
                missing = hreads - comp
                if missing:
                    problems.append(f"hash ({hdesc}) depends on {sorted(missing)}, which equality does not compare on a "
                                    f"path that returns True (under {ef or 'no condition'}): equal values can hash differently")
        fact = f"{k}: eq {'explicit' if eq_fi else 'generated'} compares {sorted(compared)}; hash {hdesc} reads {sorted(hreads)}; multiset fields {sorted(counter_fields)}"
        if problems:
            col.bad("C19.EQ-HASH", key, repo.loc(tm, (eq_fi or hash_fi or to_fi).node), fact, "; ".join(dict.fromkeys(problems)))
        else:
            col.ok("C19.EQ-HASH", key, repo.loc(tm, ci.node), fact, nontrivial=bool(hreads or compared))
    col.assume("Python dataclass rules: eq=True,frozen=True generates __hash__ from the compared fields unless the class "
               "body defines __hash__; an explicit __eq__ is kept")
    col.assume("NaN payloads and 1 == True collisions inside LiteralType are outside the structure of the code (not decided)")
