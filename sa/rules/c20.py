"""C20 — TODO markers flag exactly the declarations that need attention."""
from __future__ import annotations

import ast

from ..core.absint import AV, Alt, App, Const, DictV, EnumM, ListV, Obj, Outcome, State, StrT, Sym, walk_av
from ..core.ctx import GEN, Ctx
from ..core.report import Collector
from ..core.source import AnalysisError
from .c06 import KINDS, PA, param_obj
from .common import GENCLS, find_loops, fmt_facts, gen_state, new_effects, run_body, sym_is

PENDING = "_current_todo_msgs"
FLUSH = "_create_todo_msg"


def marker_table(ctx: Ctx) -> tuple[set[str], ast.AST]:
    """Keys of the message table consulted by the flush function (the dict literal subscripted per pending marker)."""
    fi = ctx.repo.function(GEN, f"{GENCLS}.{FLUSH}")
    best: set[str] | None = None
    node = fi.node
    for n in ast.walk(fi.node):
        if isinstance(n, ast.Subscript) and isinstance(n.value, ast.Dict):
            keys = {k.value for k in n.value.keys if isinstance(k, ast.Constant) and isinstance(k.value, str)}
            if len(keys) == len(n.value.keys):
                best, node = keys, n
    if best is None:
        # table bound to a name / module constant
        for n in ast.walk(ctx.repo.module(GEN).tree):
            if isinstance(n, ast.Dict) and len(n.keys) >= 8 and all(isinstance(k, ast.Constant) and isinstance(k.value, str) for k in n.keys) \
                    and any("Safe-DS does not support" in (v.value if isinstance(v, ast.Constant) and isinstance(v.value, str) else "") for v in n.values):
                best, node = {k.value for k in n.keys}, n
    if best is None:
        raise AnalysisError("marker message table not found in the flush function")
    return best, node


def adds_of(effects) -> list:
    return [e for e in effects if e.kind == "mutate" and e.target.endswith(f"{PENDING}.add")]


def check(ctx: Ctx, col: Collector, tier: str) -> None:
    repo = ctx.repo
    gm = repo.module(GEN)
    col.spec("C20.MARKER-TABLE", "every marker that can become pending has a message (closed table cannot miss)",
             "abstract interpretation of every generator method; marker arguments must evaluate to table keys", floor=12)
    col.spec("C20.FLUSH", "markers sit on the declaration that raised them and on no other",
             "typestate (clean/dirty pending set) over effect traces with callee summaries", floor=8)
    col.spec("C20.GUARDS", "a marker is raised exactly when the declaration exhibits the construct",
             "specialisation of the emitters over finite feature partitions, compared with the reference table", floor=60)
    col.spec("C20.RESET", "the pending set is reset at module start", "abstract interpretation of __call__", floor=1)
    col.spec("C20.DEFAULT-SOURCE", "a default value the analyser does not reproduce reaches the generator as UnknownValue, the only model state the 'unknown value' marker is raised for",
             "specialisation of _get_parameter_type_and_default_value over all mypy expression classes", floor=2)

    table, tnode = marker_table(ctx)
    methods = {q.split(".", 1)[1]: fi for q, fi in gm.functions.items() if q.startswith(GENCLS + ".")}
    tsfi = methods["_create_type_string"]

    # ------------------------------------------------------------------ run every method once (generic arguments)
    runs: dict[str, list[Outcome]] = {}
    for name, fi in methods.items():
        col.touched(fi)
        it = ctx.interp(fi)
        if name == "_create_type_string":
            outs = []
            for kind in ctx.sds_type_classes:
                st = gen_state()
                st.eq[repr(Sym("type_data['kind']"))] = Const(kind)
                st.neq[repr(Sym("type_data"))] = {Const(None)}
                outs += it.run_function(fi, {"self": Sym("self"), "type_data": Sym("type_data")}, st)
            runs[name] = outs
        else:
            runs[name] = it.run_function(fi, {"self": Sym("self")}, gen_state())

    # ------------------------------------------------------------------ MARKER-TABLE
    seen_markers: dict[str, str] = {}
    for name, outs in runs.items():
        for o in outs:
            for e in adds_of(o.effects):
                a = e.args[0] if e.args else None
                key = f"{GEN}::{GENCLS}.{name}::add({a!r})"
                if isinstance(a, Alt) and all(isinstance(x, Const) and x.v in table for x in a.alts):
                    if key not in seen_markers:
                        seen_markers[key] = "alt"
                        col.ok("C20.MARKER-TABLE", key, repo.loc(GEN, e.node), f"marker restricted by its guard to {sorted(x.v for x in a.alts)}, all table keys")
                elif isinstance(a, Const) and isinstance(a.v, str):
                    if a.v in table:
                        if key not in seen_markers:
                            seen_markers[key] = a.v
                            col.ok("C20.MARKER-TABLE", key, repo.loc(GEN, e.node), f"marker {a.v!r} is a key of the message table")
                    else:
                        if key not in seen_markers:
                            seen_markers[key] = a.v
                            col.bad("C20.MARKER-TABLE", key, repo.loc(GEN, e.node), f"table keys: {sorted(table)}",
                                    f"marker {a.v!r} can become pending but the message table of {FLUSH} has no entry for it: "
                                    f"the next flush raises KeyError")
                else:
                    if key not in seen_markers:
                        seen_markers[key] = "?"
                        col.bad("C20.MARKER-TABLE", key, repo.loc(GEN, e.node), f"argument {a!r}",
                                "a marker whose value is not restricted to the message table's keys is added")
    # the lookup itself: a subscript of the table with the pending element, not .get
    col.ok("C20.MARKER-TABLE", f"{GEN}::{GENCLS}.{FLUSH}::table", repo.loc(GEN, tnode), f"{len(table)} keys: {sorted(table)}", nontrivial=False)

    # ------------------------------------------------------------------ FLUSH typestate
    flushers = set()  # methods that (transitively) call the flush
    residue = set()  # methods that may leave markers pending on exit
    direct_flush = {n for n, outs in runs.items() if any(e.kind == "call" and e.target == f"self.{FLUSH}" for o in outs for e in o.effects)}
    changed = True
    flushers = set(direct_flush)
    while changed:
        changed = False
        for n, outs in runs.items():
            if n in flushers:
                continue
            if any(e.kind == "call" and e.target.startswith("self.") and e.target[5:] in flushers for o in outs for e in o.effects):
                flushers.add(n)
                changed = True
    flushers.discard(FLUSH)

    def events(o: Outcome) -> list[tuple[str, object]]:
        ev = []
        for e in o.effects:
            if e.kind == "mutate" and e.target.endswith(f"{PENDING}.add"):
                ev.append(("A", e))
            elif e.kind == "call" and e.target == f"self.{FLUSH}":
                ev.append(("F", e))
            elif e.kind == "store" and e.target.endswith(PENDING):
                ev.append(("F", e))
            elif e.kind == "call" and e.target.startswith("self.") and e.target[5:] in methods:
                callee = e.target[5:]
                if callee in flushers:
                    ev.append(("N", e))
                elif callee in residue:
                    ev.append(("A", e))
        return ev

    for _ in range(6):
        new_res = set()
        for n, outs in runs.items():
            if n == FLUSH:
                continue
            for o in outs:
                if o.kind == "raise":
                    continue
                st = "clean"
                for k, e in events(o):
                    if k == "A":
                        st = "dirty"
                    elif k == "F":
                        st = "clean"
                    elif k == "N":
                        callee = e.target[5:]
                        st = "dirty" if callee in residue else "clean"
                if st == "dirty":
                    new_res.add(n)
        if new_res == residue:
            break
        residue = new_res
    # obligations: (1) declaration emitters end clean; (2) nested declaration emitters are entered clean
    for n in sorted(flushers):
        outs = runs[n]
        fi = methods[n]
        key = f"{GEN}::{GENCLS}.{n}::ends-clean"
        dirty_paths = []
        steal = []
        for o in outs:
            if o.kind == "raise":
                continue
            st = "clean"
            last_a = None
            for k, e in events(o):
                if k == "A":
                    st, last_a = "dirty", e
                elif k == "F":
                    st = "clean"
                elif k == "N":
                    if st == "dirty":
                        steal.append((last_a, e))
                    st = "dirty" if e.target[5:] in residue else "clean"
                    if st == "dirty":
                        last_a = e
            if st == "dirty":
                dirty_paths.append((last_a, fmt_facts(o.facts)[:160]))
        if dirty_paths:
            a, facts = dirty_paths[0]
            col.bad("C20.FLUSH", key, repo.loc(GEN, a.node if a else fi.node),
                    f"{len(dirty_paths)} of {len(outs)} paths end with markers pending; first: {a!r} under {facts}",
                    f"{n} can return with a marker still pending (raised at line {getattr(a.node, 'lineno', '?')} after the "
                    f"declaration's last flush): the marker is printed above the *next* declaration")
        else:
            col.ok("C20.FLUSH", key, repo.loc(GEN, fi.node), f"{len(outs)} paths: every marker-adding event is followed by a flush of the same declaration")
        # the text of every flush reaches the returned declaration text
        lost = []
        if n in direct_flush:
            # (union over paths: loop summaries merge the effects of different iterations)
            used_lines = {x.line for o in outs if o.kind == "return" for x in walk_av(o.value)
                          if isinstance(x, App) and x.func == f"self.{FLUSH}"}
            for o in outs:
                for k, e in events(o):
                    if k == "F" and e.kind == "call" and e.node.lineno not in used_lines:
                        lost.append(e)
            key = f"{GEN}::{GENCLS}.{n}::flush-text-used"
            if lost:
                col.bad("C20.FLUSH", key, repo.loc(GEN, lost[0].node), f"{len(lost)} flush results unused",
                        f"{n} flushes the pending markers at line {lost[0].node.lineno} but the flushed text is not part of the "
                        f"returned declaration: markers raised before it are lost")
            else:
                col.ok("C20.FLUSH", key, repo.loc(GEN, fi.node), "every flush result is embedded in the returned text")
        # across iterations of one loop: a marker left pending by one iteration is printed by a nested emitter that a
        # later iteration calls first (the effect trace holds one peeled and one summarised iteration only)
        for loop in [x for x in ast.walk(fi.node) if isinstance(x, ast.For)]:
            inside = lambda e, lp=loop: lp.lineno <= getattr(e.node, "lineno", 0) <= (lp.end_lineno or 0)  # noqa: E731
            leaves_dirty, enters_nested = None, None
            for o in outs:
                if o.kind == "raise":
                    continue
                st, la = "clean", None
                first_n = None
                cleaned = False
                for k, e in events(o):
                    if not inside(e):
                        continue
                    if k == "A":
                        st, la = "dirty", e
                    elif k == "F":
                        st, cleaned = "clean", True
                    elif k == "N":
                        if first_n is None and not cleaned and st == "clean":
                            first_n = e
                        st = "dirty" if e.target[5:] in residue else "clean"
                        if st == "dirty":
                            la = e
                        cleaned = True
                if st == "dirty" and leaves_dirty is None:
                    leaves_dirty = la
                if first_n is not None and enters_nested is None:
                    enters_nested = first_n
            if leaves_dirty is not None and enters_nested is not None:
                steal.append((leaves_dirty, enters_nested))
        key = f"{GEN}::{GENCLS}.{n}::nested-entered-clean"
        if steal:
            a, e = steal[0]
            col.bad("C20.FLUSH", key, repo.loc(GEN, e.node), f"{len(steal)} events; first: pending from {a!r} when calling {e!r}",
                    f"{n} calls the nested declaration emitter {e.target[5:]} while a marker raised at line "
                    f"{getattr(a.node, 'lineno', '?')} is pending: the nested declaration's flush prints it on the wrong declaration")
        else:
            col.ok("C20.FLUSH", key, repo.loc(GEN, fi.node), "nested declaration emitters are only called with an empty pending set")
    # the flush itself: every path that prints markers empties the pending set and prints every pending marker
    fl = methods[FLUSH]
    flit = ctx.interp(fl)
    fst = gen_state({f"self.{PENDING}": ListV((Sym("m"),), True, "set")})
    fouts = flit.run_function(fl, {"self": Sym("self"), "indentations": Sym("ind")}, fst)
    problems = []
    for o in fouts:
        if o.kind != "return":
            problems.append(f"flush {o.kind}s ({o.exc})")
            continue
        stores = [e for e in o.effects if e.kind in ("store", "mutate") and PENDING in e.target]
        cleared = any((e.kind == "store" and isinstance(e.args[0], ListV) and not e.args[0].items and not e.args[0].open) or
                      (e.kind == "mutate" and e.target.endswith(".clear")) for e in stores)
        printed = o.value != Const("")
        if printed and not cleared:
            problems.append("a path prints markers without emptying the pending set")
        pv = repr(fst.env[f"self.{PENDING}"])
        # the path established that nothing is pending: by truthiness or by a length test, in either operand order
        known_empty = o.fact(f"truthy:{pv}") is False or any(v and k.replace(" ", "") in (f"len({pv})==0".replace(" ", ""), f"0==len({pv})".replace(" ", "")) for k, v in o.facts) \
            or any((not v) and k.replace(" ", "") in (f"len({pv})>0".replace(" ", ""), f"len({pv})>=1".replace(" ", ""), f"truthy:len({pv})".replace(" ", "")) for k, v in o.facts)
        if not printed and not known_empty and not cleared:
            problems.append("a path drops pending markers without printing them")
    key = f"{GEN}::{GENCLS}.{FLUSH}::prints-and-clears"
    if problems or not fouts:
        col.bad("C20.FLUSH", key, repo.loc(GEN, fl.node), f"{problems}", (problems or ["flush has no path"])[0])
    else:
        col.ok("C20.FLUSH", key, repo.loc(GEN, fl.node), f"{len(fouts)} paths: non-empty pending set is printed and emptied")
    col.extra["flushers"] = sorted(flushers)
    col.extra["residue_functions"] = sorted(residue)
    # helper renderers with residue must be reachable only from flushers (so that someone flushes)
    # (call graph restricted to the generator class)
    callers: dict[str, set[str]] = {}
    for n, outs in runs.items():
        for o in outs:
            for e in o.effects:
                if e.kind == "call" and e.target.startswith("self.") and e.target[5:] in methods:
                    callers.setdefault(e.target[5:], set()).add(n)
    for r in sorted(residue - flushers):
        cs = callers.get(r, set()) - {r}
        bad = [c for c in cs if c not in flushers and c not in residue]
        key = f"{GEN}::{GENCLS}.{r}::residue-flushed-by-callers"
        if bad:
            col.bad("C20.FLUSH", key, repo.loc(GEN, methods[r].node), f"callers {sorted(cs)}",
                    f"{r} leaves markers pending and is called from {bad}, which never flushes")
        else:
            col.ok("C20.FLUSH", key, repo.loc(GEN, methods[r].node), f"marker-raising renderer; callers {sorted(cs)} flush")

    # ------------------------------------------------------------------ RESET
    outs = runs["__call__"]
    ok_reset = True
    for o in outs:
        stores = [e for e in o.effects if e.kind == "store" and e.target.endswith(PENDING)]
        calls = [e for e in o.effects if e.kind == "call" and e.target.startswith("self._create")]
        if not stores or not calls or stores[0].seq > calls[0].seq or not (isinstance(stores[0].args[0], ListV) and not stores[0].args[0].items):
            ok_reset = False
    if ok_reset and outs:
        col.ok("C20.RESET", f"{GEN}::{GENCLS}.__call__::reset", repo.loc(GEN, methods["__call__"].node), "pending set := empty before the module is rendered")
    else:
        col.bad("C20.RESET", f"{GEN}::{GENCLS}.__call__::reset", repo.loc(GEN, methods["__call__"].node), "no store of an empty set before rendering",
                "markers pending from the previous module are not cleared at module start")

    # ------------------------------------------------------------------ GUARDS
    # (a) parameters
    pfi = methods["_create_parameter_string"]
    pit = ctx.interp(pfi)
    pit.run_function(pfi, {"self": Sym("self"), "parameters": Sym("parameters"), "indentations": Sym("ind"),
                           "is_instance_method": Const(False)}, gen_state())
    loops = find_loops(pit, pfi, lambda v: sym_is(v, "parameters"))
    if len(loops) != 1:
        raise AnalysisError("parameter loop not found")
    pnode, _, _, pentry = loops[0]
    for typed in (True, False):
        for kind in KINDS[1:]:
            for opt, dv, dname in ((False, Const(None), "none"), (True, Const(None), "None-default"), (True, Const(3), "3"),
                                   (True, Obj("UnknownValue", ()), "UnknownValue")):
                p = param_obj("P", type=Sym("P.type") if typed else Const(None), assigned_by=EnumM(PA, kind),
                              is_optional=Const(opt), default_value=dv)
                e = pentry.clone()
                e.neq[repr(Sym("P.type"))] = {Const(None)}
                got_sets = set()
                for o in run_body(pit, pnode, e, p):
                    got_sets.add(frozenset(x.args[0].v for x in adds_of(new_effects(o, pentry)) if isinstance(x.args[0], Const)))
                want = set()
                if not typed:
                    want.add("param without type")
                if kind == "POSITION_ONLY" and opt:
                    want.add("OPT_POS_ONLY")
                if kind == "NAME_ONLY" and not opt:
                    want.add("REQ_NAME_ONLY")
                if kind in ("POSITIONAL_VARARG", "NAMED_VARARG"):
                    want.add("variadic")
                if typed and opt and dname == "UnknownValue":
                    want.add("unknown value")
                key = f"{GEN}::{GENCLS}._create_parameter_string::markers::typed={typed},{kind},optional={opt},default={dname}"
                if got_sets == {frozenset(want)}:
                    col.ok("C20.GUARDS", key, repo.loc(GEN, pnode), f"markers {sorted(want)}")
                else:
                    col.bad("C20.GUARDS", key, repo.loc(GEN, pnode), f"raised {[sorted(g) for g in got_sets]}, reference {sorted(want)}",
                            f"parameter (typed={typed}, {kind}, optional={opt}, default={dname}) raises {[sorted(g) for g in got_sets]}; "
                            f"the property requires exactly {sorted(want)}")
    # (b) class method
    ffi = methods["_create_function_string"]
    for is_cm, is_static in ((True, False), (False, True), (False, False)):
        fobj = Obj("Function", (("is_static", Const(is_static)), ("is_class_method", Const(is_cm)), ("parameters", Sym("F.parameters")),
                                ("type_var_types", Const(None)), ("docstring", Sym("F.docstring")), ("name", Sym("F.name")),
                                ("results", Sym("F.results"))))
        fit = ctx.interp(ffi)
        outs = fit.run_function(ffi, {"self": Sym("self"), "function": fobj, "indentations": Sym("ind"), "is_method": Const(True),
                                      "in_reexport_module": Const(True)}, gen_state())
        got = {frozenset(x.args[0].v for x in adds_of(o.effects) if isinstance(x.args[0], Const)) for o in outs}
        want = {"class_method"} if is_cm else set()
        key = f"{GEN}::{GENCLS}._create_function_string::markers::classmethod={is_cm},static={is_static}"
        if got == {frozenset(want)}:
            col.ok("C20.GUARDS", key, repo.loc(GEN, ffi.node), f"markers {sorted(want)}")
        else:
            col.bad("C20.GUARDS", key, repo.loc(GEN, ffi.node), f"raised {[sorted(g) for g in got]}", f"function with is_class_method={is_cm} raises {[sorted(g) for g in got]}, reference {sorted(want)}")
    # (c) results
    rfi = methods["_create_result_string"]
    rit = ctx.interp(rfi)
    for label, results, want in (("none", ListV(()), {"result without type"}),
                                 ("untyped", ListV((Obj("Result", (("type", Const(None)), ("name", Sym("R.name")))),)), {"result without type"})):
        outs = rit.run_function(rfi, {"self": Sym("self"), "function_results": results}, gen_state())
        got = {frozenset(x.args[0].v for x in adds_of(o.effects) if isinstance(x.args[0], Const)) for o in outs}
        key = f"{GEN}::{GENCLS}._create_result_string::markers::{label}"
        if got == {frozenset(want)}:
            col.ok("C20.GUARDS", key, repo.loc(GEN, rfi.node), f"markers {sorted(want)}")
        else:
            col.bad("C20.GUARDS", key, repo.loc(GEN, rfi.node), f"raised {[sorted(g) for g in got]}", f"results {label}: raises {[sorted(g) for g in got]}, reference {sorted(want)}")
    typed_res = ListV((Obj("Result", (("type", Sym("R.type")), ("name", Sym("R.name")))),))
    st = gen_state()
    st.neq[repr(Sym("R.type"))] = {Const(None)}
    outs = rit.run_function(rfi, {"self": Sym("self"), "function_results": typed_res}, st)
    key = f"{GEN}::{GENCLS}._create_result_string::markers::typed"
    viol = []
    for o in outs:
        ads = {x.args[0].v for x in adds_of(o.effects) if isinstance(x.args[0], Const)}
        rendered = o.kind == "return" and o.value != Const("")
        if rendered and "result without type" in ads:
            viol.append("marker although a typed result is rendered")
    if viol:
        col.bad("C20.GUARDS", key, repo.loc(GEN, rfi.node), f"{viol}", viol[0])
    else:
        col.ok("C20.GUARDS", key, repo.loc(GEN, rfi.node), "no 'result without type' marker on paths that render a result")
    # (d) attributes
    afi = methods["_create_class_attribute_string"]
    ait = ctx.interp(afi)
    # summary established by analysis: _create_type_string(None) returns "" on its only path
    nouts = tit_none = ctx.interp(tsfi).run_function(tsfi, {"self": Sym("self"), "type_data": Const(None)}, gen_state())
    if len(nouts) == 1 and nouts[0].kind == "return" and nouts[0].value == Const("") and not nouts[0].effects:
        ait.summaries[("self._create_type_string", (Const(None),))] = Const("")
    ait.run_function(afi, {"self": Sym("self"), "attributes": Sym("attributes"), "inner_indentations": Sym("ind")}, gen_state())
    aloops = find_loops(ait, afi, lambda v: sym_is(v, "attributes"))
    if len(aloops) != 1:
        raise AnalysisError("attribute loop not found")
    anode, _, _, aentry = aloops[0]
    for typed in (True, False):
        a = Obj("Attribute", (("is_public", Const(True)), ("type", Sym("A.type") if typed else Const(None)), ("is_static", Sym("A.is_static")),
                              ("name", Sym("A.name")), ("docstring", Sym("A.docstring"))))
        e = aentry.clone()
        e.neq[repr(Sym("A.type"))] = {Const(None)}
        marks = set()
        for o in run_body(ait, anode, e, a):
            eff = new_effects(o, aentry)
            ads = frozenset(x.args[0].v for x in adds_of(eff) if isinstance(x.args[0], Const))
            type_rendered = o.fact("truthy:self._create_type_string(.to_dict(<A.type>))")
            marks.add((ads, type_rendered, o.kind))
        key = f"{GEN}::{GENCLS}._create_class_attribute_string::markers::typed={typed}"
        bad = []
        for ads, tr, kind in marks:
            if kind == "continue":
                if ads:
                    bad.append("marker raised for a skipped attribute")
                continue
            has = "attr without type" in ads
            if not typed and not has:
                bad.append("untyped attribute without marker")
            if typed and tr is True and has:
                bad.append("typed attribute with marker")
        if bad:
            col.bad("C20.GUARDS", key, repo.loc(GEN, anode), f"{sorted(set(bad))}", sorted(set(bad))[0])
        else:
            col.ok("C20.GUARDS", key, repo.loc(GEN, anode), f"{len(marks)} path classes")
    # (e) types
    tit = ctx.interp(tsfi)

    def type_markers(kind: str, extra_eq: dict | None = None, types_len=None) -> set[frozenset]:
        st = gen_state()
        st.eq[repr(Sym("type_data['kind']"))] = Const(kind)
        st.neq[repr(Sym("type_data"))] = {Const(None)}
        for k, v in (extra_eq or {}).items():
            st.eq[k] = v
        env_types = None
        outs = tit.run_function(tsfi, {"self": Sym("self"), "type_data": Sym("type_data")}, st)
        res = set()
        for o in outs:
            if o.kind != "return":
                continue
            if types_len is not None:
                f = None
                for fk, fv in o.facts:
                    if fk.startswith("len(") and ">=2" in fk.replace(" ", ""):
                        f = fv
                if f is not None and f != (types_len >= 2):
                    continue
                tr = None
                for fk, fv in o.facts:
                    if fk.startswith("truthy:[self._create_type_string"):
                        tr = fv
                if tr is not None and tr != (types_len >= 1):
                    continue
            res.add(frozenset(x.args[0].v for x in adds_of(o.effects) if isinstance(x.args[0], Const)))
        return res

    tcases = [("TupleType", None, {"no tuple support"}), ("UnknownType", None, {"unknown"}), ("DictType", None, set()),
              ("LiteralType", None, set()), ("TypeVarType", None, set()), ("FinalType", None, set()),
              ("SetType", 1, {"no set support"}), ("SetType", 2, {"no set support", "Set"}), ("SetType", 0, {"no set support"}),
              ("ListType", 1, set()), ("ListType", 2, {"List"}), ("ListType", 0, set()),
              ("NamedSequenceType", 2, set()), ("NamedSequenceType", 1, set())]
    for kind, n, want in tcases:
        got = type_markers(kind, types_len=n)
        key = f"{GEN}::{GENCLS}._create_type_string::markers::{kind}" + (f",args={n}" if n is not None else "")
        if got == {frozenset(want)}:
            col.ok("C20.GUARDS", key, repo.loc(GEN, tsfi.node), f"markers {sorted(want)}")
        else:
            col.bad("C20.GUARDS", key, repo.loc(GEN, tsfi.node), f"raised {[sorted(g) for g in got]}, reference {sorted(want)}",
                    f"type kind {kind}" + (f" with {n} type arguments" if n is not None else "") + f" raises {[sorted(g) for g in got]}; "
                    f"the property requires exactly {sorted(want)}")
    # (f) multiple inheritance
    cfi = methods["_create_class_string"]
    for label, supers, want in (("two public", ("a.B", "c.D"), {"multiple_inheritance"}), ("one public", ("a.B",), set()),
                                ("public+private", ("a.B", "c._D"), set()), ("none", (), set()),
                                ("abstract, two public", ("abc.ABC", "a.B", "c.D"), {"multiple_inheritance"}), ("abstract, one public", ("abc.ABC", "a.B"), set())):
        cobj = Obj("Class", (("is_abstract", Const("abc.ABC" in supers)), ("constructor", Const(None)), ("type_parameters", ListV(())),
                             ("name", Sym("C.name")), ("attributes", ListV(())), ("classes", ListV(())), ("methods", ListV(())),
                             ("superclasses", ListV(tuple(Const(x) for x in supers))), ("docstring", Sym("C.docstring"))))
        cit = ctx.interp(cfi, inline={"is_internal"})
        outs = cit.run_function(cfi, {"self": Sym("self"), "class_": cobj, "class_indentation": Const(""), "in_reexport_module": Const(True)}, gen_state())
        got = {frozenset(x.args[0].v for x in adds_of(o.effects) if isinstance(x.args[0], Const)) for o in outs if o.kind == "return"}
        key = f"{GEN}::{GENCLS}._create_class_string::markers::superclasses={label}"
        if got == {frozenset(want)}:
            col.ok("C20.GUARDS", key, repo.loc(GEN, cfi.node), f"markers {sorted(want)}")
        else:
            col.bad("C20.GUARDS", key, repo.loc(GEN, cfi.node), f"raised {[sorted(g) for g in got]}, reference {sorted(want)}",
                    f"class with superclasses {supers} raises {[sorted(g) for g in got]}; the property requires {sorted(want)}")
    # ------------------------------------------------------------------ DEFAULT-SOURCE
    from ..core.ctx import VISITOR
    vfi = repo.function(VISITOR, "MyPyAstVisitor._get_parameter_type_and_default_value")
    col.touched(vfi)
    vit = ctx.interp(vfi, inline={"mypy_expression_to_python_value"})
    literal = {"IntExpr", "FloatExpr", "StrExpr"}
    exprs = [c for c in ctx.lib.subclasses("Expression") if c not in ("Expression", "RefExpr", "TypeVarLikeExpr", "FakeExpression")]
    dropped, marked, nprobe = [], [], 0
    for c in exprs:
        if c in literal:
            continue
        if c == "NameExpr":
            init = Obj("NameExpr", (("name", Const("LIMIT")),))
        elif c == "UnaryExpr":
            # an operator applied to something that is no number
            init = Obj("UnaryExpr", (("expr", Obj("NameExpr", (("name", Const("LIMIT")),))), ("op", Sym("op"))))
        else:
            init = Obj(c, ())
        nprobe += 1
        outs = vit.run_function(vfi, {"self": Sym("self"), "initializer": init, "function_id": Sym("function_id")})
        vals = [o.value for o in outs if o.kind == "return"]
        unknown = bool(vals) and all(isinstance(v, ListV) and len(v.items) == 2 and isinstance(v.items[0], Obj) and v.items[0].cls == "UnknownValue" for v in vals)
        (marked if unknown else dropped).append(c)
    if nprobe < 20:
        raise AnalysisError(f"only {nprobe} expression classes probed for the default-value helper")
    key = f"{VISITOR}::MyPyAstVisitor._get_parameter_type_and_default_value::unreproduced-default"
    if dropped:
        col.bad("C20.DEFAULT-SOURCE", key, repo.loc(VISITOR, vfi.node), f"{len(dropped)} of {nprobe} non-literal initializer classes come back as 'no default': {dropped[:8]}...; as UnknownValue: {marked}",
                f"a default value that is no literal ({', '.join(dropped[:4])}, ... e.g. `def f(a: int = 1 + 2)`, `= LIMIT`, `= (1, 2)`, `= float('inf')`) comes back from "
                f"_get_parameter_type_and_default_value as 'no default' instead of UnknownValue: the parameter is emitted as required, without the unknown-value marker, an optional "
                f"position-only parameter is not flagged and an optional keyword-only one is flagged as required")
    else:
        col.ok("C20.DEFAULT-SOURCE", key, repo.loc(VISITOR, vfi.node), f"all {nprobe} non-literal initializer classes yield UnknownValue")
    # the generator raises the marker for that state (C20.GUARDS default=UnknownValue rows)
    pfi = methods["_create_parameter_string"]
    mentions_unknown = any(isinstance(n, ast.Call) and getattr(n.func, "id", "") == "isinstance" and "UnknownValue" in ast.unparse(n) for n in ast.walk(pfi.node))
    (col.ok if mentions_unknown else col.bad)("C20.DEFAULT-SOURCE", f"{GEN}::{GENCLS}._create_parameter_string::consumes-UnknownValue", repo.loc(GEN, pfi.node),
                                               "the parameter renderer tests for UnknownValue (rows default=UnknownValue of C20.GUARDS decide the marker)" if mentions_unknown else "no test for UnknownValue",
                                               *([] if mentions_unknown else ["the parameter renderer never tests for UnknownValue: the unknown-value marker has no source"]))
    col.assume("the text of the messages is out of scope; the markers' identity and placement are decided")
