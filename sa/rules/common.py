"""Shared helpers for the rule modules."""
from __future__ import annotations

import ast
import re

from ..core.absint import (AV, Alt, App, Const, DictV, EnumM, Interp, ListV, Obj, Outcome, Rep, State, StrT, Sym, Top,
                           holes, walk_av)
from ..core.ctx import GEN, Ctx
from ..core.source import AnalysisError, FuncInfo, norm

GENCLS = "StubsStringGenerator"


def gen_state(extra: dict | None = None) -> State:
    env = {
        "self": Sym("self"),
        "self.naming_convention": Sym("self.naming_convention"),
        "self._current_todo_msgs": ListV((), False, "set"),
        "self.module_imports": ListV((), True, "set"),
        "self.class_generics": Sym("self.class_generics"),
        "self.api": Sym("self.api"),
    }
    env.update(extra or {})
    return State(env)


ORDER_PRESERVING_WRAPPERS = ("enumerate", "list", "tuple", "iter")


ELEMENT_PRESERVING_WRAPPERS = ORDER_PRESERVING_WRAPPERS + ("sorted", "reversed")


def unwrap_iterable(v: AV, any_order: bool = False) -> AV:
    """The collection a loop walks: `enumerate(xs)`, `list(xs)`, ... iterate xs in its own order; with ``any_order``
    also `sorted(xs)` / `reversed(xs)`, which walk the same elements in another order."""
    while isinstance(v, App) and v.func in (ELEMENT_PRESERVING_WRAPPERS if any_order else ORDER_PRESERVING_WRAPPERS) and v.args:
        v = v.args[0]
    return v


def find_loops(it: Interp, fi: FuncInfo, pred, any_order: bool = False) -> list[tuple[ast.For, AV, AV, State]]:
    """Loops of ``fi`` (after a run of ``it``) whose iterable satisfies ``pred(iterable AV)`` - directly or inside an
    order-preserving wrapper such as enumerate()."""
    out = []
    for node in ast.walk(fi.node):
        if isinstance(node, ast.For) and id(node) in it.loops:
            for itv, elem, st in it.loops[id(node)]:
                if pred(itv) or (unwrap_iterable(itv, any_order) is not itv and pred(unwrap_iterable(itv, any_order))):
                    out.append((node, itv, elem, st))
                    break
    return out


def run_body(it: Interp, loop: ast.For, entry: State, elem: AV) -> list[Outcome]:
    st = entry.clone()
    # `for i, x in enumerate(xs)`: the caller's element is x
    if isinstance(loop.iter, ast.Call) and getattr(loop.iter.func, "id", "") == "enumerate" and isinstance(loop.target, ast.Tuple) and len(loop.target.elts) == 2 \
            and not (isinstance(elem, ListV) and len(elem.items) == 2 and not elem.open):
        elem = ListV((Sym("loop-index", "int"), elem), kind="tuple")
    it.assign(loop.target, elem, st)
    finals = it.block(loop.body, [st])
    return [it._outcome(f) if f.status in ("return", "raise") else
            Outcome("continue" if f.status == "continue" else ("break" if f.status == "break" else "fall"), Const(None),
                    tuple(f.facts.items()), f.effects, f.node, f.env, f.exc) for f in finals]


def new_effects(o: Outcome, entry: State) -> list:
    seen = {id(e) for e in entry.effects}
    return [e for e in o.effects if id(e) not in seen]


def render(v: AV) -> str:
    """Flatten a string template; holes become {…}."""
    if isinstance(v, Const):
        return v.v if isinstance(v.v, str) else str(v.v)
    if isinstance(v, StrT):
        return "".join(p if isinstance(p, str) else "{" + repr(p) + "}" for p in v.parts)
    return "{" + repr(v) + "}"


def sym_is(v: AV, path: str) -> bool:
    return isinstance(v, Sym) and v.path == path


def mentions(v: AV, path_prefix: str) -> bool:
    return any(isinstance(x, Sym) and x.path.startswith(path_prefix) for x in walk_av(v))


def apps(v: AV, func: str) -> list[App]:
    return [x for x in walk_av(v) if isinstance(x, App) and x.func == func]


def pipeline(v: AV) -> tuple[list[str], AV]:
    """Chain of single-subject applications wrapped around an origin: f(g(origin, ...), ...) -> ([f, g], origin)."""
    chain = []
    while isinstance(v, App) and v.args and not v.func.startswith((".", "[", "slice")):
        chain.append(v.func)
        v = v.args[0]
    return chain, v


def fmt_facts(facts) -> str:
    return ", ".join(f"{k}={'T' if v else 'F'}" for k, v in facts if not k.startswith("loop@"))
