"""Emitter model (DESIGN 3.6) built on the abstract interpreter: output templates, holes with their literal context,
hole classification, delimiter effect."""
from __future__ import annotations

import ast
import re
from dataclasses import dataclass

from ..core.absint import AV, Alt, App, Const, ListV, Obj, Outcome, Rep, StrT, Sym, walk_av
from ..core.ctx import GEN, GENSTUBS, GHELPER, Ctx
from ..core.source import FuncInfo
from .common import GENCLS, gen_state

ESC = "_replace_if_safeds_keyword"
CONV = "_convert_name_to_convention"
ANNOT = "_create_name_annotation"


@dataclass
class Template:
    fi: FuncInfo
    value: AV
    node: ast.AST | None
    kind: str  # return | write
    facts: tuple = ()


class EmitModel:
    def __init__(self, ctx: Ctx) -> None:
        self.ctx = ctx
        self.repo = ctx.repo
        self.templates: list[Template] = []
        self.runs: dict[str, list[Outcome]] = {}
        self.funcs: dict[str, FuncInfo] = {}
        gm = self.repo.module(GEN)
        for q, fi in gm.functions.items():
            if q.startswith(GENCLS + "."):
                self._run(fi, {"self": Sym("self")}, gen_state(), q.split(".", 1)[1])
        for q, fi in self.repo.module(GENSTUBS).functions.items():
            self._run(fi, {}, None, q)
        self._indent_params()
        self._comment_emitters()

    def _run(self, fi: FuncInfo, args, state, name: str) -> None:
        self.funcs[name] = fi
        if name == "_create_type_string":
            outs = []
            for kind in self.ctx.sds_type_classes:
                it = self.ctx.interp(fi)
                st = gen_state()
                st.eq[repr(Sym("type_data['kind']"))] = Const(kind)
                st.neq[repr(Sym("type_data"))] = {Const(None)}
                outs += it.run_function(fi, {"self": Sym("self"), "type_data": Sym("type_data")}, st)
        elif name == "_create_todo_msg":
            st = gen_state({"self._current_todo_msgs": ListV((Sym("pending"),), True, "set")})
            outs = self.ctx.interp(fi).run_function(fi, args, st)
        else:
            outs = self.ctx.interp(fi).run_function(fi, args, state)
        self.runs[name] = outs
        seen = set()
        for o in outs:
            if o.kind == "return":
                vals = o.value.items if isinstance(o.value, ListV) and o.value.kind == "tuple" and not o.value.open else [o.value]
                pos = self.text_positions().get(name)
                if pos is not None and isinstance(o.value, ListV) and o.value.kind == "tuple":
                    vals = [o.value.items[pos]] if pos < len(o.value.items) else []
                elif pos is not None and isinstance(o.value, ListV):
                    vals = [t.items[pos] for t in o.value.items if isinstance(t, ListV) and t.kind == "tuple" and pos < len(t.items)]
                for v in vals:
                    if isinstance(v, (StrT, Const, Alt, Rep)) and not (isinstance(v, Const) and not isinstance(v.v, str)) and repr(v) not in seen:
                        seen.add(repr(v))
                        self.templates.append(Template(fi, v, o.node, "return", o.facts))
                    elif isinstance(v, ListV) and v.kind == "list":
                        # list of tuples (module data): template elements inside
                        for x in walk_av(v):
                            if isinstance(x, StrT) and repr(x) not in seen:
                                seen.add(repr(x))
                                self.templates.append(Template(fi, x, o.node, "return", o.facts))
            for e in o.effects:
                if e.kind == "call" and e.target.endswith(".write") and e.args:
                    v = e.args[0]
                    if repr(v) not in seen:
                        seen.add(repr(v))
                        self.templates.append(Template(fi, v, e.node, "write", e.conds))

    def text_positions(self) -> dict[str, int]:
        """Which element of a returned tuple is stub text: derived from the write sink in create_stub_files
        (f.write(<stubs_data[*][k]>)) and the tuples assembled in generate_stub_data."""
        if hasattr(self, "_textpos"):
            return self._textpos
        self._textpos = {}
        csf = self.repo.function(GENSTUBS, "create_stub_files")
        k = None
        for o in self.ctx.interp(csf).run_function(csf, {}):
            for e in o.effects:
                if e.kind == "call" and e.target.endswith(".write") and e.args and isinstance(e.args[0], Sym):
                    m = re.fullmatch(r"stubs_data\[\*\]\[(\d+)\]", e.args[0].path)
                    if m:
                        k = int(m.group(1))
        if k is None:
            return self._textpos
        self._textpos["create_reexport_module_strings"] = k
        gsd = self.repo.function(GENSTUBS, "generate_stub_data")
        for o in self.ctx.interp(gsd).run_function(gsd, {}):
            for x in walk_av(o.value):
                if isinstance(x, ListV) and x.kind == "tuple" and len(x.items) > k:
                    t = x.items[k]
                    if isinstance(t, App) and t.func == "[]" and len(t.args) == 2 and isinstance(t.args[1], Const) and "stubs_generator" in repr(t.args[0]):
                        self._textpos["_create_module_string"] = t.args[1].v
                        self._textpos["__call__"] = t.args[1].v
        return self._textpos

    # ------------------------------------------------------------------ indentation parameters
    def _indent_params(self) -> None:
        cand: set[tuple[str, str]] = set()
        for name, fi in self.funcs.items():
            for p in fi.params():
                if "indent" in p:
                    cand.add((name, p))
        changed = True
        while changed:
            changed = False
            for name, outs in self.runs.items():
                for o in outs:
                    for e in o.effects:
                        if e.kind != "call" or not e.target.startswith("self."):
                            continue
                        callee = e.target[5:]
                        fi = self.funcs.get(callee)
                        if fi is None:
                            continue
                        params = fi.params()[1:] if fi.cls and not fi.is_static else fi.params()
                        amap = dict(zip(params, e.args))
                        amap.update(dict(e.kwargs))
                        for p, v in amap.items():
                            if (callee, p) in cand and not self.is_indent(v, name, cand):
                                cand.discard((callee, p))
                                changed = True
        self.indent_params = cand

    def is_indent(self, v: AV, fname: str, cand=None) -> bool:
        cand = self.indent_params if cand is None else cand
        if isinstance(v, Const):
            return isinstance(v.v, str) and v.v.strip(" \t") == ""
        if isinstance(v, Sym):
            return (fname, v.path) in cand
        if isinstance(v, StrT):
            return all((isinstance(p, str) and p.strip(" \t") == "") or (not isinstance(p, str) and self.is_indent(p, fname, cand)) for p in v.parts)
        if isinstance(v, App) and v.func == "Add":
            return all(self.is_indent(a, fname, cand) for a in v.args)
        if isinstance(v, Alt):
            return all(self.is_indent(a, fname, cand) for a in v.alts)
        return False

    # ------------------------------------------------------------------ comment emitters
    def _comment_emitters(self) -> None:
        self.comment_emitters: set[str] = set()
        for name in self.funcs:
            ts = [t for t in self.templates if t.fi is self.funcs[name] and t.kind == "return"]
            nonempty = [t for t in ts if not (isinstance(t.value, Const) and t.value.v == "")]
            if nonempty and all(self._is_comment(t.value, name) for t in nonempty):
                self.comment_emitters.add(name)
        # fragment emitters: functions whose result is embedded only inside comment emitters
        embed: dict[str, set[str]] = {}
        for t in self.templates:
            host = self.name_of(t.fi)
            for h in walk_av(t.value):
                if isinstance(h, App) and h.func.startswith("self.") and h.func[5:] in self.funcs:
                    embed.setdefault(h.func[5:], set()).add(host)
        changed = True
        while changed:
            changed = False
            for f, hosts in embed.items():
                if f not in self.comment_emitters and hosts and all(h in self.comment_emitters for h in hosts):
                    self.comment_emitters.add(f)
                    changed = True

    def name_of(self, fi: FuncInfo) -> str:
        return fi.qualname.split(".", 1)[1] if fi.cls == GENCLS else fi.qualname

    def _is_comment(self, v: AV, fname: str) -> bool:
        if not isinstance(v, StrT):
            return False
        parts = list(v.parts)
        while parts and not isinstance(parts[0], str) and self.is_indent(parts[0], fname):
            parts.pop(0)
        if not parts or not isinstance(parts[0], str) or not parts[0].lstrip(" ").startswith("/**"):
            return False
        last = parts[-1]
        return isinstance(last, str) and last.rstrip("\n").endswith("*/")


def flat_parts(v: AV) -> list:
    """Parts of a template with nested StrT flattened (Rep / Alt kept as nodes)."""
    if isinstance(v, Const):
        return [v.v] if isinstance(v.v, str) else [str(v.v)]
    if isinstance(v, StrT):
        out: list = []
        for p in v.parts:
            if isinstance(p, str):
                out.append(p)
            elif isinstance(p, StrT):
                out.extend(flat_parts(p))
            else:
                out.append(p)
        return out
    return [v]


def holes_ctx(v: AV, prev: str = "", nxt: str = ""):
    """Yield (hole, text before, text after) for every non-literal leaf; Rep/Alt are descended."""
    parts = flat_parts(v)
    for i, p in enumerate(parts):
        if isinstance(p, str):
            continue
        before = parts[i - 1] if i > 0 and isinstance(parts[i - 1], str) else (prev if i == 0 else "")
        after = parts[i + 1] if i + 1 < len(parts) and isinstance(parts[i + 1], str) else (nxt if i + 1 == len(parts) else "")
        if isinstance(p, Rep):
            yield from holes_ctx(p.sep, "", "")
            for a in p.alts:
                yield from holes_ctx(a, before, after)
        elif isinstance(p, Alt):
            for a in p.alts:
                yield from holes_ctx(a, before, after)
        elif isinstance(p, StrT):
            yield from holes_ctx(p, before, after)
        elif isinstance(p, Const):
            continue
        else:
            yield p, before, after
