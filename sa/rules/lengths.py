"""Length-bound analysis for constant-index subscripts (C01.PARTIAL-OPS).

For `B[i]` with a constant integer i the sequence B needs at least need(i) elements (i+1 for i >= 0, -i otherwise).
A lower bound of len(B) at the subscript is derived from
  * the shape of B's defining expression (str.split(sep) >= 1, partition == 3, literals, tuple types reported by mypy),
  * the conditions that dominate the subscript (enclosing if/else, conditional expressions, left operands of and/or,
    comprehension filters, loop tests, preceding `if ...: return/continue/raise` statements, asserts),
with single-assignment local aliases substituted (`n = len(xs)`, `ys = d["types"]`).  A store to or a shrinking call on
the root name of B between the guard and the subscript invalidates the guard.
"""
from __future__ import annotations

import ast
from dataclasses import dataclass

SHRINK = {"pop", "remove", "clear", "popitem"}
EXITS = (ast.Return, ast.Raise, ast.Continue, ast.Break)


@dataclass
class IndexSite:
    node: ast.Subscript
    base: str
    idx: int
    need: int
    bound: int
    reason: str  # why bound >= need, or what is known


def need_of(i: int) -> int:
    return i + 1 if i >= 0 else -i


class Lengths:
    def __init__(self, repo, mi, fi, mypy_facts=None) -> None:
        self.repo, self.mi, self.fi, self.mf = repo, mi, fi, mypy_facts
        self.fn = fi.node
        # stores per name
        self.stores: dict[str, list[ast.AST]] = {}
        self.shrinks: dict[str, list[int]] = {}
        for n in ast.walk(self.fn):
            if isinstance(n, ast.Name) and isinstance(n.ctx, (ast.Store, ast.Del)):
                self.stores.setdefault(n.id, []).append(n)
            if isinstance(n, ast.Call) and isinstance(n.func, ast.Attribute) and n.func.attr in SHRINK:
                r = self.root(n.func.value)
                if r:
                    self.shrinks.setdefault(r, []).append(n.lineno)
            if isinstance(n, (ast.Delete,)):
                for t in n.targets:
                    r = self.root(t)
                    if r:
                        self.shrinks.setdefault(r, []).append(n.lineno)
            if isinstance(n, ast.Subscript) and isinstance(n.ctx, ast.Store) and isinstance(n.slice, ast.Slice):
                r = self.root(n.value)
                if r:
                    self.shrinks.setdefault(r, []).append(n.lineno)
        for a in self.fn.args.args + self.fn.args.kwonlyargs + self.fn.args.posonlyargs:
            self.stores.setdefault(a.arg, []).append(a)
        # single-assignment aliases: name -> value expr
        self.alias: dict[str, ast.expr] = {}
        for n in ast.walk(self.fn):
            if isinstance(n, ast.Assign) and len(n.targets) == 1 and isinstance(n.targets[0], ast.Name):
                x = n.targets[0].id
                if len(self.stores.get(x, [])) == 1 and self.pure(n.value):
                    self.alias[x] = n.value
            if isinstance(n, ast.AnnAssign) and isinstance(n.target, ast.Name) and n.value is not None:
                x = n.target.id
                if len(self.stores.get(x, [])) == 1 and self.pure(n.value):
                    self.alias[x] = n.value

    @staticmethod
    def root(e: ast.AST) -> str | None:
        while isinstance(e, (ast.Attribute, ast.Subscript)):
            e = e.value
        return e.id if isinstance(e, ast.Name) else None

    def pure(self, e: ast.expr) -> bool:
        if isinstance(e, (ast.Name, ast.Constant)):
            return True
        if isinstance(e, ast.Attribute):
            return self.pure(e.value)
        if isinstance(e, ast.Subscript):
            return self.pure(e.value) and self.pure(e.slice)
        if isinstance(e, ast.Call) and isinstance(e.func, ast.Name) and e.func.id == "len" and len(e.args) == 1:
            return self.pure(e.args[0])
        return False

    def norm(self, e: ast.AST, depth: int = 0) -> str:
        """Canonical text of a pure expression with aliases substituted."""
        if isinstance(e, ast.Name) and e.id in self.alias and depth < 6:
            return self.norm(self.alias[e.id], depth + 1)
        if isinstance(e, ast.Name):
            return e.id
        if isinstance(e, ast.Attribute):
            return f"{self.norm(e.value, depth)}.{e.attr}"
        if isinstance(e, ast.Subscript):
            return f"{self.norm(e.value, depth)}[{self.norm(e.slice, depth)}]"
        if isinstance(e, ast.Call) and isinstance(e.func, ast.Name) and e.func.id == "len" and len(e.args) == 1:
            return f"len({self.norm(e.args[0], depth)})"
        if isinstance(e, ast.Constant):
            return repr(e.value)
        return ast.unparse(e)

    # ------------------------------------------------------------------ intrinsic bounds
    def intrinsic(self, e: ast.expr, at_line: int, depth: int = 0) -> tuple[int, str]:
        if isinstance(e, ast.Call) and isinstance(e.func, ast.Attribute):
            if e.func.attr in ("split", "rsplit") and e.args:
                return 1, "str.split(sep) returns at least one element"
            if e.func.attr in ("partition", "rpartition"):
                return 3, "str.partition() returns three elements"
        if isinstance(e, (ast.List, ast.Tuple)) and not any(isinstance(x, ast.Starred) for x in e.elts):
            return len(e.elts), f"literal of {len(e.elts)} elements"
        if self.mf is not None:
            t = self.mf.type_of(self.mi.rel, e)
            n = tuple_arity(t)
            if n:
                return n, f"mypy type {t[:60]}"
        if isinstance(e, ast.Name) and depth < 4:
            defs = self.stores.get(e.id, [])
            vals = []
            for d in defs:
                par = self.repo.parent(d)
                if isinstance(par, ast.Assign) and len(par.targets) == 1 and par.targets[0] is d:
                    vals.append(par.value)
                elif isinstance(par, ast.AnnAssign) and par.value is not None:
                    vals.append(par.value)
                else:
                    return 0, ""
            if vals:
                bs = [self.intrinsic(v, at_line, depth + 1) for v in vals]
                b = min(x[0] for x in bs)
                pops = [l for l in self.shrinks.get(e.id, []) if l < at_line]
                if b and pops:
                    return max(0, b - len(pops)), f"{bs[0][1]}, minus {len(pops)} element(s) removed before the subscript"
                if b:
                    return b, bs[0][1]
        return 0, ""

    # ------------------------------------------------------------------ guards
    def facts(self, cond: ast.expr, truth: bool, target: str) -> tuple[int, str]:
        """Lower bound of len(target) implied by `cond` being `truth`."""
        src = ast.unparse(cond)[:70]
        if isinstance(cond, ast.UnaryOp) and isinstance(cond.op, ast.Not):
            return self.facts(cond.operand, not truth, target)
        if isinstance(cond, ast.BoolOp):
            conj = isinstance(cond.op, ast.And)
            if conj == truth:  # all operands have that truth value
                best = (0, "")
                for v in cond.values:
                    f = self.facts(v, truth, target)
                    if f[0] > best[0]:
                        best = f
                return best
            # a true `or` / false `and`: one of the operands: the weakest fact holds
            fs = [self.facts(v, truth, target) for v in cond.values]
            m = min(f[0] for f in fs)
            return (m, f"`{src}`") if m else (0, "")
        if isinstance(cond, ast.Compare):
            terms = [cond.left] + list(cond.comparators)
            ops = cond.ops
            # all-== chain with a constant: every len term equals it
            if truth and all(isinstance(o, ast.Eq) for o in ops):
                consts = [t.value for t in terms if isinstance(t, ast.Constant) and isinstance(t.value, int)]
                if consts and any(self.norm(t) == f"len({target})" for t in terms):
                    return consts[0], f"`{src}`"
            if len(ops) == 1:
                l, r, op = terms[0], terms[1], ops[0]
                ln, rn = self.norm(l), self.norm(r)
                lt = f"len({target})"
                k = None
                if ln == lt and isinstance(r, ast.Constant) and isinstance(r.value, int):
                    k, side = r.value, "L"
                elif rn == lt and isinstance(l, ast.Constant) and isinstance(l.value, int):
                    k, side = l.value, "R"
                if k is not None:
                    # normalise to len OP k
                    flip = {ast.Lt: ast.Gt, ast.Gt: ast.Lt, ast.LtE: ast.GtE, ast.GtE: ast.LtE, ast.Eq: ast.Eq, ast.NotEq: ast.NotEq}
                    opc = type(op) if side == "L" else flip.get(type(op))
                    if opc is None:
                        return 0, ""
                    if not truth:
                        neg = {ast.Lt: ast.GtE, ast.Gt: ast.LtE, ast.LtE: ast.Gt, ast.GtE: ast.Lt, ast.Eq: ast.NotEq, ast.NotEq: ast.Eq}
                        opc = neg[opc]
                    b = {ast.Eq: k, ast.GtE: k, ast.Gt: k + 1, ast.NotEq: 1 if k == 0 else 0}.get(opc, 0)
                    return (b, f"`{'not ' if not truth else ''}{src}`") if b > 0 else (0, "")
                if truth and isinstance(op, ast.In) and rn == target:
                    return 1, f"`{src}`"
                if truth and isinstance(op, (ast.Eq, ast.NotEq, ast.In, ast.NotIn, ast.Is, ast.IsNot)):
                    pass
            # an operand that subscripts the target was evaluated: no length fact is derived from it (it needs its own proof)
            return 0, ""
        # truthiness of the target itself
        if self.norm(cond) == target:
            return (1, f"`{src}` is true") if truth else (0, "")
        # truthiness of len(target)
        if self.norm(cond) == f"len({target})":
            return (1, f"`{src}` is true") if truth else (0, "")
        return 0, ""

    def mutated_between(self, target_root: str | None, lo: int, hi: int) -> bool:
        if target_root is None:
            return False
        for d in self.stores.get(target_root, []):
            l = getattr(d, "lineno", None)
            if l is not None and lo < l < hi:
                return True
        return any(lo < l < hi for l in self.shrinks.get(target_root, []))

    def dominating(self, node: ast.AST):
        """Yield (condition, truth, line) known at `node`."""
        prev = node
        cur = self.repo.parent(node)
        while cur is not None and prev is not self.fn:
            if isinstance(cur, (ast.If, ast.While)):
                if any(prev is s for s in cur.body):
                    yield cur.test, True, cur.lineno
                elif isinstance(cur, ast.If) and any(prev is s for s in cur.orelse):
                    yield cur.test, False, cur.lineno
            elif isinstance(cur, ast.IfExp):
                if prev is cur.body:
                    yield cur.test, True, cur.lineno
                elif prev is cur.orelse:
                    yield cur.test, False, cur.lineno
            elif isinstance(cur, ast.BoolOp):
                i = next((k for k, v in enumerate(cur.values) if v is prev), None)
                if i:
                    for v in cur.values[:i]:
                        yield v, isinstance(cur.op, ast.And), cur.lineno
            elif isinstance(cur, ast.Compare):
                # chained comparison: the pairs left of the operand were true when the operand is evaluated
                j = next((k for k, v in enumerate(cur.comparators) if v is prev), None)
                if j:
                    yield ast.Compare(left=cur.left, ops=cur.ops[:j], comparators=cur.comparators[:j]), True, cur.lineno
            elif isinstance(cur, (ast.ListComp, ast.SetComp, ast.GeneratorExp, ast.DictComp)):
                if not any(prev is g for g in cur.generators):
                    for g in cur.generators:
                        for c in g.ifs:
                            yield c, True, cur.lineno
            elif isinstance(cur, ast.comprehension):
                i = next((k for k, c in enumerate(cur.ifs) if c is prev), None)
                if i:
                    for c in cur.ifs[:i]:
                        yield c, True, getattr(c, "lineno", 0)
            # preceding siblings that exit
            for field in ("body", "orelse", "finalbody"):
                blk = getattr(cur, field, None)
                if isinstance(blk, list) and any(prev is s for s in blk):
                    for s in blk:
                        if s is prev:
                            break
                        if isinstance(s, ast.If) and not s.orelse and s.body and isinstance(s.body[-1], EXITS):
                            yield s.test, False, s.end_lineno or s.lineno
                        if isinstance(s, ast.Assert):
                            yield s.test, True, s.lineno
            prev, cur = cur, self.repo.parent(cur)

    def bound(self, sub: ast.Subscript) -> tuple[int, str]:
        base = sub.value
        target = self.norm(base)
        root = self.root(base)
        # after alias substitution the root may differ
        if isinstance(base, ast.Name) and base.id in self.alias:
            root = self.root(self.alias[base.id]) or root
        best = self.intrinsic(base, sub.lineno)
        if isinstance(base, ast.Name) and base.id in self.alias:
            alt = self.intrinsic(self.alias[base.id], sub.lineno)
            if alt[0] > best[0]:
                best = alt
        for cond, truth, line in self.dominating(sub):
            b, why = self.facts(cond, truth, target)
            if b > best[0] and not self.mutated_between(root, line, sub.lineno):
                best = (b, f"dominated by {why}")
        return best

    def sites(self) -> list[IndexSite]:
        out = []
        for n in ast.walk(self.fn):
            if isinstance(n, ast.Subscript) and isinstance(n.ctx, ast.Load) and not isinstance(n.value, ast.Dict):
                try:
                    idx = ast.literal_eval(n.slice)
                except Exception:  # noqa: BLE001
                    continue
                if not isinstance(idx, int) or isinstance(idx, bool):
                    continue
                b, why = self.bound(n)
                out.append(IndexSite(n, ast.unparse(n.value), idx, need_of(idx), b, why))
        return out


def tuple_arity(t: str | None) -> int:
    """Number of items of a fixed-length tuple type as printed by mypy, 0 otherwise."""
    if not t:
        return 0
    t = t.strip()
    for prefix in ("tuple[", "Tuple[", "builtins.tuple["):
        if t.startswith(prefix) and t.endswith("]"):
            inner = t[len(prefix):-1]
            depth, n, cur = 0, 0, ""
            parts = []
            for ch in inner:
                if ch in "[(":
                    depth += 1
                elif ch in "])":
                    depth -= 1
                if ch == "," and depth == 0:
                    parts.append(cur.strip())
                    cur = ""
                else:
                    cur += ch
            if cur.strip():
                parts.append(cur.strip())
            if any(p == "..." or p.startswith("*") for p in parts) or parts == ["()"]:
                return 0
            return len(parts)
    return 0
