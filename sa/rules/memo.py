"""MEMO-KEY: a memo cache must be keyed, injectively, on everything the cached value depends on.

Pattern (found structurally, anywhere in the package): inside one function a container ``D`` that outlives the call
(``self.X``, a class attribute, a module global) is read with a key and written with the same key::

    if key in D: return D[key]          # or D.get(key) / try: D[key]
    ...
    D[key] = value

Inputs of the cached value = the function's parameters (and, when ``D`` is shared between instances, every
``self`` attribute the function reads).  Each input must occur in the key as itself or through an injective wrapper
(attribute ``.id``/``.name``-free: the object itself, ``tuple``/``frozenset``/``sorted``/``str`` of it); an input that only
occurs below a filter, a slice, a ``split`` or not at all makes two different inputs share one entry, i.e. the
result depends on which caller came first (order / history dependence).
"""
from __future__ import annotations

import ast
from dataclasses import dataclass

from ..core.source import FuncInfo, ModuleInfo, Repo

INJECTIVE_CALLS = {"tuple", "frozenset", "sorted", "str", "repr", "id", "hash_key"}


@dataclass
class MemoSite:
    fi: FuncInfo
    container: str
    store: ast.AST
    key_expr: ast.expr
    inputs: list[str]
    covered: dict[str, str]  # input -> "injective" | "lossy" | "missing"
    shared: bool


def _container_name(e: ast.expr) -> str | None:
    if isinstance(e, ast.Attribute) and isinstance(e.value, ast.Name) and e.value.id in ("self", "cls"):
        return f"{e.value.id}.{e.attr}"
    if isinstance(e, ast.Attribute) and isinstance(e.value, ast.Name) and e.value.id[:1].isupper():
        return f"{e.value.id}.{e.attr}"
    if isinstance(e, ast.Name):
        return e.id
    return None


def find_memo_sites(repo: Repo) -> list[MemoSite]:
    sites = []
    for mi in repo.modules.values():
        for fi in mi.functions.values():
            sites.extend(_in_function(repo, mi, fi))
    return sites


def _local_defs(fi: FuncInfo) -> dict[str, list[ast.expr]]:
    defs: dict[str, list[ast.expr]] = {}
    for n in ast.walk(fi.node):
        if isinstance(n, ast.Assign):
            for t in n.targets:
                if isinstance(t, ast.Name):
                    defs.setdefault(t.id, []).append(n.value)
        elif isinstance(n, ast.AnnAssign) and isinstance(n.target, ast.Name) and n.value is not None:
            defs.setdefault(n.target.id, []).append(n.value)
    return defs


def _in_function(repo: Repo, mi: ModuleInfo, fi: FuncInfo) -> list[MemoSite]:
    out = []
    params = [p for p in fi.params() if p not in ("self", "cls")]
    defs = _local_defs(fi)
    locals_ = set(defs) | {t.id for n in ast.walk(fi.node) if isinstance(n, ast.For) for t in ast.walk(n.target) if isinstance(t, ast.Name)}
    stores = []
    for n in ast.walk(fi.node):
        if isinstance(n, ast.Assign):
            for t in n.targets:
                if isinstance(t, ast.Subscript):
                    c = _container_name(t.value)
                    if c and (c.startswith(("self.", "cls.")) or (c not in locals_ and c not in params)):
                        stores.append((c, t, n))
    for c, t, n in stores:
        key_src = ast.unparse(t.slice)
        # a read of the same container with the same key expression somewhere in the function
        read = False
        for x in ast.walk(fi.node):
            if isinstance(x, ast.Compare) and len(x.ops) == 1 and isinstance(x.ops[0], (ast.In, ast.NotIn)) \
                    and _container_name(x.comparators[0]) == c and ast.unparse(x.left) == key_src:
                read = True
            if isinstance(x, ast.Subscript) and isinstance(x.ctx, ast.Load) and _container_name(x.value) == c and ast.unparse(x.slice) == key_src:
                read = True
            if isinstance(x, ast.Call) and isinstance(x.func, ast.Attribute) and x.func.attr == "get" and _container_name(x.func.value) == c \
                    and x.args and ast.unparse(x.args[0]) == key_src:
                read = True
        if not read:
            continue
        shared = not c.startswith("self.")
        if c.startswith("self."):
            # instance attribute or class-level mutable?  class-level when assigned in the class body
            ci = mi.classes.get(fi.cls or "")
            if ci is not None and any(f[0] == c[5:] for f in ci.fields) or (ci is not None and any(
                    isinstance(st, ast.Assign) and any(isinstance(tt, ast.Name) and tt.id == c[5:] for tt in st.targets) for st in ci.node.body)):
                shared = True
        inputs = list(params)
        if shared:
            for x in ast.walk(fi.node):
                if isinstance(x, ast.Attribute) and isinstance(x.value, ast.Name) and x.value.id == "self" and isinstance(x.ctx, ast.Load) \
                        and f"self.{x.attr}" != c and f"self.{x.attr}" not in inputs:
                    # only data attributes (not method calls)
                    par = repo.parent(x)
                    if not (isinstance(par, ast.Call) and par.func is x):
                        inputs.append(f"self.{x.attr}")
        covered = {i: _coverage(i, t.slice, defs, 0) for i in inputs}
        # only inputs the stored value depends on (transitively through the function's local definitions) matter
        key_names = {x.id for x in ast.walk(t.slice) if isinstance(x, ast.Name)}
        used = _value_deps(fi, n.value, defs, stop=key_names) & set(inputs)
        covered = {i: v for i, v in covered.items() if i in used}
        out.append(MemoSite(fi, c, n, t.slice, sorted(used), covered, shared))
    return out


def _value_deps(fi: FuncInfo, value: ast.expr, defs: dict[str, list[ast.expr]], stop: set[str] = frozenset()) -> set[str]:
    """Names (parameters / self attributes) the expression depends on through local assignments, augmented
    assignments and loop targets of the function."""
    aug: dict[str, list[ast.expr]] = {}
    for n in ast.walk(fi.node):
        if isinstance(n, ast.AugAssign) and isinstance(n.target, ast.Name):
            aug.setdefault(n.target.id, []).append(n.value)
        if isinstance(n, (ast.For, ast.comprehension)):
            for t in ast.walk(n.target):
                if isinstance(t, ast.Name):
                    aug.setdefault(t.id, []).append(n.iter)
        if isinstance(n, ast.Assign):
            for t in n.targets:
                if isinstance(t, (ast.Tuple, ast.List)):
                    for x in ast.walk(t):
                        if isinstance(x, ast.Name):
                            aug.setdefault(x.id, []).append(n.value)
    seen: set[str] = set()
    out: set[str] = set()
    work = [value]
    while work:
        e = work.pop()
        for x in ast.walk(e):
            if isinstance(x, ast.Attribute) and isinstance(x.value, ast.Name) and x.value.id == "self":
                out.add(f"self.{x.attr}")
            if isinstance(x, ast.Name) and isinstance(x.ctx, ast.Load):
                out.add(x.id)
                if x.id in stop:
                    continue  # a dependency through the key itself is keyed by construction
                if x.id not in seen:
                    seen.add(x.id)
                    work.extend(defs.get(x.id, []))
                    work.extend(aug.get(x.id, []))
    return out


def _is_used(fi: FuncInfo, name: str) -> bool:
    for x in ast.walk(fi.node):
        if name.startswith("self."):
            if isinstance(x, ast.Attribute) and isinstance(x.value, ast.Name) and x.value.id == "self" and x.attr == name[5:]:
                return True
        elif isinstance(x, ast.Name) and x.id == name and isinstance(x.ctx, ast.Load):
            return True
    return False


def _coverage(inp: str, key: ast.expr, defs: dict[str, list[ast.expr]], depth: int) -> str:
    """injective / lossy / missing: how ``inp`` occurs in the key expression."""
    best = "missing"

    def is_inp(e: ast.expr) -> bool:
        if inp.startswith("self."):
            return isinstance(e, ast.Attribute) and isinstance(e.value, ast.Name) and e.value.id == "self" and e.attr == inp[5:]
        return isinstance(e, ast.Name) and e.id == inp

    def visit(e: ast.expr, inj: bool) -> None:
        nonlocal best
        if is_inp(e):
            best = "injective" if inj and best != "lossy-only" else (best if best == "injective" else "lossy")
            if inj:
                best = "injective"
            return
        if isinstance(e, ast.Name) and e.id in defs and depth < 4:
            for d in defs[e.id]:
                r = _coverage(inp, d, defs, depth + 1)
                if r == "injective" and inj:
                    best = "injective"
                elif r != "missing" and best == "missing":
                    best = "lossy"
            return
        if isinstance(e, (ast.Tuple, ast.List)):
            for x in e.elts:
                visit(x, inj)
        elif isinstance(e, ast.Call) and isinstance(e.func, ast.Name) and e.func.id in INJECTIVE_CALLS:
            for x in e.args:
                visit(x, inj)
        elif isinstance(e, ast.JoinedStr):
            for x in e.values:
                if isinstance(x, ast.FormattedValue):
                    visit(x.value, inj)
        elif isinstance(e, ast.Attribute):
            # obj.id / obj.name identify the object only if the attribute is an identifier of it: accept .id, reject others
            visit(e.value, inj and e.attr in ("id", "fullname", "qname"))
        else:
            for x in ast.iter_child_nodes(e):
                if isinstance(x, ast.expr):
                    visit(x, False)
                elif isinstance(x, ast.comprehension):
                    visit(x.iter, False)
                    for c in x.ifs:
                        visit(c, False)

    visit(key, True)
    return best
