"""Obligations shared between properties: a rule built for one property is also a necessary condition of another.
The source check is evaluated once per process and the selected obligations are copied (keeping their rule id, so a
known finding listed for the rule applies wherever the rule is shared)."""
from __future__ import annotations

import importlib

from ..core.ctx import Ctx
from ..core.report import Collector

_CACHE: dict[str, Collector] = {}


def share(ctx: Ctx, col: Collector, source: str, rules: set[str], why: str, key_filter=None) -> None:
    if source not in _CACHE:
        sub = Collector(source)
        importlib.import_module(f"sa.rules.{source.lower()}").check(ctx, sub, "quick")
        _CACHE[source] = sub
    sub = _CACHE[source]
    for r in sorted(rules):
        spec = sub.specs[r]
        obs = [o for o in sub.obs if o.rule == r and (key_filter is None or key_filter(o))]
        col.spec(r, f"(shared from {source}: {why}) {spec.clause}", spec.engine, floor=min(spec.floor, max(1, len(obs))))
        for o in obs:
            col.obs.append(o)
    col.units |= sub.units
    col.functions |= sub.functions
