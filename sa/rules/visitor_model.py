"""Shared analyses of the AST walker and the visitor's declaration stack (used by C01, C03, C04, C12)."""
from __future__ import annotations

import ast
from functools import lru_cache

from ..core.absint import AV, App, Const, ListV, Obj, Outcome, State, Sym, walk_av
from ..core.ctx import VISITOR, WALKER, Ctx
from ..core.source import AnalysisError

VCLS = "MyPyAstVisitor"
STACK = "self.__declaration_stack"
DEF_HELPERS = {"get_mypyfile_definitions", "get_classdef_definitions", "get_funcdef_definitions"}


def stmt_classes(ctx: Ctx) -> list[str]:
    return [k for k in ctx.lib.subclasses("Statement") if k not in ("Statement", "ImportBase")]


def child_selection(ctx: Ctx) -> dict[str, set[str]]:
    """container kind -> statement classes the walker descends into (union over all paths)."""
    fi = ctx.repo.function(WALKER, "ASTWalker.__walk")
    stm = stmt_classes(ctx)
    defs = ListV(tuple(Sym(f"child:{k}", k) for k in stm))
    block = Obj("Block", (("body", defs),))
    enum_base = Obj("NameExpr", (("fullname", Const("enum.Enum")),))
    containers = {
        "Module": Obj("MypyFile", (("defs", defs),)),
        "Class": Obj("ClassDef", (("defs", block), ("base_type_exprs", ListV(())))),
        "Enum": Obj("ClassDef", (("defs", block), ("base_type_exprs", ListV((enum_base,))))),
        "Constructor": Obj("FuncDef", (("name", Const("__init__")), ("body", block))),
        "Function": Obj("FuncDef", (("name", Const("some_function")), ("body", block))),
    }
    res: dict[str, set[str]] = {}
    for kind, node in containers.items():
        it = ctx.interp(fi, inline=DEF_HELPERS | {"__is_enum"})
        outs = it.run_function(fi, {"self": Sym("self"), "node": node, "visited_nodes": Sym("visited")})
        sel: set[str] = set()
        for o in outs:
            for e in o.effects:
                if e.kind == "call" and e.target.endswith("__walk") and e.args and isinstance(e.args[0], Sym) and e.args[0].cls:
                    sel.add(e.args[0].cls)
        res[kind] = sel
    return res


def handler_name(ctx: Ctx, cls: str, is_enum: bool = False) -> str:
    """Name computed by the walker's reflective dispatch for a node class (classdef -> enumdef for Enum bases)."""
    n = cls.lower()
    if n == "classdef" and is_enum:
        return "enumdef"
    if n == "mypyfile":
        return "moduledef"
    return n


def parent_obj(kind: str) -> AV:
    if kind == "Module":
        return Obj("Module", (("id", Sym("PARENT.id")), ("name", Sym("PARENT.name")), ("classes", Sym("PARENT.classes"))))
    if kind == "Class":
        return Obj("Class", (("id", Sym("PARENT.id")), ("name", Sym("PARENT.name")), ("is_public", Sym("PARENT.is_public")), ("attributes", Sym("PARENT.attributes"))))
    if kind == "Enum":
        return Obj("Enum", (("id", Sym("PARENT.id")), ("name", Sym("PARENT.name"))))
    if kind == "Constructor":
        return Obj("Function", (("id", Sym("PARENT.id")), ("name", Const("__init__"))))
    if kind == "Function":
        return Obj("Function", (("id", Sym("PARENT.id")), ("name", Const("some_function"))))
    raise AnalysisError(kind)


def elem_obj(kind: str) -> AV:
    if kind == "classdef":
        return Obj("Class", (("id", Sym("E.id")), ("name", Sym("E.name"))))
    if kind == "funcdef":
        return Obj("Function", (("id", Sym("E.id")), ("name", Sym("E.name")), ("results", Sym("E.results")), ("parameters", Sym("E.parameters"))))
    if kind == "enumdef":
        return Obj("Enum", (("id", Sym("E.id")), ("name", Sym("E.name"))))
    raise AnalysisError(kind)


def visitor_state(stack: tuple[AV, ...]) -> State:
    return State({"self": Sym("self"), STACK: ListV(stack), "self.api": Sym("self.api"), "self.mypy_file": Sym("self.mypy_file"),
                  "self.aliases": Sym("self.aliases"), "self.docstring_parser": Sym("self.docstring_parser")})


def possible_parents(sel: dict[str, set[str]]) -> dict[str, list[str]]:
    """handler kind -> parent kinds the stack top can have when the handler runs (from the walker's child selection)."""
    res: dict[str, list[str]] = {"classdef": [], "enumdef": [], "funcdef": [], "assignmentstmt": []}
    # class bodies are walked for both classes and enums (both are ClassDef nodes)
    containers = {"Module": sel["Module"], "Class": sel["Class"], "Enum": sel["Enum"], "Constructor": sel["Constructor"], "Function": sel["Function"]}
    for parent, kids in containers.items():
        if "ClassDef" in kids:
            res["classdef"].append(parent)
            res["enumdef"].append(parent)
        if kids & {"FuncDef", "Decorator", "OverloadedFuncDef"}:
            res["funcdef"].append(parent)
        if "AssignmentStmt" in kids:
            res["assignmentstmt"].append(parent)
    return res
