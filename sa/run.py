#!/venv/bin/python
"""Entry point of the static checks.

    /venv/bin/python sa/run.py check C07 --tier quick|thorough
    /venv/bin/python sa/run.py replay evidence/violations/<file>.json
    /venv/bin/python sa/run.py all [--tier quick]

Exit 0: all obligations discharged or listed in known_findings.json; exit 1: VIOLATION line(s); exit 2: the
analysis itself could not run (ANALYSIS-ERROR), never a verdict.
"""
from __future__ import annotations

import argparse
import importlib
import json
import os
import sys
import time
import traceback
from pathlib import Path

HERE = Path(__file__).resolve().parent
sys.path.insert(0, str(HERE.parent))
# pure-python wheels used in place (nothing is installed)
for _w in ("networkx", "lark"):
    for _p in sorted(Path("/opt/veriftools/wheels").glob(f"{_w}-*.whl")):
        sys.path.append(str(_p))

from sa.core.report import Collector, finish  # noqa: E402
from sa.core.source import AnalysisError  # noqa: E402

PROPS = [f"C{i:02d}" for i in range(1, 21)]


def run_check(prop: str, tier: str, quiet: bool = False) -> int:
    t0 = time.time()
    cmd = f"/venv/bin/python sa/run.py check {prop} --tier {tier}"
    try:
        from sa.core.ctx import Ctx
        try:
            mod = importlib.import_module(f"sa.rules.{prop.lower()}")
        except ModuleNotFoundError as e:
            if e.name == f"sa.rules.{prop.lower()}":
                raise AnalysisError(f"no rule implemented for {prop}") from e
            raise
        ctx = Ctx()
        col = Collector(prop)
        mod.check(ctx, col, tier)
        if tier == "thorough":
            from sa.selftest import variants
            variants.run(prop, col)
        return finish(col, tier, t0, cmd, quiet)
    except AnalysisError as e:
        print(f"ANALYSIS-ERROR property={prop}: {e}")
        return 2
    except Exception:  # noqa: BLE001
        print(f"ANALYSIS-ERROR property={prop}: internal error")
        traceback.print_exc()
        return 2


def main() -> int:
    ap = argparse.ArgumentParser()
    sub = ap.add_subparsers(dest="cmd", required=True)
    c = sub.add_parser("check")
    c.add_argument("prop")
    c.add_argument("--tier", default=os.environ.get("VERIF_TIER", "quick"), choices=["quick", "thorough"])
    r = sub.add_parser("replay")
    r.add_argument("path")
    vc = sub.add_parser("variant-check")
    vc.add_argument("prop")
    a = sub.add_parser("all")
    a.add_argument("--tier", default="quick")
    args = ap.parse_args()
    if args.cmd == "check":
        return run_check(args.prop, args.tier)
    if args.cmd == "variant-check":
        from sa.core.ctx import Ctx
        col = Collector(args.prop)
        try:
            importlib.import_module(f"sa.rules.{args.prop.lower()}").check(Ctx(), col, "quick")
            print(json.dumps({"findings": sorted({f"{o.rule} {o.key}" for o in col.obs if not o.ok})}))
        except AnalysisError as e:
            print(json.dumps({"error": str(e)}))
        except Exception as e:  # noqa: BLE001
            print(json.dumps({"error": f"internal: {type(e).__name__}: {e}"}))
        return 0
    if args.cmd == "all":
        rc = 0
        for p in PROPS:
            if (HERE / "rules" / f"{p.lower()}.py").exists():
                print(f"==== {p}")
                rc = max(rc, run_check(p, args.tier))
        return rc
    if args.cmd == "replay":
        d = json.loads(Path(args.path).read_text())
        prop = d["property"]
        print(f"replaying {d['rule']} {d['key']} on the current tree")
        from sa.core.ctx import Ctx
        mod = importlib.import_module(f"sa.rules.{prop.lower()}")
        col = Collector(prop)
        try:
            mod.check(Ctx(), col, "quick")
        except AnalysisError as e:
            print(f"ANALYSIS-ERROR property={prop}: {e}")
            return 2
        hits = [o for o in col.obs if o.rule == d["rule"] and o.key == d["key"]]
        for o in hits:
            print(f"{'DISCHARGED' if o.ok else 'FINDING'} {o.rule} at {o.site}\n  fact: {o.fact}\n  {o.what}")
        if not hits:
            print("rule instance no longer exists on this tree")
        return 1 if any(not o.ok for o in hits) else 0
    return 2


if __name__ == "__main__":
    rc = main()
    sys.stdout.flush()
    os._exit(rc)
